"""Turn a z3 counter-model into JSON descriptions of concrete inputs that the
native replay driver can rebuild with the real constructors."""
from fractions import Fraction

import z3

from . import sorts as S


def mval(model, e):
    return model.eval(e, model_completion=True)


def as_int(model, e):
    v = mval(model, e)
    try:
        return v.as_long()
    except Exception:
        return None


def as_frac(model, e):
    v = mval(model, e)
    try:
        return str(Fraction(v.numerator_as_long(), v.denominator_as_long()))
    except Exception:
        try:
            return str(Fraction(v.as_long()))
        except Exception:
            return None


def as_str(model, e):
    v = mval(model, e)
    try:
        return v.as_string()
    except Exception:
        return None


def ty_to_json(model, t, depth=3):
    t = mval(model, t)
    try:
        name = t.decl().name()
    except Exception:
        return {"t": "?"}
    if name in ("BoolT", "IntT", "RealT", "StrT", "NoneT"):
        return {"t": name}
    if name == "BVT":
        return {"t": "BVT", "w": as_int(model, t.arg(0))}
    if name == "ArrT" and depth > 0:
        return {"t": "ArrT", "i": ty_to_json(model, t.arg(0), depth - 1), "e": ty_to_json(model, t.arg(1), depth - 1)}
    if name == "FunT":
        f = t.arg(0)
        n = as_int(model, S.fun_arity(f))
        n = n if n is not None and 0 <= n <= 4 else 1
        return {"t": "FunT", "ret": ty_to_json(model, S.fun_ret(f), depth - 1),
                "params": [ty_to_json(model, S.fun_param(f, S.K(i)), depth - 1) for i in range(n)]}
    if name == "CustomT":
        return {"t": "CustomT", "id": as_int(model, t.arg(0))}
    return {"t": name}


def node_to_json(model, n, depth=3):
    try:
        return _node_to_json(model, n, depth)
    except Exception as e:     # z3 model evaluation can fail on huge terms
        return {"id": "?", "op": None, "error": repr(e)[:100]}


def _node_to_json(model, n, depth=3):
    """Structure of node term n in the model: op, payload, children."""
    n = mval(model, n)          # work on model values: evaluating nested terms crashed z3 5.1
    opc = as_int(model, S.op(n))
    d = {"id": str(n)}
    if opc is None or not (0 <= opc < S.NOPS):
        d["op"] = None
        d["type"] = ty_to_json(model, S.type_of(n))
        return d
    name = S.OPNAMES[opc]
    d["op"] = name
    d["type"] = ty_to_json(model, S.type_of(n))
    k = as_int(model, S.nargs(n))
    if opc in S.FIXED_ARITY:
        k = S.FIXED_ARITY[opc]
    if k is None or k < 0 or k > 6:
        k = 0
    if opc == S.INT_CONSTANT:
        d["value"] = as_int(model, S.pl_int(n))
    elif opc == S.REAL_CONSTANT:
        d["value"] = as_frac(model, S.pl_real(n))
    elif opc == S.BOOL_CONSTANT:
        d["value"] = z3.is_true(mval(model, S.pl_bool(n)))
    elif opc == S.STR_CONSTANT:
        d["value"] = as_str(model, S.pl_str(n))
    elif opc == S.BV_CONSTANT:
        d["value"] = as_int(model, S.pl_int(n))
        d["width"] = as_int(model, S.pl_w(n))
    elif opc == S.SYMBOL:
        d["name"] = as_str(model, S.pl_str(n))
        d["stype"] = ty_to_json(model, S.pl_ty(n))
    elif opc == S.FUNCTION:
        d["fname"] = node_to_json(model, S.pl_node(n), 1)
    elif opc == S.ARRAY_VALUE:
        d["idx_type"] = ty_to_json(model, S.pl_ty(n))
    elif opc == S.BV_EXTRACT:
        d["w"], d["start"], d["end"] = (as_int(model, S.pl_w(n)), as_int(model, S.pl_i1(n)), as_int(model, S.pl_i2(n)))
    elif opc in (S.BV_ROL, S.BV_ROR, S.BV_ZEXT, S.BV_SEXT):
        d["w"], d["step"] = as_int(model, S.pl_w(n)), as_int(model, S.pl_i1(n))
    elif opc in S.BV_W_OPS:
        d["w"] = as_int(model, S.pl_w(n))
    elif opc in S.QUANT_OPS:
        nq = as_int(model, S.nqv(n))
        nq = nq if nq is not None and 1 <= nq <= 3 else 1
        d["qvars"] = [node_to_json(model, S.qv(n, S.K(i)), 1) for i in range(nq)]
    if depth > 0:
        d["args"] = [node_to_json(model, S.arg(n, S.K(i)), depth - 1) for i in range(k)]
    else:
        d["args"] = None
    return d
