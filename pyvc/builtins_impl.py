"""Fixed meanings of Python builtins / operators on symbolic values.  Every
entry here is 'assumed Python semantics' (listed in evidence)."""
import math
from fractions import Fraction

import z3

from . import sorts as S
from .sorts import Node, Ty, I, B, R
from .symex import (GenObj, Unsupported, PathAbort, PyRaise, ExcVal, ExcClass, Obj, ClassRef, ModuleRef,
                    FuncVal, Builtin, ContentView, PayloadView, ArgsView, QVars, ZSetTuple,
                    SetVal, DictVal, Opaque, FloatVal, Frame, SeqList, PrefList, NodeMap,
                    is_z3, is_node, is_ty, is_sym_int, is_sym_bool, is_sym_real, is_sym_str,
                    is_zset, to_int, to_real, to_bool, to_str, is_numeric, is_boolish,
                    is_realish, is_intish, is_strish, concrete, z3const)

ASSUMED = set()     # names of builtin meanings actually used in a run


def used(name):
    ASSUMED.add(name)


# ---------------------------------------------------------------------------
class ZSetSplat:
    """'all the elements of this z3 set' inside a Python list/iteration"""
    def __init__(self, zset):
        self.zset = zset


class BitStr:
    """A Python str of known length whose characters are concrete characters or
    symbolic binary digits (z3 Bool: True = '1').  Produced by '{0:0Nb}'.format."""
    def __init__(self, chars):
        self.chars = list(chars)

    def z3str(self):
        parts = [z3.StringVal(c) if isinstance(c, str) else z3.If(c, z3.StringVal("1"), z3.StringVal("0"))
                 for c in self.chars]
        if not parts:
            return z3.StringVal("")
        return z3.Concat(parts) if len(parts) > 1 else parts[0]

    @staticmethod
    def of(v):
        if isinstance(v, BitStr):
            return v
        if isinstance(v, str):
            return BitStr(list(v))
        return None


def bitchar_eq(c, d):
    """equality of two characters (concrete or bit)"""
    if isinstance(c, str) and isinstance(d, str):
        return c == d
    if isinstance(c, str):
        c, d = d, c
    if isinstance(d, str):
        if d == "1":
            return c
        if d == "0":
            return z3.Not(c)
        return False
    return c == d


def bitstr_eq(a, b):
    a, b = BitStr.of(a), BitStr.of(b)
    if len(a.chars) != len(b.chars):
        return False
    cs = [bitchar_eq(x, y) for x, y in zip(a.chars, b.chars)]
    if any(c is False for c in cs):
        return False
    cs = [c for c in cs if c is not True]
    return z3.And(cs) if cs else True


# ---------------------------------------------------------------------------
# payload resolution
# ---------------------------------------------------------------------------
PAYLOAD_ORDER = [S.BV_CONSTANT, S.INT_CONSTANT, S.REAL_CONSTANT, S.BOOL_CONSTANT, S.STR_CONSTANT,
                 S.SYMBOL, S.FUNCTION, S.FORALL, S.EXISTS, S.ARRAY_VALUE, S.ALGEBRAIC_CONSTANT,
                 S.BV_EXTRACT, S.BV_ROL, S.BV_ROR, S.BV_ZEXT, S.BV_SEXT] + \
                [k for k in S.BV_W_OPS if k not in (S.BV_EXTRACT, S.BV_ROL, S.BV_ROR, S.BV_ZEXT, S.BV_SEXT)]


def payload_value(world, Kop, n):
    if Kop == S.INT_CONSTANT:
        return S.pl_int(n)
    if Kop == S.REAL_CONSTANT:
        return S.pl_real(n)
    if Kop == S.BOOL_CONSTANT:
        return S.pl_bool(n)
    if Kop == S.STR_CONSTANT:
        return S.pl_str(n)
    if Kop == S.ALGEBRAIC_CONSTANT:
        return Opaque("algebraic")
    if Kop == S.BV_CONSTANT:
        return (S.pl_int(n), S.pl_w(n))
    if Kop == S.SYMBOL:
        return (S.pl_str(n), S.pl_ty(n))
    if Kop == S.FUNCTION:
        return S.pl_node(n)
    if Kop in S.QUANT_OPS:
        return QVars(n)
    if Kop == S.ARRAY_VALUE:
        return S.pl_ty(n)
    if Kop == S.BV_EXTRACT:
        return (S.pl_w(n), S.pl_i1(n), S.pl_i2(n))
    if Kop in (S.BV_ROL, S.BV_ROR, S.BV_ZEXT, S.BV_SEXT):
        return (S.pl_w(n), S.pl_i1(n))
    if Kop in S.BV_W_OPS:
        return (S.pl_w(n),)
    return None


def resolve_op(world, ex, n, candidates=None):
    """Concrete operator code of node term n on this path (forks if needed)."""
    Kop, _ = world.known(ex, n)
    if Kop is not None:
        return Kop
    cands = candidates if candidates is not None else list(range(S.NOPS))
    for c in cands:
        if ex.decide(S.op(n) == c):
            return c
    raise PathAbort("op-outside-candidates")


def resolve_payload(world, ex, pv):
    n = pv.n
    Kop, _ = world.known(ex, n)
    if Kop is None:
        for c in PAYLOAD_ORDER:
            if ex.decide(S.op(n) == c):
                Kop = c
                break
        else:
            return None       # operators without payload
    return payload_value(world, Kop, n)


def concretize_len(world, ex, n):
    """Concrete number of children of node n (forks up to ex.max_arity)."""
    _, k = world.known(ex, n)
    if k is not None:
        return k
    Kop, _ = world.known(ex, n)
    lo = 0
    if Kop in (S.AND, S.OR, S.PLUS, S.TIMES, S.STR_CONCAT):
        lo = 2
    elif Kop in (S.FUNCTION, S.ARRAY_VALUE):
        lo = 1
    step = 2 if Kop == S.ARRAY_VALUE else 1
    hi = max(ex.max_arity, lo) if Kop != S.ARRAY_VALUE else max(ex.max_arity, 3)
    for k in range(lo, hi + 1, step):
        if ex.decide(S.nargs(n) == k):
            return k
    ex.notes.append("arity-bound")
    raise PathAbort("arity-bound")


def concretize_int(world, ex, e, lo, hi, what="int-bound"):
    if isinstance(e, int):
        return e
    for c in range(lo, hi + 1):
        if ex.decide(e == c):
            return c
    ex.notes.append(what)
    raise PathAbort(what)


def args_list(world, ex, av):
    k = concretize_len(world, ex, av.n)
    full = [world.touch(ex, S.arg(av.n, S.K(i))) for i in range(k)]
    return full


# ---------------------------------------------------------------------------
# kinds
# ---------------------------------------------------------------------------
def pykind(world, v):
    if isinstance(v, bool) or is_sym_bool(v):
        return "bool"
    if isinstance(v, int) or is_sym_int(v):
        return "int"
    if isinstance(v, Fraction) or is_sym_real(v):
        return "Fraction"
    if isinstance(v, FloatVal):
        return "float"
    if isinstance(v, str) or is_sym_str(v) or isinstance(v, BitStr):
        return "str"
    if v is None:
        return "NoneType"
    if isinstance(v, tuple):
        return "tuple"
    if isinstance(v, (list, SeqList)):
        return "list"
    if isinstance(v, (dict, DictVal)):
        return "dict"
    if isinstance(v, (set, SetVal)):
        return "frozenset" if isinstance(v, frozenset) or getattr(v, "frozen", False) else "set"
    if isinstance(v, frozenset):
        return "frozenset"
    if is_node(v):
        return "FNode"
    if is_ty(v):
        return "PySMTType"
    if isinstance(v, (ArgsView, QVars, ZSetTuple)):
        return "tuple"
    if is_zset(v):
        return "frozenset"
    if isinstance(v, Obj):
        return v.cls
    if isinstance(v, (FuncVal, Builtin)):
        return "function"
    if isinstance(v, Opaque):
        return "opaque:" + v.what
    if isinstance(v, ExcVal):
        return v.cls
    return type(v).__name__


# ---------------------------------------------------------------------------
# arithmetic
# ---------------------------------------------------------------------------
def _is_pow2_minus1(e):
    """syntactic  pow2(w) - 1  -> w"""
    e = z3.simplify(e) if is_z3(e) else e
    if not is_z3(e):
        return None
    if z3.is_add(e) and len(e.children()) == 2:
        a, b = e.children()
        for x, y in ((a, b), (b, a)):
            if z3.is_int_value(x) and x.as_long() == -1 and z3.is_app(y) and y.decl().eq(S.pow2.f):
                return y.arg(0)
    return None


def _is_pow2(e):
    if is_z3(e) and z3.is_app(e) and e.decl().eq(S.pow2.f):
        return e.arg(0)
    if is_z3(e) and z3.is_int_value(e):
        e = e.as_long()
    if isinstance(e, int) and e > 0 and e & (e - 1) == 0:
        return z3.IntVal(e.bit_length() - 1)
    return None


def _is_not_pow2(e):
    """syntactic -pow2(i) - 1 (i.e. ~(1 << i)) -> i"""
    if not is_z3(e):
        return None
    e = z3.simplify(e)
    if z3.is_add(e) and len(e.children()) == 2:
        a, b = e.children()
        for x, y in ((a, b), (b, a)):
            if z3.is_int_value(x) and x.as_long() == -1 and z3.is_mul(y) and len(y.children()) == 2:
                c, p = y.children()
                if z3.is_int_value(c) and c.as_long() == -1 and _is_pow2(p) is not None:
                    return _is_pow2(p)
    return None


def bit_set(x, i):
    return S.pymod(S.pydiv(x, S.pow2(i)), z3.IntVal(2)) == 1


def binop(world, ex, opname, a, b):
    if isinstance(a, PayloadView):
        a = resolve_payload(world, ex, a)
    if isinstance(b, PayloadView):
        b = resolve_payload(world, ex, b)
    if opname == "%" and (isinstance(a, (str, Opaque, BitStr)) or is_sym_str(a)):
        return str_format(world, ex, a, b)      # str.__mod__ of the left operand comes first
    # nodes: infix operators of FNode
    if is_node(a) or is_node(b):
        dun = {"+": "add", "-": "sub", "*": "mul", "/": "truediv", "&": "and", "|": "or", "^": "xor",
               "<<": "lshift", ">>": "rshift", "%": "mod", "//": "floordiv", "**": "pow"}[opname]
        if is_node(a):
            return world.node_dunder(ex, a, "__%s__" % dun, [b])
        return world.node_dunder(ex, b, "__r%s__" % dun, [a])
    # strings
    if isinstance(a, BitStr) or isinstance(b, BitStr):
        if opname == "+" and BitStr.of(a) is not None and BitStr.of(b) is not None:
            return BitStr(BitStr.of(a).chars + BitStr.of(b).chars)
        if opname == "*" and isinstance(a, BitStr) and is_intish(b):
            n = concretize_int(world, ex, b, 0, 70, "str-repeat-bound")
            return BitStr(a.chars * max(n, 0))
        if opname == "%" and isinstance(a, str):
            return str_format(world, ex, a, b)
        if opname == "+" and (is_sym_str(a) or is_sym_str(b)):
            a2 = a.z3str() if isinstance(a, BitStr) else to_str(a)
            b2 = b.z3str() if isinstance(b, BitStr) else to_str(b)
            return z3.Concat(a2, b2)
        raise Unsupported("operator %s on a binary-digit string" % opname)
    if is_strish(a) and opname == "+" and is_strish(b):
        used("str.+")
        return z3.Concat(to_str(a), to_str(b))
    if is_strish(a) and opname == "%":
        return str_format(world, ex, a, b)
    if is_strish(a) and opname == "*" and (is_intish(b)):
        used("str.*")
        if is_sym_str(a) and isinstance(b, int):
            return z3.Concat([a] * b) if b > 1 else (a if b == 1 else "")
        if isinstance(b, int):
            return a * b
        h = world.config.get("str_repeat")
        if h is not None:
            return h(ex, a, b)
        return _repeat_str(world, ex, a, b)
    # sequences
    if isinstance(a, SeqList) and opname == "+":
        if isinstance(b, SeqList):
            return SeqList(z3.Concat(a.expr, b.expr))
        items = iterate(world, ex, b)
        e = a.expr
        for x in items:
            e = z3.Concat(e, z3.Unit(x))
        return SeqList(e)
    if isinstance(a, (list, tuple, ArgsView, QVars)) and opname == "+":
        la, lb = iterate(world, ex, a), iterate(world, ex, b)
        return type(a)(la + lb) if isinstance(a, (list, tuple)) else tuple(la + lb)
    if isinstance(a, (list, tuple)) and opname == "*" and isinstance(b, int):
        return a * b
    # sets
    if isinstance(a, (SetVal, set, frozenset)) or is_zset(a):
        if opname in ("|", "&", "-"):
            name = {"|": "union", "&": "intersection", "-": "difference"}[opname]
            return set_op(world, ex, name, a, b)
        if opname == "^":
            used("set ^ = symmetric difference")
            za = set_to_z3(world, ex, a)
            zb = set_to_z3(world, ex, b, za.sort().domain())
            return z3.SetDifference(z3.SetUnion(za, zb), z3.SetIntersect(za, zb))
    # floats
    if isinstance(a, FloatVal) or isinstance(b, FloatVal):
        return float_binop(world, ex, opname, a, b)
    if is_boolish(a) and not isinstance(a, bool):
        a = to_int(a)
    if is_boolish(b) and not isinstance(b, bool):
        b = to_int(b)
    if isinstance(a, bool):
        a = int(a)
    if isinstance(b, bool):
        b = int(b)
    if not (is_numeric(a) and is_numeric(b)):
        raise Unsupported("binop %s on %s, %s" % (opname, pykind(world, a), pykind(world, b)))
    real = is_realish(a) or is_realish(b)
    if real:
        ra, rb = to_real(a), to_real(b)
        used("Fraction.arith")
        if opname == "+":
            return ra + rb
        if opname == "-":
            return ra - rb
        if opname == "*":
            return ra * rb
        if opname == "/":
            if ex.decide(rb == 0):
                raise PyRaise(ExcVal("ZeroDivisionError"))
            return ra / rb
        if opname == "**":
            if isinstance(b, int):
                return _real_pow(ex, ra, b)
            if is_sym_int(b):
                used("Fraction ** int = exact rational power")
                if ex.decide(z3.And(ra == 0, b < 0)):
                    raise PyRaise(ExcVal("ZeroDivisionError"))
                return S.rpow(ra, b)
            raise Unsupported("fractional symbolic exponent on a rational")
        raise Unsupported("real binop " + opname)
    ia, ib = to_int(a), to_int(b)
    used("int.arith")
    if opname == "+":
        return ia + ib
    if opname == "-":
        return ia - ib
    if opname == "*":
        return ia * ib
    if opname == "/":
        if ex.decide(ib == 0):
            raise PyRaise(ExcVal("ZeroDivisionError"))
        return float_div(world, ex, to_real(ia), to_real(ib))
    if opname == "//":
        if ex.decide(ib == 0):
            raise PyRaise(ExcVal("ZeroDivisionError"))
        used("int.//")
        return S.pydiv(ia, ib)
    if opname == "%":
        if ex.decide(ib == 0):
            raise PyRaise(ExcVal("ZeroDivisionError"))
        used("int.%")
        return S.pymod(ia, ib)
    if opname == "**":
        if isinstance(a, int) and a == 2:
            used("2**e -> pow2")
            if ex.decide(ib >= 0):
                return S.pow2(ib)
            return 1 / z3.ToReal(S.pow2(-ib))
        if isinstance(b, int) and 0 <= b <= 8:
            return z3.Product([ia] * b) if b > 0 else 1
        used("int ** int: exact for exponent >= 0, float (rounded) below")
        if ex.decide(ib >= 0):
            r = ex.fresh("ipow", I)
            ex.assume(z3.ToReal(r) == S.rpow(z3.ToReal(ia), ib))
            return r
        if ex.decide(ia == 0):
            raise PyRaise(ExcVal("ZeroDivisionError"))
        return float_of_real(world, ex, S.rpow(z3.ToReal(ia), ib))
    if opname == "<<":
        used("int.<<")
        if ex.decide(ib < 0):
            raise PyRaise(ExcVal("ValueError", ("negative shift count",)))
        if isinstance(a, int) and a == 1:
            return S.pow2(ib)
        return ia * S.pow2(ib)
    if opname == ">>":
        used("int.>>")
        if ex.decide(ib < 0):
            raise PyRaise(ExcVal("ValueError", ("negative shift count",)))
        return S.pydiv(ia, S.pow2(ib))
    if opname == "&":
        used("int.&")
        for x, y in ((ia, ib), (ib, ia)):
            w = _is_pow2_minus1(y)
            if w is not None:
                return S.pymod(x, S.pow2(w))          # x & (2**w - 1)
            i = _is_pow2(y)
            if i is not None:
                return z3.If(bit_set(x, i), S.pow2(i), z3.IntVal(0))   # x & (1 << i)
            i = _is_not_pow2(y)
            if i is not None:
                return z3.If(bit_set(x, i), x - S.pow2(i), x)          # x & ~(1 << i)
        return S.band(ia, ib)
    if opname == "|":
        used("int.|")
        for x, y in ((ia, ib), (ib, ia)):
            i = _is_pow2(y)
            if i is not None:
                return z3.If(bit_set(x, i), x, x + S.pow2(i))          # x | (1 << i)
        return S.bor(ia, ib)
    if opname == "^":
        used("int.^")
        return S.bxor(ia, ib)
    raise Unsupported("int binop " + opname)


def _real_pow(ex, ra, b):
    if b >= 0:
        if b > 8:
            raise Unsupported("large power")
        return z3.Product([ra] * b) if b > 0 else z3.RealVal(1)
    if ex.decide(ra == 0):
        raise PyRaise(ExcVal("ZeroDivisionError"))
    return 1 / _real_pow(ex, ra, -b)


def _repeat_str(world, ex, a, b):
    n = concretize_int(world, ex, b, 0, 16, "str-repeat-bound")
    if n <= 0:
        return ""
    sa = to_str(a)
    return z3.Concat([sa] * n) if n > 1 else sa


# ---- floats: sound enclosure (DESIGN 2.3) ---------------------------------
EPS = Fraction(1, 2 ** 53)
BIG = 2 ** 53


def float_of_real(world, ex, r):
    """float(x) for an exact rational/int x given as z3 Real"""
    used("float() enclosure")
    f = ex.fresh("flt", R)
    ex.assume(z3.Implies(z3.And(r <= BIG, r >= -BIG, z3.IsInt(r)), f == r))
    ex.assume(z3.Implies(r >= 0, z3.And(f >= r * (1 - z3.RealVal(str(EPS))), f <= r * (1 + z3.RealVal(str(EPS))))))
    ex.assume(z3.Implies(r <= 0, z3.And(f <= r * (1 - z3.RealVal(str(EPS))), f >= r * (1 + z3.RealVal(str(EPS))))))
    return FloatVal(sym=f)


def float_div(world, ex, ra, rb):
    used("float division enclosure")
    q = ra / rb
    f = ex.fresh("fdiv", R)
    e = z3.RealVal(str(EPS))
    ex.assume(z3.Implies(z3.And(z3.IsInt(q), q <= BIG, q >= -BIG), f == q))
    ex.assume(z3.Implies(q >= 0, z3.And(f >= q * (1 - e), f <= q * (1 + e))))
    ex.assume(z3.Implies(q <= 0, z3.And(f <= q * (1 - e), f >= q * (1 + e))))
    return FloatVal(sym=f)


def float_real(v):
    if isinstance(v, FloatVal):
        return z3.RealVal(str(v.r)) if v.r is not None else v.sym
    return to_real(v)


def float_binop(world, ex, opname, a, b):
    if isinstance(a, FloatVal) and isinstance(b, FloatVal) and a.r is not None and b.r is not None:
        x, y = float(a.r), float(b.r)
        try:
            r = {"+": x + y, "-": x - y, "*": x * y, "/": x / y}[opname]
        except ZeroDivisionError:
            raise PyRaise(ExcVal("ZeroDivisionError"))
        except KeyError:
            raise Unsupported("float op " + opname)
        return FloatVal.exact(Fraction(r))
    ra, rb = float_real(a), float_real(b)
    if not isinstance(b, FloatVal):
        rb = float_real(float_of_real(world, ex, rb))
    if not isinstance(a, FloatVal):
        ra = float_real(float_of_real(world, ex, ra))
    if opname == "/":
        if ex.decide(rb == 0):
            raise PyRaise(ExcVal("ZeroDivisionError"))
        return float_div(world, ex, ra, rb)
    raise Unsupported("float op " + opname)


# ---------------------------------------------------------------------------
# comparison
# ---------------------------------------------------------------------------
def _eq(world, ex, a, b):
    """Python == ; returns python bool or z3 Bool"""
    if a is None or b is None:
        if is_ty(a) or is_ty(b):
            t = a if is_ty(a) else b
            return t == S.NoneT
        return a is b
    if isinstance(a, PayloadView):
        a = resolve_payload(world, ex, a)
        return _eq(world, ex, a, b)
    if isinstance(b, PayloadView):
        b = resolve_payload(world, ex, b)
        return _eq(world, ex, a, b)
    if isinstance(a, BitStr) or isinstance(b, BitStr):
        if BitStr.of(a) is not None and BitStr.of(b) is not None:
            return bitstr_eq(a, b)
        if is_sym_str(a) or is_sym_str(b):
            a2 = a.z3str() if isinstance(a, BitStr) else to_str(a)
            b2 = b.z3str() if isinstance(b, BitStr) else to_str(b)
            return a2 == b2
        return False
    if isinstance(a, FuncVal) and isinstance(b, FuncVal):
        # bound methods compare equal when they are the same function of the same object
        return a.fi is b.fi and a.bound is b.bound
    if is_node(a) and is_node(b):
        return a == b
    if is_node(a) or is_node(b):
        return False
    if is_ty(a) and is_ty(b):
        return a == b
    if is_ty(a) or is_ty(b):
        return False
    if isinstance(a, FloatVal) or isinstance(b, FloatVal):
        if is_numeric(a) or is_numeric(b) or (isinstance(a, FloatVal) and isinstance(b, FloatVal)) \
                or is_boolish(a) or is_boolish(b):
            return float_real(a) == float_real(b)
        return False
    na, nb = is_numeric(a) or is_boolish(a), is_numeric(b) or is_boolish(b)
    if na and nb:
        if concrete(a) and concrete(b):
            return a == b
        if is_boolish(a) and is_boolish(b):
            return to_bool(a) == to_bool(b)
        if is_realish(a) or is_realish(b):
            return to_real(a) == to_real(b)
        return to_int(a) == to_int(b)
    if is_strish(a) and is_strish(b):
        if concrete(a) and concrete(b):
            return a == b
        return to_str(a) == to_str(b)
    if is_zset(a) and is_zset(b):
        return a == b
    if is_zset(a) or is_zset(b):
        z, o = (a, b) if is_zset(a) else (b, a)
        if isinstance(o, (SetVal, set, frozenset)):
            return z == set_to_z3(world, ex, o, z.sort().domain())
        return False
    if isinstance(a, SeqList) or isinstance(b, SeqList):
        if isinstance(a, SeqList) and isinstance(b, SeqList):
            return a.expr == b.expr
        sl, o = (a, b) if isinstance(a, SeqList) else (b, a)
        if isinstance(o, list):
            if not o:
                return z3.Length(sl.expr) == 0
            return sl.expr == (z3.Concat([z3.Unit(x) for x in o]) if len(o) > 1 else z3.Unit(o[0]))
        return False
    if isinstance(a, (tuple, list)) and isinstance(b, (tuple, list)):
        if type(a) != type(b):
            return False
        if len(a) != len(b):
            return False
        cs = [_eq(world, ex, x, y) for x, y in zip(a, b)]
        if all(isinstance(c, bool) for c in cs):
            return all(cs)
        return z3.And([to_bool(c) for c in cs])
    if isinstance(a, (ArgsView, QVars, ZSetTuple)) or isinstance(b, (ArgsView, QVars, ZSetTuple)):
        la, lb = iterate(world, ex, a), iterate(world, ex, b)
        return _eq(world, ex, tuple(la), tuple(lb))
    if isinstance(a, SetVal) or isinstance(b, SetVal):
        if isinstance(a, (SetVal, set, frozenset)) and isinstance(b, (SetVal, set, frozenset)):
            return set_to_z3(world, ex, a) == set_to_z3(world, ex, b)
        return False
    if isinstance(a, Obj) and isinstance(b, Obj):
        fi = world.repo.method(a.cls, "__eq__")
        if fi is not None:
            return ex.truth(world.call(ex, world.wrap_func(fi, fi.module, bound=a), [b], {}, None))
        return a is b
    if is_z3(a) and is_z3(b) and a.sort() == b.sort():
        return a == b
    if is_z3(a) or is_z3(b):
        return False
    try:
        return a == b
    except Exception:
        return a is b


def _not(c):
    return (not c) if isinstance(c, bool) else z3.Not(c)


def compare(world, ex, opname, a, b):
    if opname == "==":
        return _eq(world, ex, a, b)
    if opname == "!=":
        if isinstance(a, Obj) and isinstance(b, Obj):
            fi = world.repo.method(a.cls, "__ne__")
            if fi is not None:
                return ex.truth(world.call(ex, world.wrap_func(fi, fi.module, bound=a), [b], {}, None))
        return _not(_eq(world, ex, a, b))
    if opname in ("is", "is not"):
        if a is None or b is None or isinstance(a, bool) or isinstance(b, bool):
            if is_ty(a) or is_ty(b):
                r = _eq(world, ex, a, b)
            elif is_sym_bool(a) or is_sym_bool(b):
                r = _eq(world, ex, a, b) if (is_boolish(a) and is_boolish(b)) else False
            elif is_z3(a) or is_z3(b):
                r = False
            else:
                r = a is b
        elif is_node(a) and is_node(b):
            r = a == b
        elif is_ty(a) and is_ty(b):
            r = a == b
        elif is_z3(a) or is_z3(b):
            raise Unsupported("'is' on symbolic non-node values")
        else:
            r = a is b
        return r if opname == "is" else _not(r)
    if opname in ("in", "not in"):
        r = contains(world, ex, b, a)
        return r if opname == "in" else _not(r)
    # ordering
    if is_node(a) or is_node(b):
        dun = {"<": "lt", "<=": "le", ">": "gt", ">=": "ge"}[opname]
        rdun = {"<": "gt", "<=": "ge", ">": "lt", ">=": "le"}[opname]
        if is_node(a):
            return world.node_dunder(ex, a, "__%s__" % dun, [b])
        return world.node_dunder(ex, b, "__%s__" % rdun, [a])
    if isinstance(a, PayloadView):
        a = resolve_payload(world, ex, a)
    if isinstance(b, PayloadView):
        b = resolve_payload(world, ex, b)
    if isinstance(a, Obj):
        dun = {"<": "lt", "<=": "le", ">": "gt", ">=": "ge"}[opname]
        fi = world.repo.method(a.cls, "__%s__" % dun)
        if fi is not None:
            return ex.truth(world.call(ex, world.wrap_func(fi, fi.module, bound=a), [b], {}, None))
        raise PyRaise(ExcVal("TypeError", ("unorderable",)))
    if isinstance(a, FloatVal) or isinstance(b, FloatVal):
        x, y = float_real(a), float_real(b)
    elif (is_numeric(a) or is_boolish(a)) and (is_numeric(b) or is_boolish(b)):
        if concrete(a) and concrete(b):
            return {"<": a < b, "<=": a <= b, ">": a > b, ">=": a >= b}[opname]
        if is_realish(a) or is_realish(b):
            x, y = to_real(a), to_real(b)
        else:
            x, y = to_int(a), to_int(b)
    elif is_strish(a) and is_strish(b):
        if concrete(a) and concrete(b):
            return {"<": a < b, "<=": a <= b, ">": a > b, ">=": a >= b}[opname]
        raise Unsupported("symbolic string ordering")
    elif (isinstance(a, (SetVal, set, frozenset)) or is_zset(a)) and (isinstance(b, (SetVal, set, frozenset)) or is_zset(b)):
        za = set_to_z3(world, ex, a)
        zb = set_to_z3(world, ex, b, za.sort().domain())
        if opname == "<=":
            return z3.IsSubset(za, zb)
        if opname == ">=":
            return z3.IsSubset(zb, za)
        if opname == "<":
            return z3.And(z3.IsSubset(za, zb), za != zb)
        return z3.And(z3.IsSubset(zb, za), za != zb)
    elif a is None or b is None or is_ty(a) or is_ty(b):
        raise PyRaise(ExcVal("TypeError", ("unorderable",)))
    elif isinstance(a, (tuple, list)) and isinstance(b, (tuple, list)) and type(a) is type(b):
        # lexicographic order of sequences
        def z(c):
            return c if is_z3(c) else z3.BoolVal(bool(c))

        def lt(i):
            if i >= len(a) or i >= len(b):
                return z3.BoolVal(len(a) < len(b))
            return z3.Or(z(compare(world, ex, "<", a[i], b[i])), z3.And(z(_eq(world, ex, a[i], b[i])), lt(i + 1)))

        def eq_all():
            if len(a) != len(b):
                return z3.BoolVal(False)
            return z3.And([z(_eq(world, ex, x, y)) for x, y in zip(a, b)]) if a else z3.BoolVal(True)
        if opname == "<":
            return z3.simplify(lt(0))
        if opname == "<=":
            return z3.simplify(z3.Or(lt(0), eq_all()))
        if opname == ">":
            return z3.simplify(z3.Not(z3.Or(lt(0), eq_all())))
        return z3.simplify(z3.Not(lt(0)))
    else:
        raise Unsupported("ordering of %s and %s" % (pykind(world, a), pykind(world, b)))
    return {"<": x < y, "<=": x <= y, ">": x > y, ">=": x >= y}[opname]


def contains(world, ex, cont, x):
    if isinstance(cont, NodeMap):
        if not is_node(x):
            raise Unsupported("NodeMap key that is not a formula")
        return z3.IsMember(x, cont.dom)
    if isinstance(cont, PayloadView):
        cont = resolve_payload(world, ex, cont)
    if isinstance(cont, (set, frozenset, list, tuple)):
        if concrete(x) and all(concrete(c) for c in cont) and not isinstance(x, (Obj, BitStr)) \
                and not any(isinstance(c, BitStr) for c in cont):
            try:
                return x in cont
            except TypeError:
                pass
        cs = [_eq(world, ex, x, c) for c in cont]
        if any(c is True for c in cs):
            return True
        cs = [to_bool(c) for c in cs if c is not False]
        return z3.Or(cs) if cs else False
    if isinstance(cont, SetVal):
        cs = [_eq(world, ex, x, c) for c in cont.items]
        if any(c is True for c in cs):
            return True
        cs = [to_bool(c) for c in cs if c is not False]
        cs += [z3.IsMember(x, z) for z in cont.zextra if is_z3(x) and x.sort() == z.sort().domain()]
        return z3.Or(cs) if cs else False
    if isinstance(cont, DictVal):
        cs = [_eq(world, ex, x, k) for k, _ in cont.items]
        if any(c is True for c in cs):
            return True
        cs = [to_bool(c) for c in cs if c is not False]
        return z3.Or(cs) if cs else False
    if isinstance(cont, dict):
        if concrete(x):
            try:
                return x in cont
            except TypeError:
                pass
        cs = [to_bool(_eq(world, ex, x, k)) for k in cont]
        return z3.Or(cs) if cs else False
    if is_zset(cont):
        if is_z3(x) and x.sort() == cont.sort().domain():
            return z3.IsMember(x, cont)
        return False
    if isinstance(cont, (ArgsView, QVars)):
        if isinstance(cont, QVars) and is_node(x):
            return z3.IsMember(x, S.qvset(cont.n))
        return contains(world, ex, iterate(world, ex, cont), x)
    if isinstance(cont, ZSetTuple):
        return contains(world, ex, cont.zset, x)
    if is_strish(cont) and is_strish(x):
        if concrete(cont) and concrete(x):
            return x in cont
        used("str.in")
        return z3.Contains(to_str(cont), to_str(x))
    if isinstance(cont, Obj):
        fi = world.repo.method(cont.cls, "__contains__")
        if fi is not None:
            return ex.truth(world.call(ex, world.wrap_func(fi, fi.module, bound=cont), [x], {}, None))
    h = world.config.get("contains")
    if h is not None:
        r = h(ex, cont, x)
        if r is not NotImplemented:
            return r
    raise Unsupported("'in' on %s" % pykind(world, cont))


# ---------------------------------------------------------------------------
# containers
# ---------------------------------------------------------------------------
def length(world, ex, v):
    if isinstance(v, PayloadView):
        v = resolve_payload(world, ex, v)
    if isinstance(v, (list, tuple, dict, set, frozenset, str)):
        return len(v)
    if isinstance(v, BitStr):
        return len(v.chars)
    if isinstance(v, SeqList):
        return z3.Length(v.expr)
    if isinstance(v, PrefList):
        return v.prefix_len + len(v.items)
    if isinstance(v, SetVal) or isinstance(v, DictVal):
        return len(v.items)
    if isinstance(v, ArgsView):
        if v.lo == 0 and v.step == 1:
            return concretize_len(world, ex, v.n)
        return len(iterate(world, ex, v))
    if isinstance(v, QVars):
        return S.nqv(v.n)
    if isinstance(v, ZSetTuple) or is_zset(v):
        z = v.zset if isinstance(v, ZSetTuple) else v
        used("len(set) as cardinality function")
        card = z3.Function("card_" + str(z.sort().domain()), z.sort(), I)
        n = card(z)
        ex.assume(n >= 0)
        ex.assume((n == 0) == (z == z3.EmptySet(z.sort().domain())))
        return n
    if is_sym_str(v):
        return z3.Length(v)
    if isinstance(v, Obj):
        fi = world.repo.method(v.cls, "__len__")
        if fi is not None:
            return world.call(ex, world.wrap_func(fi, fi.module, bound=v), [], {}, None)
    h = world.config.get("length")
    if h is not None:
        r = h(ex, v)
        if r is not NotImplemented:
            return r
    raise Unsupported("len of %s" % pykind(world, v))


def iterate(world, ex, v):
    """-> python list of element values (concrete length; may fork)"""
    if isinstance(v, PayloadView):
        v = resolve_payload(world, ex, v)
    if isinstance(v, (list, tuple)):
        return list(v)
    if isinstance(v, (set, frozenset)):
        return sorted(v, key=repr)
    if isinstance(v, dict):
        return list(v.keys())
    if isinstance(v, SetVal):
        if v.zextra:
            if ex.ghost.get("enumerate_sets"):
                out = list(v.items)
                for z in v.zextra:
                    out += zset_elements(world, ex, z)
                return out
            return list(v.items) + [ZSetSplat(z) for z in v.zextra]
        return permuted(world, ex, v.items)
    if isinstance(v, DictVal):
        return [k for k, _ in v.items]
    if isinstance(v, ArgsView):
        full = args_list(world, ex, v)
        return full[v.lo::v.step]
    if isinstance(v, QVars):
        n = concretize_int(world, ex, S.nqv(v.n), 1, max(2, ex.max_arity - 1), "qvars-bound")
        items = [world.touch(ex, S.qv(v.n, S.K(i))) for i in range(n)]
        s = z3.EmptySet(Node)
        for x in items:
            s = z3.SetAdd(s, x)
        ex.assume(S.qvset(v.n) == s)
        ex.assume(S.qv_ok(v.n) == z3.And([S.op(x) == S.SYMBOL for x in items]))
        ex.ghost.setdefault("qvars_len", {})[v.n.get_id()] = n
        return items
    if isinstance(v, str):
        return list(v)
    if isinstance(v, BitStr):
        return [BitStr([c]) for c in v.chars]
    if isinstance(v, SeqList):
        n = concretize_int(world, ex, z3.Length(v.expr), 0, 4, "list-len-bound")
        return [v.expr[i] for i in range(n)]
    if isinstance(v, range):
        return list(v)
    if isinstance(v, Generator):
        return v.items(ex)
    if isinstance(v, GenObj):
        return ex.gen_items(v)
    if is_sym_str(v):
        n = concretize_int(world, ex, z3.Length(v), 0, 16, "str-len-bound")
        return [z3.SubString(v, i, 1) for i in range(n)]
    if is_zset(v):
        if ex.ghost.get("enumerate_sets"):
            return zset_elements(world, ex, v)      # per-element processing: bounded by ex.max_arity
        return [ZSetSplat(v)]
    if isinstance(v, ZSetTuple):
        return zset_elements(world, ex, v.zset)
    h = world.config.get("iterate")
    if h is not None:
        r = h(ex, v)
        if r is not NotImplemented:
            return r
    raise Unsupported("iteration over %s" % pykind(world, v))


def zset_elements(world, ex, z):
    """Elements of a symbolic z3 set in arbitrary order (forks on the size)."""
    dom = z.sort().domain()
    for n in range(0, ex.max_arity + 1):
        items = [ex.fresh("el", dom) for _ in range(n)]
        s = z3.EmptySet(dom)
        for x in items:
            s = z3.SetAdd(s, x)
        c = z == s
        if n > 1:
            c = z3.And(c, z3.Distinct(items))
        # does some choice of distinct elements make the set have exactly n elements?
        ex.solver.push()
        ex.solver.add(c)
        feas = ex.solver.check() != z3.unsat
        ex.solver.pop()
        if not feas:
            continue
        tag = ex.fresh("sz", B)
        ex.assume(tag == c)
        if ex.decide(tag):
            if dom == Node and ((z3.is_app(z) and z.decl().eq(S.fv)) or any(z.eq(y) for y in ex.ghost.get("symbol_sets", []))):
                for x in items:      # members of a free-symbol set are symbols (definition of fv)
                    world.touch(ex, x)
                    ex.assume(S.op(x) == S.SYMBOL)
                    world.learn(ex, x, op=S.SYMBOL, k=0)
            ex.ghost.setdefault("set_elements", []).extend(items)
            return items
    ex.notes.append("set-size-bound")
    raise PathAbort("set-size-bound")


def permuted(world, ex, items):
    """iteration order of a set: an arbitrary permutation of its elements"""
    n = len(items)
    if n <= 1:
        return list(items)
    if not all(is_z3(x) for x in items) or len({x.sort() for x in items}) != 1:
        return list(items)
    used("set iteration order = arbitrary permutation")
    srt = items[0].sort()
    ps = [ex.fresh("perm", srt) for _ in range(n)]
    for p in ps:
        ex.assume(z3.Or([p == x for x in items]))
    ex.assume(z3.Distinct(ps))
    for x in items:
        ex.assume(z3.Or([p == x for p in ps]))
    return ps


def norm_index(world, ex, i, n):
    """Python index normalisation; n concrete length"""
    if isinstance(i, int):
        if i < 0:
            i += n
        if not (0 <= i < n):
            raise PyRaise(ExcVal("IndexError"))
        return i
    c = concretize_int(world, ex, z3.If(i < 0, i + n, i), -1, n, "index-bound")
    if not (0 <= c < n):
        raise PyRaise(ExcVal("IndexError"))
    return c


def getitem(world, ex, o, k):
    if isinstance(o, PayloadView):
        o = resolve_payload(world, ex, o)
    if isinstance(o, NodeMap):
        if not is_node(k):
            raise Unsupported("NodeMap key that is not a formula")
        if ex.decide(z3.IsMember(k, o.dom)):
            return world.touch(ex, z3.Select(o.arr, k))
        raise PyRaise(ExcVal("KeyError", (k,)))
    if isinstance(o, (list, tuple)):
        if isinstance(k, slice):
            if all(x is None or isinstance(x, int) for x in (k.start, k.stop, k.step)):
                return o[k]
            raise Unsupported("symbolic slice of a list")
        return o[norm_index(world, ex, k, len(o))]
    if isinstance(o, ArgsView):
        if isinstance(k, slice):
            if all(x is None or isinstance(x, int) for x in (k.start, k.stop, k.step)):
                if (k.stop is None) and (k.start is None or k.start >= 0) and (k.step is None or k.step > 0) \
                        and o.lo == 0 and o.step == 1:
                    return ArgsView(o.n, k.start or 0, k.step or 1)
                return tuple(iterate(world, ex, o))[k]
            raise Unsupported("symbolic slice of args")
        if o.lo == 0 and o.step == 1:
            if isinstance(k, int) and k >= 0:
                if not ex.decide(z3.IntVal(k) < S.nargs(o.n)):
                    raise PyRaise(ExcVal("IndexError"))
                return world.touch(ex, S.arg(o.n, S.K(k)))
            if isinstance(k, int) and k < 0:
                kk = concretize_len(world, ex, o.n)
                if kk + k < 0:
                    raise PyRaise(ExcVal("IndexError"))
                return world.touch(ex, S.arg(o.n, S.K(kk + k)))
            if is_sym_int(k):
                if not ex.decide(z3.And(k >= 0, k < S.nargs(o.n))):
                    raise Unsupported("symbolic child index out of range / negative")
                return S.arg(o.n, k)
        lst = iterate(world, ex, o)
        return lst[norm_index(world, ex, k, len(lst))]
    if isinstance(o, QVars):
        lst = iterate(world, ex, o)
        if isinstance(k, slice):
            return tuple(lst)[k]
        return lst[norm_index(world, ex, k, len(lst))]
    if isinstance(o, dict):
        if concrete(k):
            try:
                return o[k]
            except KeyError:
                raise PyRaise(ExcVal("KeyError", (k,)))
            except TypeError:
                pass
        for kk, vv in o.items():
            if ex.decide(_eq(world, ex, k, kk)):
                return vv
        raise PyRaise(ExcVal("KeyError", (k,)))
    if isinstance(o, DictVal):
        for kk, vv in o.items:
            if ex.decide(_eq(world, ex, k, kk)):
                return vv
        raise PyRaise(ExcVal("KeyError", (k,)))
    if isinstance(o, PrefList):
        if isinstance(k, int) and k < 0:
            if -k <= len(o.items):
                return o.items[k]
            if is_z3(o.prefix_len) or o.prefix_len > 0:
                ex.notes.append("prefix-depth-bound")
                raise PathAbort("prefix-depth-bound")
            raise PyRaise(ExcVal("IndexError"))
        if isinstance(k, slice) and isinstance(k.start, int) and k.start < 0 and k.stop is None and k.step is None \
                and -k.start <= len(o.items):
            return list(o.items[k.start:])
        if isinstance(k, slice) and k.start in (0, None) and k.stop is None and k.step is None:
            # l[0:] / l[:] (also what l[-0:] means): a copy of the whole list, the untouched older part included
            return PrefList(o.prefix_len, list(o.items), o.tag)
        if isinstance(k, int) and k >= 0 and not is_z3(o.prefix_len) and o.prefix_len == 0:
            if k < len(o.items):
                return o.items[k]
            raise PyRaise(ExcVal("IndexError"))
        if isinstance(k, int) and k >= 0:
            # an element of the untouched older part: an arbitrary value
            return ex.fresh("older_item", o.items[0].sort() if o.items else I)
        raise Unsupported("subscript %r of a prefix list" % (k,))
    if isinstance(o, SeqList):
        n = z3.Length(o.expr)
        if isinstance(k, slice):
            if k.step is not None and k.step != 1:
                raise Unsupported("stepped slice of a symbolic list")
            lo = to_int(k.start) if k.start is not None else z3.IntVal(0)
            hi = to_int(k.stop) if k.stop is not None else n
            lo = z3.If(lo < 0, z3.If(lo + n < 0, z3.IntVal(0), lo + n), z3.If(lo > n, n, lo))
            hi = z3.If(hi < 0, z3.If(hi + n < 0, z3.IntVal(0), hi + n), z3.If(hi > n, n, hi))
            return SeqList(z3.Extract(o.expr, lo, z3.If(hi > lo, hi - lo, z3.IntVal(0))))
        i = to_int(k)
        j = z3.If(i < 0, i + n, i)
        if not ex.decide(z3.And(j >= 0, j < n)):
            raise PyRaise(ExcVal("IndexError"))
        return o.expr[j]
    if isinstance(o, BitStr):
        if isinstance(k, slice):
            if not all(x is None or isinstance(x, int) for x in (k.start, k.stop, k.step)):
                lo = None if k.start is None else concretize_int(world, ex, k.start, -70, 70, "slice-bound")
                hi = None if k.stop is None else concretize_int(world, ex, k.stop, -70, 70, "slice-bound")
                st = None if k.step is None else concretize_int(world, ex, k.step, -2, 2, "slice-bound")
                k = slice(lo, hi, st)
            return BitStr(o.chars[k])
        i = norm_index(world, ex, k, len(o.chars))
        return BitStr([o.chars[i]])
    if is_strish(o):
        return str_getitem(world, ex, o, k)
    if isinstance(o, Obj):
        fi = world.repo.method(o.cls, "__getitem__")
        if fi is not None:
            return world.call(ex, world.wrap_func(fi, fi.module, bound=o), [k], {}, None)
    if is_node(o):
        return world.node_dunder(ex, o, "__getitem__", [k])
    h = world.config.get("getitem")
    if h is not None:
        r = h(ex, o, k)
        if r is not NotImplemented:
            return r
    raise Unsupported("subscript of %s" % pykind(world, o))


def setitem(world, ex, o, k, v):
    if isinstance(o, NodeMap):
        if not (is_node(k) and is_node(v)):
            raise Unsupported("NodeMap item that is not a formula")
        o.arr, o.dom = z3.Store(o.arr, k, v), z3.SetAdd(o.dom, k)
        return
    if isinstance(o, list):
        o[norm_index(world, ex, k, len(o))] = v
        return
    if isinstance(o, dict):
        if concrete(k) and all(concrete(x) for x in o):
            o[k] = v
            return
        raise Unsupported("symbolic key into concrete dict")
    if isinstance(o, DictVal):
        for kv in o.items:
            if ex.decide(_eq(world, ex, k, kv[0])):
                kv[1] = v
                return
        o.items.append([k, v])
        return
    h = world.config.get("setitem")
    if h is not None:
        r = h(ex, o, k, v)
        if r is not NotImplemented:
            return
    raise Unsupported("item assignment on %s" % pykind(world, o))


def delitem(world, ex, o, k):
    if isinstance(o, PrefList):
        if isinstance(k, slice) and k.stop is None and k.step is None and isinstance(k.start, int):
            if k.start < 0 and -k.start <= len(o.items):
                del o.items[k.start:]
                return
            if k.start == 0:
                # del l[0:] empties the list, prefix included
                o.items[:] = []
                o.prefix_len = 0
                return
        raise Unsupported("del on a prefix list")
    if isinstance(o, DictVal):
        for i, kv in enumerate(o.items):
            if ex.decide(_eq(world, ex, k, kv[0])):
                del o.items[i]
                return
        raise PyRaise(ExcVal("KeyError"))
    if isinstance(o, dict):
        if k in o:
            del o[k]
            return
        raise PyRaise(ExcVal("KeyError"))
    if isinstance(o, list):
        if isinstance(k, slice):
            if all(x is None or isinstance(x, int) for x in (k.start, k.stop, k.step)):
                del o[k]
                return
            raise Unsupported("del with a symbolic slice")
        del o[norm_index(world, ex, k, len(o))]
        return
    raise Unsupported("del item")


def make_dict(world, ex, items):
    d = DictVal()
    for k, v in items:
        setitem(world, ex, d, k, v)
    return d


def make_set(world, ex, items, frozen=False):
    items = list(items)
    if any(isinstance(x, ZSetSplat) for x in items):
        z = None
        rest = [x for x in items if not isinstance(x, ZSetSplat)]
        for x in items:
            if isinstance(x, ZSetSplat):
                z = x.zset if z is None else z3.SetUnion(z, x.zset)
        for x in rest:
            z = z3.SetAdd(z, x if is_z3(x) else z3const(x))
        return z
    if all(concrete(x) and isinstance(x, (int, str, bool, type(None), tuple, Fraction)) for x in items):
        return frozenset(items) if frozen else set(items)
    s = SetVal(frozen=frozen)
    for x in items:
        set_add(world, ex, s, x)
    return s


def set_add(world, ex, s, x):
    if isinstance(x, ZSetSplat):
        raise Unsupported("adding a whole symbolic set as one element")
    if isinstance(s, set):
        if concrete(x):
            s.add(x)
            return
        raise Unsupported("symbolic element into concrete set")
    c = contains(world, ex, s, x)
    if ex.decide(c):
        return
    s.items.append(x)


def set_to_z3(world, ex, s, dom=None):
    if is_zset(s):
        return s
    if isinstance(s, ZSetTuple):
        return s.zset
    items = list(s.items) if isinstance(s, SetVal) else list(s)
    extra = list(s.zextra) if isinstance(s, SetVal) else []
    if extra:
        z = extra[0]
        for e in extra[1:]:
            z = z3.SetUnion(z, e)
        for x in items:
            z = z3.SetAdd(z, x)
        return z
    if isinstance(s, (ArgsView, QVars)):
        if isinstance(s, QVars):
            return S.qvset(s.n)
        items = iterate(world, ex, s)
    if dom is None:
        if not items:
            dom = Node
        else:
            x = items[0]
            dom = x.sort() if is_z3(x) else (I if isinstance(x, int) else S.S)
    z = z3.EmptySet(dom)
    for x in items:
        z = z3.SetAdd(z, x if is_z3(x) else z3const(x))
    return z


def set_op(world, ex, name, a, b):
    if isinstance(a, (set, frozenset)) and isinstance(b, (set, frozenset)):
        return getattr(a, name)(b)
    if (isinstance(a, SetVal) or isinstance(a, (set, frozenset))) and \
            (isinstance(b, (SetVal, set, frozenset, list, tuple))):
        ai = list(a.items) if isinstance(a, SetVal) else sorted(a, key=repr)
        bi = list(b.items) if isinstance(b, SetVal) else list(b)
        frozen = getattr(a, "frozen", isinstance(a, frozenset))
        if name == "union":
            r = SetVal(ai, frozen)
            for x in bi:
                set_add(world, ex, r, x)
            return r
        bs = SetVal(frozen=True)
        for x in bi:
            set_add(world, ex, bs, x)
        r = SetVal(frozen=frozen)
        for x in ai:
            inb = ex.decide(contains(world, ex, bs, x))
            if (name == "intersection" and inb) or (name == "difference" and not inb):
                r.items.append(x)
        return r
    za = set_to_z3(world, ex, a)
    zb = set_to_z3(world, ex, b, za.sort().domain())
    used("set algebra on z3 sets")
    if name == "union":
        return z3.SetUnion(za, zb)
    if name == "intersection":
        return z3.SetIntersect(za, zb)
    if name == "difference":
        return z3.SetDifference(za, zb)
    raise Unsupported(name)


# ---------------------------------------------------------------------------
# strings
# ---------------------------------------------------------------------------
def str_getitem(world, ex, s, k):
    used("str subscripts")
    if concrete(s) and (isinstance(k, int) or (isinstance(k, slice) and all(
            x is None or isinstance(x, int) for x in (k.start, k.stop, k.step)))):
        try:
            return s[k]
        except IndexError:
            raise PyRaise(ExcVal("IndexError"))
    zs = to_str(s)
    n = z3.Length(zs)
    if isinstance(k, slice):
        if k.step is not None and k.step != 1:
            if k.step == -1 and k.start is None and k.stop is None:
                return str_reverse(world, ex, zs)
            raise Unsupported("string slice step")
        lo = k.start if k.start is not None else 0
        hi = k.stop if k.stop is not None else n
        lo, hi = to_int(lo), to_int(hi)
        lo = z3.If(lo < 0, z3.If(lo + n < 0, z3.IntVal(0), lo + n), z3.If(lo > n, n, lo))
        hi = z3.If(hi < 0, z3.If(hi + n < 0, z3.IntVal(0), hi + n), z3.If(hi > n, n, hi))
        return z3.SubString(zs, lo, z3.If(hi > lo, hi - lo, z3.IntVal(0)))
    i = to_int(k)
    j = z3.If(i < 0, i + n, i)
    if not ex.decide(z3.And(j >= 0, j < n)):
        raise PyRaise(ExcVal("IndexError"))
    return z3.SubString(zs, j, 1)


def str_reverse(world, ex, zs):
    n = concretize_int(world, ex, z3.Length(zs), 0, 16, "str-len-bound")
    if n == 0:
        return ""
    parts = [z3.SubString(zs, i, 1) for i in reversed(range(n))]
    return z3.Concat(parts) if n > 1 else parts[0]


def to_str_value(world, ex, v):
    """str(v)"""
    if isinstance(v, PayloadView):
        v = resolve_payload(world, ex, v)
    if isinstance(v, str) or is_sym_str(v) or isinstance(v, BitStr):
        return v
    if isinstance(v, bool):
        return str(v)
    if isinstance(v, int):
        return str(v)
    if is_sym_int(v):
        h = world.config.get("str_int")
        if h is not None:
            return h(ex, v)          # printers: the decimal spelling as an opaque, tracked piece of text
        used("str(int)")
        return z3.If(v >= 0, z3.IntToStr(v), z3.Concat(z3.StringVal("-"), z3.IntToStr(-v)))
    if is_sym_bool(v):
        return z3.If(v, z3.StringVal("True"), z3.StringVal("False"))
    if v is None:
        return "None"
    if isinstance(v, Fraction):
        return str(v)
    h = world.config.get("str")
    if h is not None:
        r = h(ex, v)
        if r is not NotImplemented:
            return r
    if isinstance(v, Obj):
        fi = world.repo.method(v.cls, "__str__")
        if fi is not None:
            return world.call(ex, world.wrap_func(fi, fi.module, bound=v), [], {}, None)
    return Opaque("str()")


def str_concat(world, ex, parts):
    if any(isinstance(p, Opaque) for p in parts):
        return Opaque("str")
    if all(isinstance(p, str) for p in parts):
        return "".join(parts)
    if all(isinstance(p, (str, BitStr)) for p in parts):
        out = []
        for p in parts:
            out.extend(BitStr.of(p).chars)
        return BitStr(out)
    parts = [p.z3str() if isinstance(p, BitStr) else p for p in parts]
    ps = [to_str(p) for p in parts if not (isinstance(p, str) and p == "")]
    if not ps:
        return ""
    return z3.Concat(ps) if len(ps) > 1 else ps[0]


def str_format(world, ex, fmt, args):
    """fmt % args"""
    if isinstance(fmt, Opaque):
        return fmt
    if not isinstance(fmt, str):
        return Opaque("format")
    if isinstance(args, PayloadView):
        args = resolve_payload(world, ex, args)
    if not isinstance(args, tuple):
        args = (args,)
    out, i, ai = [], 0, 0
    while i < len(fmt):
        c = fmt[i]
        if c != "%":
            out.append(c)
            i += 1
            continue
        if i + 1 >= len(fmt):
            return Opaque("format")
        d = fmt[i + 1]
        if d == "%":
            out.append("%")
            i += 2
            continue
        if d not in "sd":
            return Opaque("format")
        if ai >= len(args):
            raise PyRaise(ExcVal("TypeError", ("not enough arguments for format string",)))
        a = args[ai]
        ai += 1
        if d == "d":
            if isinstance(a, FloatVal):
                return Opaque("format-float")
            if not (is_intish(a) or is_boolish(a)):
                if is_realish(a):
                    return Opaque("format")
                raise PyRaise(ExcVal("TypeError", ("%d format: a real number is required",)))
            sv = to_str_value(world, ex, to_int(a) if not isinstance(a, int) else int(a))
        else:
            sv = to_str_value(world, ex, a)
        out.append(sv)
        i += 2
    if ai != len(args):
        raise PyRaise(ExcVal("TypeError", ("not all arguments converted during string formatting",)))
    return str_concat(world, ex, out)


# ---------------------------------------------------------------------------
# generators produced by modelled builtins (zip, enumerate, map ...)
# ---------------------------------------------------------------------------
class Generator:
    def __init__(self, thunk):
        self.thunk = thunk
        self.cache = None

    def items(self, ex):
        if self.cache is None:
            self.cache = self.thunk()
        return self.cache


# ---------------------------------------------------------------------------
def install(world):
    from . import builtins_table
    builtins_table.install(world)
