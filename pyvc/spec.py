"""Specification theory (DESIGN 3): typing rules and per-operator meaning from
SMT-LIB 2.6, written independently of pySMT's code, over the vocabulary of
sorts.py.  `unfold` produces, for a node term whose operator (and arity) is
known on the current path, the facts that hold for every node that exists in a
FormulaManager (node invariant: built by a constructor, accepted by the type
checker) together with the definition of type_of / val / fv at that node."""
import z3

from . import sorts as _sorts
from .sorts import *  # noqa
from .sorts import JOURNAL


# --------------------------------------------------------------------------
# helpers on types / values
# --------------------------------------------------------------------------
def is_bv(t):
    return Ty.is_BVT(t)


def valid_type(t, depth=2):
    """Sort well-formedness: BV widths are positive (SMT-LIB)."""
    c = z3.Implies(Ty.is_BVT(t), Ty.bvw(t) >= 1)
    c = z3.And(c, t != NoneT)
    if depth > 0:
        c = z3.And(c, z3.Implies(Ty.is_ArrT(t),
                                 z3.And(valid_type(Ty.aidx(t), depth - 1), valid_type(Ty.aelem(t), depth - 1),
                                        z3.Not(Ty.is_FunT(Ty.aidx(t))), z3.Not(Ty.is_FunT(Ty.aelem(t))),
                                        # arrays indexed by arrays are outside the covered fragment (stated
                                        # assumption): array-valued constants are not canonical
                                        z3.Not(Ty.is_ArrT(Ty.aidx(t))))))
    return c


def in_domain(v, t):
    """value v belongs to the carrier of type t"""
    return z3.And(
        z3.Implies(t == BoolT, Val.is_VBool(v)),
        z3.Implies(t == IntT, Val.is_VInt(v)),
        z3.Implies(t == RealT, Val.is_VReal(v)),
        z3.Implies(t == StrT, Val.is_VStr(v)),
        z3.Implies(Ty.is_BVT(t), z3.And(Val.is_VBV(v), vbv(v) >= 0, vbv(v) < pow2.quiet(Ty.bvw(t)))),
        z3.Implies(Ty.is_ArrT(t), z3.And(Val.is_VArr(v), amk.f(aview(va(v))) == va(v))),
        z3.Implies(Ty.is_CustomT(t), Val.is_VU(v)),
    )


def signed(a, w):
    return z3.If(a < pow2(w - 1), a, a - pow2(w))


def bvneg(a, w):
    return z3.If(a == 0, K(0), pow2(w) - a)


def bvudiv(a, b, w):
    return z3.If(b == 0, pow2(w) - 1, a / b)


def bvurem(a, b, w):
    return z3.If(b == 0, a, a % b)


def wrap(x, w):
    """x mod 2^w for x in [-2^w, 2*2^w)"""
    return z3.If(x < 0, x + pow2(w), z3.If(x >= pow2(w), x - pow2(w), x))


# SMT-LIB integer division / modulo (divisor != 0)
def smt_div(l, r):
    return l / r        # z3's div IS the SMT-LIB one


def smt_mod(l, r):
    return l % r


def sem_bv(Kop, w, a, b, n):
    """unsigned-integer meaning of the BV operators; a, b operand values (b may
    be None), w result width, n the node (for payload)."""
    P = pow2(w)
    if Kop == BV_NOT:
        return P - 1 - a
    if Kop == BV_AND:
        return band(a, b)
    if Kop == BV_OR:
        return bor(a, b)
    if Kop == BV_XOR:
        return bxor(a, b)
    if Kop == BV_NEG:
        return bvneg(a, w)
    if Kop == BV_ADD:
        return wrap(a + b, w)
    if Kop == BV_SUB:
        return wrap(a - b, w)
    if Kop == BV_MUL:
        return (a * b) % P
    if Kop == BV_UDIV:
        return bvudiv(a, b, w)
    if Kop == BV_UREM:
        return bvurem(a, b, w)
    if Kop == BV_LSHL:
        return z3.If(b >= w, K(0), (a * pow2(b)) % P)
    if Kop == BV_LSHR:
        return z3.If(b >= w, K(0), a / pow2(b))
    if Kop == BV_ASHR:
        neg = a >= pow2(w - 1)
        return z3.If(z3.Not(neg), z3.If(b >= w, K(0), a / pow2(b)),
                     z3.If(b >= w, P - 1, a / pow2(b) + (P - pow2(w - b))))
    if Kop == BV_SDIV:
        sa, sb = a >= pow2(w - 1), b >= pow2(w - 1)
        na, nb = bvneg(a, w), bvneg(b, w)
        return z3.If(z3.And(z3.Not(sa), z3.Not(sb)), bvudiv(a, b, w),
                     z3.If(z3.And(sa, z3.Not(sb)), bvneg(bvudiv(na, b, w), w),
                           z3.If(z3.And(z3.Not(sa), sb), bvneg(bvudiv(a, nb, w), w),
                                 bvudiv(na, nb, w))))
    if Kop == BV_SREM:
        sa, sb = a >= pow2(w - 1), b >= pow2(w - 1)
        na, nb = bvneg(a, w), bvneg(b, w)
        return z3.If(z3.And(z3.Not(sa), z3.Not(sb)), bvurem(a, b, w),
                     z3.If(z3.And(sa, z3.Not(sb)), bvneg(bvurem(na, b, w), w),
                           z3.If(z3.And(z3.Not(sa), sb), bvurem(a, nb, w),
                                 bvneg(bvurem(na, nb, w), w))))
    raise KeyError(Kop)


pow_frac = z3.Function("pow_frac", R, R, R)


def sem_int_div(l, r):
    return z3.If(r == 0, int_div0(l), smt_div(l, r))


def sem_real_div(l, r):
    return z3.If(r == 0, real_div0(l), l / r)


# --------------------------------------------------------------------------
# typing rule table: type_rule(K, n, argtypes) -> (defined, type)
#   n gives access to the payload projections; argtypes: list of Ty terms
# --------------------------------------------------------------------------
def type_rule(Kop, n, at):
    T = z3.BoolVal(True)
    k = len(at)
    allt = lambda ty: z3.And([a == ty for a in at]) if at else T
    if Kop in (AND, OR):
        return z3.And(K(k) >= 2, allt(BoolT)), BoolT
    if Kop == NOT:
        return z3.And(k == 1, allt(BoolT)), BoolT
    if Kop in (IMPLIES, IFF):
        return z3.And(k == 2, allt(BoolT)), BoolT
    if Kop in (FORALL, EXISTS):
        return z3.And(k == 1, allt(BoolT), qv_ok(n), nqv(n) >= 1), BoolT
    if Kop == BOOL_CONSTANT:
        return z3.BoolVal(k == 0), BoolT
    if Kop == INT_CONSTANT:
        return z3.BoolVal(k == 0), IntT
    if Kop in (REAL_CONSTANT, ALGEBRAIC_CONSTANT):
        return z3.BoolVal(k == 0), RealT
    if Kop == STR_CONSTANT:
        return z3.BoolVal(k == 0), StrT
    if Kop == BV_CONSTANT:
        return z3.And(z3.BoolVal(k == 0), pl_w(n) >= 1, pl_int(n) >= 0, pl_int(n) < pow2(pl_w(n))), BVT(pl_w(n))
    if Kop == SYMBOL:
        return z3.And(z3.BoolVal(k == 0), valid_type(pl_ty(n))), pl_ty(n)
    if Kop == FUNCTION:
        f = pl_node(n)
        fidx = Ty.fid(pl_ty(f))
        ok = z3.And(op(f) == SYMBOL, Ty.is_FunT(pl_ty(f)), fun_arity(fidx) == k,
                    *[at[i] == fun_param(fidx, K(i)) for i in range(k)])
        return ok, fun_ret(fidx)
    if Kop in (PLUS, TIMES):
        return z3.And(z3.BoolVal(k >= 2), z3.Or(allt(IntT), allt(RealT))), at[0] if at else IntT
    if Kop in (MINUS, DIV):
        return z3.And(z3.BoolVal(k == 2), z3.Or(allt(IntT), allt(RealT))), at[0] if at else IntT
    if Kop == POW:
        # pySMT's own operator (not in SMT-LIB): base and exponent of the same
        # arithmetic sort, constant exponent, result of sort Real
        return z3.And(z3.BoolVal(k == 2), z3.Or(allt(IntT), allt(RealT))), RealT
    if Kop in (LE, LT):
        return z3.And(z3.BoolVal(k == 2), z3.Or(allt(IntT), allt(RealT))), BoolT
    if Kop == EQUALS:
        ok = z3.BoolVal(k == 2)
        if k == 2:
            ok = z3.And(at[0] == at[1], at[0] != BoolT, at[0] != NoneT, z3.Not(Ty.is_FunT(at[0])))
        return ok, BoolT
    if Kop == ITE:
        ok = z3.BoolVal(k == 3)
        if k == 3:
            ok = z3.And(at[0] == BoolT, at[1] == at[2], at[1] != NoneT)
        return ok, at[1] if k == 3 else BoolT
    if Kop == TOREAL:
        return z3.And(z3.BoolVal(k == 1), allt(IntT)), RealT
    if Kop in (BV_NOT, BV_NEG):
        w = pl_w(n)
        return z3.And(z3.BoolVal(k == 1), w >= 1, allt(BVT(w))), BVT(w)
    if Kop in (BV_AND, BV_OR, BV_XOR, BV_ADD, BV_SUB, BV_MUL, BV_UDIV, BV_UREM, BV_LSHL,
               BV_LSHR, BV_SDIV, BV_SREM, BV_ASHR):
        w = pl_w(n)
        return z3.And(z3.BoolVal(k == 2), w >= 1, allt(BVT(w))), BVT(w)
    if Kop in (BV_ULT, BV_ULE, BV_SLT, BV_SLE):
        ok = z3.BoolVal(k == 2)
        if k == 2:
            ok = z3.And(Ty.is_BVT(at[0]), at[0] == at[1], Ty.bvw(at[0]) >= 1)
        return ok, BoolT
    if Kop == BV_COMP:
        ok = z3.BoolVal(k == 2)
        if k == 2:
            ok = z3.And(Ty.is_BVT(at[0]), at[0] == at[1], Ty.bvw(at[0]) >= 1)
        return ok, BVT(K(1))
    if Kop == BV_CONCAT:
        ok = z3.BoolVal(k == 2)
        if k == 2:
            ok = z3.And(Ty.is_BVT(at[0]), Ty.is_BVT(at[1]), Ty.bvw(at[0]) >= 1, Ty.bvw(at[1]) >= 1,
                        pl_w(n) == Ty.bvw(at[0]) + Ty.bvw(at[1]))
        return ok, BVT(pl_w(n))
    if Kop == BV_EXTRACT:
        ok = z3.BoolVal(k == 1)
        if k == 1:
            ok = z3.And(Ty.is_BVT(at[0]), pl_i1(n) >= 0, pl_i1(n) <= pl_i2(n), pl_i2(n) < Ty.bvw(at[0]),
                        pl_w(n) == pl_i2(n) - pl_i1(n) + 1)
        return ok, BVT(pl_w(n))
    if Kop in (BV_ROL, BV_ROR):
        ok = z3.BoolVal(k == 1)
        if k == 1:
            ok = z3.And(Ty.is_BVT(at[0]), pl_w(n) == Ty.bvw(at[0]), pl_w(n) >= 1, pl_i1(n) >= 0, pl_i1(n) <= pl_w(n))
        return ok, BVT(pl_w(n))
    if Kop in (BV_ZEXT, BV_SEXT):
        ok = z3.BoolVal(k == 1)
        if k == 1:
            ok = z3.And(Ty.is_BVT(at[0]), Ty.bvw(at[0]) >= 1, pl_i1(n) >= 0, pl_w(n) == Ty.bvw(at[0]) + pl_i1(n))
        return ok, BVT(pl_w(n))
    if Kop == BV_TONATURAL:
        return z3.And(z3.BoolVal(k == 1), *[Ty.is_BVT(a) for a in at]), IntT
    if Kop in (STR_LENGTH, STR_TO_INT):
        return z3.And(z3.BoolVal(k == 1), allt(StrT)), IntT
    if Kop == STR_CONCAT:
        return z3.And(z3.BoolVal(k >= 2), allt(StrT)), StrT
    if Kop in (STR_CONTAINS, STR_PREFIXOF, STR_SUFFIXOF):
        return z3.And(z3.BoolVal(k == 2), allt(StrT)), BoolT
    if Kop == STR_REPLACE:
        return z3.And(z3.BoolVal(k == 3), allt(StrT)), StrT
    if Kop == INT_TO_STR:
        return z3.And(z3.BoolVal(k == 1), allt(IntT)), StrT
    if Kop == STR_CHARAT:
        ok = z3.BoolVal(k == 2)
        if k == 2:
            ok = z3.And(at[0] == StrT, at[1] == IntT)
        return ok, StrT
    if Kop == STR_INDEXOF:
        ok = z3.BoolVal(k == 3)
        if k == 3:
            ok = z3.And(at[0] == StrT, at[1] == StrT, at[2] == IntT)
        return ok, IntT
    if Kop == STR_SUBSTR:
        ok = z3.BoolVal(k == 3)
        if k == 3:
            ok = z3.And(at[0] == StrT, at[1] == IntT, at[2] == IntT)
        return ok, StrT
    if Kop == ARRAY_SELECT:
        ok = z3.BoolVal(k == 2)
        if k == 2:
            ok = z3.And(Ty.is_ArrT(at[0]), Ty.aidx(at[0]) == at[1])
        return ok, Ty.aelem(at[0]) if k == 2 else BoolT
    if Kop == ARRAY_STORE:
        ok = z3.BoolVal(k == 3)
        if k == 3:
            ok = z3.And(Ty.is_ArrT(at[0]), Ty.aidx(at[0]) == at[1], Ty.aelem(at[0]) == at[2])
        return ok, at[0] if k == 3 else BoolT
    if Kop == ARRAY_VALUE:
        ok = z3.BoolVal(k >= 1 and k % 2 == 1)
        if k >= 1 and k % 2 == 1:
            cs = [at[0] != NoneT, valid_type(pl_ty(n)), z3.Not(Ty.is_FunT(at[0]))]
            for i in range(1, k):
                cs.append(at[i] == (pl_ty(n) if i % 2 == 1 else at[0]))
            ok = z3.And(cs)
        return ok, ArrT(pl_ty(n), at[0]) if k >= 1 else BoolT
    raise KeyError(Kop)


# --------------------------------------------------------------------------
# meaning: sem(K, n, argvals, argtypes) -> Val term  (None: not given here)
# --------------------------------------------------------------------------
def sem(Kop, n, av, at):
    k = len(av)
    bools = lambda: [vb(a) for a in av]
    if Kop == AND:
        return VBool(z3.And(bools()))
    if Kop == OR:
        return VBool(z3.Or(bools()))
    if Kop == NOT:
        return VBool(z3.Not(vb(av[0])))
    if Kop == IMPLIES:
        return VBool(z3.Implies(vb(av[0]), vb(av[1])))
    if Kop == IFF:
        return VBool(vb(av[0]) == vb(av[1]))
    if Kop == BOOL_CONSTANT:
        return VBool(pl_bool(n))
    if Kop == INT_CONSTANT:
        return VInt(pl_int(n))
    if Kop == REAL_CONSTANT:
        return VReal(pl_real(n))
    if Kop == STR_CONSTANT:
        return VStr(pl_str(n))
    if Kop == BV_CONSTANT:
        return VBV(pl_int(n))
    if Kop == EQUALS:
        return VBool(av[0] == av[1])
    if Kop == ITE:
        return z3.If(vb(av[0]), av[1], av[2])
    if Kop == TOREAL:
        return VReal(z3.ToReal(vi(av[0])))
    if Kop == POW:
        isint = at[0] == IntT
        # meaning given for integer exponents only (others: unconstrained)
        return VReal(z3.If(isint, rpow(z3.ToReal(vi(av[0])), vi(av[1])),
                           z3.If(z3.IsInt(vr(av[1])), rpow(vr(av[0]), z3.ToInt(vr(av[1]))),
                                 pow_frac(vr(av[0]), vr(av[1])))))
    if Kop in (PLUS, TIMES, MINUS, DIV, LE, LT):
        isint = at[0] == IntT
        ii = [vi(a) for a in av]
        rr = [vr(a) for a in av]
        if Kop == PLUS:
            return z3.If(isint, VInt(z3.Sum(ii)), VReal(z3.Sum(rr)))
        if Kop == TIMES:
            return z3.If(isint, VInt(z3.Product(ii)), VReal(z3.Product(rr)))
        if Kop == MINUS:
            return z3.If(isint, VInt(ii[0] - ii[1]), VReal(rr[0] - rr[1]))
        if Kop == DIV:
            return z3.If(isint, VInt(sem_int_div(ii[0], ii[1])), VReal(sem_real_div(rr[0], rr[1])))
        if Kop == LE:
            return VBool(z3.If(isint, ii[0] <= ii[1], rr[0] <= rr[1]))
        if Kop == LT:
            return VBool(z3.If(isint, ii[0] < ii[1], rr[0] < rr[1]))
    if Kop in (BV_NOT, BV_NEG):
        return VBV(sem_bv(Kop, pl_w(n), vbv(av[0]), None, n))
    if Kop in (BV_AND, BV_OR, BV_XOR, BV_ADD, BV_SUB, BV_MUL, BV_UDIV, BV_UREM, BV_LSHL,
               BV_LSHR, BV_SDIV, BV_SREM, BV_ASHR):
        return VBV(sem_bv(Kop, pl_w(n), vbv(av[0]), vbv(av[1]), n))
    if Kop in (BV_ULT, BV_ULE, BV_SLT, BV_SLE):
        w = Ty.bvw(at[0])
        a, b = vbv(av[0]), vbv(av[1])
        if Kop == BV_ULT:
            return VBool(a < b)
        if Kop == BV_ULE:
            return VBool(a <= b)
        if Kop == BV_SLT:
            return VBool(signed(a, w) < signed(b, w))
        return VBool(signed(a, w) <= signed(b, w))
    if Kop == BV_COMP:
        return VBV(z3.If(vbv(av[0]) == vbv(av[1]), K(1), K(0)))
    if Kop == BV_CONCAT:
        return VBV(vbv(av[0]) * pow2(Ty.bvw(at[1])) + vbv(av[1]))
    if Kop == BV_EXTRACT:
        return VBV((vbv(av[0]) / pow2(pl_i1(n))) % pow2(pl_w(n)))
    if Kop == BV_ROL:
        w, a = pl_w(n), vbv(av[0])
        s = z3.If(pl_i1(n) == w, K(0), pl_i1(n))
        return VBV((a * pow2(s)) % pow2(w) + a / pow2(w - s))
    if Kop == BV_ROR:
        w, a = pl_w(n), vbv(av[0])
        s = z3.If(pl_i1(n) == w, K(0), pl_i1(n))
        return VBV(a / pow2(s) + (a % pow2(s)) * pow2(w - s))
    if Kop == BV_ZEXT:
        return VBV(vbv(av[0]))
    if Kop == BV_SEXT:
        w0, a = Ty.bvw(at[0]), vbv(av[0])
        return VBV(z3.If(a < pow2(w0 - 1), a, a + pow2(pl_w(n)) - pow2(w0)))
    if Kop == BV_TONATURAL:
        return VInt(vbv(av[0]))
    if Kop == STR_LENGTH:
        return VInt(z3.Length(vs(av[0])))
    if Kop == STR_CONCAT:
        return VStr(z3.Concat([vs(a) for a in av]) if k >= 2 else vs(av[0]))
    if Kop == STR_CONTAINS:
        return VBool(z3.Contains(vs(av[0]), vs(av[1])))
    if Kop == STR_INDEXOF:
        return VInt(z3.IndexOf(vs(av[0]), vs(av[1]), vi(av[2])))
    if Kop == STR_REPLACE:
        return VStr(z3.Replace(vs(av[0]), vs(av[1]), vs(av[2])))
    if Kop == STR_SUBSTR:
        return VStr(z3.SubString(vs(av[0]), vi(av[1]), vi(av[2])))
    if Kop == STR_PREFIXOF:
        return VBool(z3.PrefixOf(vs(av[0]), vs(av[1])))
    if Kop == STR_SUFFIXOF:
        return VBool(z3.SuffixOf(vs(av[0]), vs(av[1])))
    if Kop == STR_TO_INT:
        return VInt(z3.StrToInt(vs(av[0])))
    if Kop == INT_TO_STR:
        return VStr(z3.IntToStr(vi(av[0])))
    if Kop == STR_CHARAT:
        return VStr(z3.SubString(vs(av[0]), vi(av[1]), K(1)))
    if Kop == ARRAY_SELECT:
        return asel(va(av[0]), av[1])
    if Kop == ARRAY_STORE:
        return VArr(astore(va(av[0]), av[1], av[2]))
    if Kop == ARRAY_VALUE:
        a = acst(av[0])
        for i in range(1, k, 2):
            a = astore(a, av[i], av[i + 1])
        return VArr(a)
    return None


# --------------------------------------------------------------------------
def payload_wf(Kop, n, at):
    """What the constructors (not the type checker) guarantee about the payload
    of a node they pass to create_node (proved with the constructors)."""
    if Kop == BV_CONSTANT:
        return z3.And(pl_w(n) >= 1, pl_int(n) >= 0, pl_int(n) < pow2(pl_w(n)))
    if Kop == BV_EXTRACT:
        return z3.And(pl_i1(n) >= 0, pl_i1(n) <= pl_i2(n), pl_w(n) == pl_i2(n) - pl_i1(n) + 1)
    if Kop in (BV_ZEXT, BV_SEXT) and at:
        return z3.Implies(Ty.is_BVT(at[0]), pl_w(n) == Ty.bvw(at[0]) + pl_i1(n))
    if Kop in (SYMBOL, ARRAY_VALUE):
        return valid_type(pl_ty(n))
    if Kop in (FORALL, EXISTS):
        return nqv(n) >= 1
    return z3.BoolVal(True)


def unfold(t, Kop, k):
    """Facts for node term t with op(t)==Kop and nargs(t)==k (k concrete)."""
    f = [nargs(t) == k]
    args_ = [arg(t, K(i)) for i in range(k)]
    at = [type_of(a) for a in args_]
    av = [val(a) for a in args_]
    ok, ty = type_rule(Kop, t, at)
    f.append(ok)                      # node invariant: accepted by the typing rules
    f.append(type_of(t) == ty)
    for a in args_:
        f.append(in_domain(val(a), type_of(a)))
        f.append(type_of(a) != NoneT)
    f.append(in_domain(val(t), type_of(t)))
    if Kop == SYMBOL:
        f.append(fv(t) == z3.SetAdd(z3.EmptySet(Node), t))
        f.append(isconst(t) == False)
    elif Kop in (FORALL, EXISTS):
        f.append(fv(t) == z3.SetDifference(fv(args_[0]), qvset(t)))
        f.append(isconst(t) == False)
        f.append(nqv(t) >= 1)
        # binder law: Q V. b  ~  Q (V /\ dep(b)). b ; quantifying over no relevant symbol is the identity
        sb = semf(args_[0])
        rel = z3.SetIntersect(qvset(t), dep(sb))
        f.append(semf(t) == z3.If(rel == z3.EmptySet(Node), sb, qsem(K(Kop), rel, sb)))
    elif Kop == FUNCTION:
        s = z3.SetAdd(z3.EmptySet(Node), pl_node(t))
        for a in args_:
            s = z3.SetUnion(s, fv(a))
        f.append(fv(t) == s)
        f.append(isconst(t) == False)
        f.append(val(t) == uf_app(pl_node(t), _seq(av)))
        f.append(k >= 1)
    else:
        s = z3.EmptySet(Node)
        for a in args_:
            s = z3.SetUnion(s, fv(a))
        f.append(fv(t) == s)
        if Kop in CONSTANT_OPS:
            f.append(isconst(t) == True)
        elif Kop == ARRAY_VALUE:
            f.append(isconst(t) == z3.And([isconst(a) for a in args_]))
        else:
            f.append(isconst(t) == False)
        m = sem(Kop, t, av, at)
        if m is not None:
            f.append(val(t) == m)
    if Kop == ARRAY_VALUE:
        # constructor invariant (FormulaManager.Array): keys are constants, sorted
        # by id, pairwise distinct, no stored value equal to the default
        for i in range(1, k, 2):
            f.append(isconst(args_[i]))
            f.append(args_[i + 1] != args_[0])
            if i + 2 < k:
                f.append(nid(args_[i]) < nid(args_[i + 2]))
    if Kop == POW:
        f.append(isconst(args_[1]))
    # constructor normalisations (C04/C06 contracts of the constructors): such nodes are never built
    if Kop == NOT:
        f.append(op(args_[0]) != NOT)
    if Kop == DIV:
        f.append(z3.Not(z3.And(op(args_[1]) == REAL_CONSTANT, pl_real(args_[1]) != 0)))
    if Kop == TOREAL:
        f.append(op(args_[0]) != INT_CONSTANT)
    if Kop == POW:
        # FormulaManager.Pow folds a constant base with an integer exponent (except 0 ** negative)
        b, e = val(args_[0]), val(args_[1])
        e_int = z3.Or(Val.is_VInt(e), z3.And(Val.is_VReal(e), z3.IsInt(vr(e))))
        e_neg = z3.Or(z3.And(Val.is_VInt(e), vi(e) < 0), z3.And(Val.is_VReal(e), vr(e) < 0))
        b_zero = z3.Or(b == VInt(0), b == VReal(0))
        f.append(z3.Implies(isconst(args_[0]), z3.Or(z3.Not(e_int), z3.And(b_zero, e_neg))))
    return f


_BOOL_OPS = (AND, OR, NOT, IMPLIES, IFF, FORALL, EXISTS, BOOL_CONSTANT, LE, LT, EQUALS, BV_ULT, BV_ULE,
             BV_SLT, BV_SLE, STR_CONTAINS, STR_PREFIXOF, STR_SUFFIXOF)
_INT_OPS = (INT_CONSTANT, STR_LENGTH, STR_TO_INT, STR_INDEXOF, BV_TONATURAL)
_REAL_OPS = (REAL_CONSTANT, ALGEBRAIC_CONSTANT, TOREAL, POW)
_ARITH_OPS = (PLUS, MINUS, TIMES, DIV)
_STR_OPS = (STR_CONSTANT, STR_CONCAT, STR_REPLACE, STR_SUBSTR, INT_TO_STR, STR_CHARAT)


def shallow_facts(n):
    """Consequences of the node invariant that do not need the arity: the
    result-type class of each operator, and the definition of isconst."""
    o = op(n)
    t = type_of(n)
    isin = lambda ops: z3.Or([o == k for k in ops])
    return [
        val(n) == ev(semf(n)),
        z3.IsSubset(dep(semf(n)), fv(n)),          # coincidence law
        o >= 0, o < NOPS,
        o != ALGEBRAIC_CONSTANT,      # needs the z3 bindings, absent here: not covered (listed assumption)
        t != NoneT,
        valid_type(t),
        in_domain(val(n), t),
        z3.Implies(isconst(n), isin(CONSTANT_OPS + (ARRAY_VALUE,))),
        z3.Implies(isin(CONSTANT_OPS), isconst(n)),
        z3.Implies(isin(_BOOL_OPS), t == BoolT),
        z3.Implies(isin(_INT_OPS), t == IntT),
        z3.Implies(isin(_REAL_OPS), t == RealT),
        z3.Implies(isin(_ARITH_OPS), z3.Or(t == IntT, t == RealT)),
        z3.Implies(isin(_STR_OPS), t == StrT),
        z3.Implies(isin((BV_CONSTANT,) + BV_W_OPS), z3.And(Ty.is_BVT(t), Ty.bvw(t) == pl_w(n))),
        z3.Implies(isin((ARRAY_STORE, ARRAY_VALUE)), Ty.is_ArrT(t)),
        z3.Implies(o == SYMBOL, t == pl_ty(n)),
    ]


def _seq(vals):
    if not vals:
        return z3.Empty(z3.SeqSort(Val))
    us = [z3.Unit(v) for v in vals]
    return us[0] if len(us) == 1 else z3.Concat(us)


# --------------------------------------------------------------------------
# lemma library (explicitly instantiated; see DESIGN 3.4)
# --------------------------------------------------------------------------
_LEMMA_CACHE = {}
_DERIVED = set()


def _cached(key, build):
    c = _LEMMA_CACHE.get(key)
    if c is None:
        j0 = len(JOURNAL)
        facts = build()
        c = (facts, list(JOURNAL[j0:]))
        _LEMMA_CACHE[key] = c
    else:
        _sorts.replay_tracking(c[1])
    return c[0]


def _pow2_single(p):
    e = p.arg(0)
    new = [p >= 1, z3.Implies(e >= 0, p >= e + 1), z3.Implies(e <= 0, p == 1)]
    if z3.is_int_value(e):
        c = e.as_long()
        if 0 <= c <= 4096:
            new.append(p == (1 << c))
    elif p.get_id() not in _DERIVED:
        q = pow2(e - 1)
        _DERIVED.add(q.get_id())
        new.append(z3.Implies(e >= 1, p == 2 * q))
    if z3.is_add(e) and e.num_args() == 2:
        a, b = e.arg(0), e.arg(1)
        if not (z3.is_int_value(a) or z3.is_int_value(b)):
            new.append(z3.Implies(z3.And(a >= 0, b >= 0), p == pow2(a) * pow2(b)))
    if z3.is_sub(e) and e.num_args() == 2:
        a, b = e.arg(0), e.arg(1)
        new.append(z3.Implies(z3.And(a >= b, b >= 0), pow2(a) == p * pow2(b)))
    return new


def _pow2_pair(p, q):
    a, b = p.arg(0), q.arg(0)
    if z3.is_int_value(a) and z3.is_int_value(b):
        return []
    return [z3.Implies(z3.And(a >= 0, a < b), 2 * p <= q),
            z3.Implies(z3.And(b >= 0, b < a), 2 * q <= p),
            z3.Implies(a == b, p == q)]


def _bit_single(nm, f, e):
    a, b = e.arg(0), e.arg(1)
    nonneg = z3.And(a >= 0, b >= 0)
    new = [z3.Implies(nonneg, e >= 0), e == f.f(b, a)]
    if nm == "band":
        new += [z3.Implies(nonneg, z3.And(e <= a, e <= b)), z3.Implies(a == 0, e == 0), z3.Implies(b == 0, e == 0),
                z3.Implies(a == b, e == a)]
    elif nm == "bor":
        new += [z3.Implies(nonneg, z3.And(e >= a, e >= b, e <= a + b)), z3.Implies(a == 0, e == b),
                z3.Implies(b == 0, e == a), z3.Implies(a == b, e == a)]
    else:
        new += [z3.Implies(nonneg, e <= a + b), z3.Implies(a == 0, e == b), z3.Implies(b == 0, e == a),
                z3.Implies(a == b, e == 0)]
    return new


def _bit_pow(nm, e, p):
    a, b = e.arg(0), e.arg(1)
    w = p.arg(0)
    nonneg = z3.And(a >= 0, b >= 0)
    new = [z3.Implies(z3.And(nonneg, w >= 0, a < p, b < p), e < p)]
    for x, y in ((a, b), (b, a)):
        if nm == "band":
            new.append(z3.Implies(z3.And(w >= 0, x == p - 1, y >= 0, y < p), e == y))
        if nm == "bor":
            new.append(z3.Implies(z3.And(w >= 0, x == p - 1, y >= 0, y < p), e == x))
        if nm == "bxor":
            new.append(z3.Implies(z3.And(w >= 0, x == p - 1, y >= 0, y < p), e == p - 1 - y))
    return new


def arith_lemmas(done):
    """New instances of the pow2 / bit-wise lemmas for the terms created on this
    path since the last call (`done`: per-path set of instance keys)."""
    out = []
    for _ in range(2):
        n0 = len(out)
        for p in list(pow2.apps.values()):
            k = ("p", p.get_id())
            if k not in done:
                done.add(k)
                out += _cached(k + (p,), lambda: _pow2_single(p))
        ps = list(pow2.apps.values())
        loud = [p for p in ps if p.get_id() not in pow2.quiet_ids]
        for i, p in enumerate(loud):
            for q in loud[i + 1:]:
                k = ("pp", min(p.get_id(), q.get_id()), max(p.get_id(), q.get_id()))
                if k not in done:
                    done.add(k)
                    out += _cached(k + (p, q), lambda: _pow2_pair(p, q))
        for nm, f in (("band", band), ("bor", bor), ("bxor", bxor)):
            for e in list(f.apps.values()):
                k = (nm, e.get_id())
                if k not in done:
                    done.add(k)
                    out += _cached(k + (e,), lambda: _bit_single(nm, f, e))
                for p in loud:
                    k = (nm, e.get_id(), p.get_id())
                    if k not in done:
                        done.add(k)
                        out += _cached(k + (e, p), lambda: _bit_pow(nm, e, p))
        if len(out) == n0:
            break
    return out


def array_axioms(done):
    """Injectivity of the index-key embedding for the keys created on this path
    (the array theory itself is z3's, with extensionality)."""
    ks = list(vkey.apps.values())
    out = []
    for m in list(amk.apps.values()):
        k = ("amk", m.get_id())
        if k not in done:
            done.add(k)
            out.append(aview(m) == m.arg(0))
    for i, a in enumerate(ks):
        for b in ks[i + 1:]:
            k = ("vk", min(a.get_id(), b.get_id()), max(a.get_id(), b.get_id()))
            if k not in done:
                done.add(k)
                out.append((a == b) == (a.arg(0) == b.arg(0)))
    return out
