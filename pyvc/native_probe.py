"""Runs under the repository's own interpreter with PYTHONPATH=/repo.
Dumps, from the LIVE classes: MRO of every class, the op -> callback table of
every walker class, and simple module-level constants.  JSON on stdout."""
import importlib
import inspect
import json
import pkgutil
import sys
import warnings

warnings.simplefilter("ignore")
import pysmt
import pysmt.environment

out = {"mro": {}, "dispatch": {}, "consts": {}, "errors": {}}
mods = []
for m in pkgutil.walk_packages(pysmt.__path__, "pysmt."):
    if ".test" in m.name or m.name.startswith("pysmt.cmd") or m.name == "pysmt.__main__":
        continue
    try:
        mods.append(importlib.import_module(m.name))
    except BaseException as ex:  # solvers that are not installed
        out["errors"][m.name] = type(ex).__name__
mods.append(pysmt)


def simple(v, depth=0):
    if v is None or isinstance(v, (bool, int, str)):
        return True
    if isinstance(v, (list, tuple, frozenset, set)) and depth < 2:
        return all(simple(x, depth + 1) for x in v)
    return False


def enc(v):
    if isinstance(v, (frozenset, set)):
        return {"__set__": sorted(enc(x) for x in v)} if all(isinstance(x, (int, str)) for x in v) else None
    if isinstance(v, (list, tuple)):
        return {"__%s__" % type(v).__name__: [enc(x) for x in v]}
    return v


env = pysmt.environment.get_env()
from pysmt.walkers.generic import Walker

for mod in mods:
    consts = {}
    for k, v in vars(mod).items():
        if k.startswith("__"):
            continue
        if simple(v) and not inspect.ismodule(v):
            e = enc(v)
            if e is not None or v is None:
                consts[k] = e
        if inspect.isclass(v) and v.__module__ == mod.__name__:
            q = "%s.%s" % (v.__module__, v.__qualname__)
            out["mro"][q] = ["%s.%s" % (c.__module__, c.__qualname__) for c in v.__mro__ if c is not object]
            if issubclass(v, Walker):
                try:
                    inst = v(env) if "env" in inspect.signature(v.__init__).parameters else None
                except BaseException:
                    inst = None
                table = {}
                if inst is not None and hasattr(inst, "functions"):
                    for o, f in inst.functions.items():
                        fn = getattr(f, "__func__", f)
                        qn = "%s.%s" % (getattr(fn, "__module__", "?"), getattr(fn, "__qualname__", repr(fn)))
                        if "<locals>" in qn:
                            # decorated method: name it by the class attribute that holds it
                            for c in v.__mro__:
                                hit = [a for a, x in vars(c).items() if x is fn]
                                if hit:
                                    qn = "%s.%s.%s" % (c.__module__, c.__qualname__, sorted(hit)[0])
                                    break
                        table[str(o)] = qn
                else:
                    import pysmt.operators as ops
                    from pysmt.walkers.generic import nt_to_fun
                    for o in ops.all_types():
                        f = getattr(v, nt_to_fun(o), None)
                        if f is not None:
                            qn = "%s.%s" % (f.__module__, f.__qualname__)
                            if "<locals>" in qn:
                                for c in v.__mro__:
                                    hit = [a for a, x in vars(c).items() if x is f and not a.startswith("walk_") is False]
                                    hit = [a for a, x in vars(c).items() if x is f]
                                    if hit:
                                        # prefer the name the method was defined under (the one in the source)
                                        import ast as _ast, inspect as _inspect
                                        try:
                                            src = _ast.parse(_inspect.getsource(c).lstrip() if False else __import__("textwrap").dedent(_inspect.getsource(c)))
                                            defined = {n.name for n in src.body[0].body if isinstance(n, _ast.FunctionDef)}
                                        except Exception:
                                            defined = set()
                                        best = sorted([a for a in hit if a in defined]) or sorted(hit)
                                        qn = "%s.%s.%s" % (c.__module__, c.__qualname__, best[0])
                                        break
                            table[str(o)] = qn
                out["dispatch"][q] = table
    out["consts"][mod.__name__] = consts



def describe(v):
    """shape of the initial value of an instance attribute (for 'reset restores the initial state' obligations)"""
    if v is None or isinstance(v, (bool, int, str)):
        return {"kind": "const", "value": v}
    if isinstance(v, (set, frozenset, list, tuple, dict)):
        return {"kind": type(v).__name__, "len": len(v)}
    if type(v).__name__ == "SmtLibExecutionCache":
        return {"kind": "cache", "keys": {k: [str(x) for x in st] for k, st in v.keys.items()}, "definitions": len(v.definitions)}
    return {"kind": "object", "type": "%s.%s" % (type(v).__module__, type(v).__qualname__)}


out["fresh"] = {}
try:
    from pysmt.smtlib.parser.parser import SmtLibParser
    out["fresh"]["pysmt.smtlib.parser.parser.SmtLibParser"] = {k: describe(v) for k, v in vars(SmtLibParser(env)).items()}
except BaseException as ex:
    out["errors"]["fresh:SmtLibParser"] = type(ex).__name__

json.dump(out, sys.stdout)
