"""Runs under the repository's own interpreter with PYTHONPATH=/repo.
Dumps, from the LIVE classes: MRO of every class, the op -> callback table of
every walker class, and simple module-level constants.  JSON on stdout."""
import importlib
import inspect
import json
import pkgutil
import sys
import warnings

warnings.simplefilter("ignore")
import pysmt
import pysmt.environment

out = {"mro": {}, "dispatch": {}, "consts": {}, "errors": {}}
mods = []
for m in pkgutil.walk_packages(pysmt.__path__, "pysmt."):
    if ".test" in m.name or m.name.startswith("pysmt.cmd") or m.name == "pysmt.__main__":
        continue
    try:
        mods.append(importlib.import_module(m.name))
    except BaseException as ex:  # solvers that are not installed
        out["errors"][m.name] = type(ex).__name__
mods.append(pysmt)


def simple(v, depth=0):
    if v is None or isinstance(v, (bool, int, str)):
        return True
    if isinstance(v, (list, tuple, frozenset, set)) and depth < 2:
        return all(simple(x, depth + 1) for x in v)
    return False


def enc(v):
    if isinstance(v, (frozenset, set)):
        return {"__set__": sorted(enc(x) for x in v)} if all(isinstance(x, (int, str)) for x in v) else None
    if isinstance(v, (list, tuple)):
        return {"__%s__" % type(v).__name__: [enc(x) for x in v]}
    return v


env = pysmt.environment.get_env()
from pysmt.walkers.generic import Walker

for mod in mods:
    consts = {}
    for k, v in vars(mod).items():
        if k.startswith("__"):
            continue
        if simple(v) and not inspect.ismodule(v):
            e = enc(v)
            if e is not None or v is None:
                consts[k] = e
        if inspect.isclass(v) and v.__module__ == mod.__name__:
            q = "%s.%s" % (v.__module__, v.__qualname__)
            out["mro"][q] = ["%s.%s" % (c.__module__, c.__qualname__) for c in v.__mro__ if c is not object]
            if issubclass(v, Walker):
                try:
                    inst = v(env) if "env" in inspect.signature(v.__init__).parameters else None
                except BaseException:
                    inst = None
                table = {}
                if inst is not None and hasattr(inst, "functions"):
                    for o, f in inst.functions.items():
                        fn = getattr(f, "__func__", f)
                        table[str(o)] = "%s.%s" % (getattr(fn, "__module__", "?"), getattr(fn, "__qualname__", repr(fn)))
                else:
                    import pysmt.operators as ops
                    from pysmt.walkers.generic import nt_to_fun
                    for o in ops.all_types():
                        f = getattr(v, nt_to_fun(o), None)
                        if f is not None:
                            table[str(o)] = "%s.%s" % (f.__module__, f.__qualname__)
                out["dispatch"][q] = table
    out["consts"][mod.__name__] = consts

json.dump(out, sys.stdout)
