"""Symbolic executor for the Python subset used by the pySMT functions under
contract.  It executes the REAL ast of a function (from repo.py) on symbolic
inputs and enumerates its paths by re-execution with a decision trail.

Values are plain Python values (int, bool, str, None, Fraction, float, tuple,
list, dict, set, frozenset), z3 expressions (Int/Bool/Real/String/Node/Ty/...),
or the small wrapper classes below."""
import ast
import math
from fractions import Fraction

import z3

from . import sorts as S
from .sorts import Node, Ty, I, B, R


# ---------------------------------------------------------------------------
class Unsupported(Exception):
    """The function uses something outside the subset (out of reach)."""


class PathAbort(Exception):
    """Current path is infeasible or cut by a declared bound."""
    def __init__(self, why="infeasible"):
        Exception.__init__(self, why)
        self.why = why


class PyRaise(Exception):
    """A Python exception raised by the executed code."""
    def __init__(self, exc):
        Exception.__init__(self, exc.cls)
        self.exc = exc


class _Return(Exception):
    def __init__(self, v):
        self.v = v


class _Break(Exception):
    pass


class _Continue(Exception):
    pass


# ---------------------------------------------------------------------------
class ExcVal:
    def __init__(self, cls, args=(), kwargs=None):
        self.cls, self.args, self.kwargs = cls, tuple(args), kwargs or {}

    def __repr__(self):
        return "%s%r" % (self.cls, self.args)


class ExcClass:
    def __init__(self, name):
        self.name = name

    def __repr__(self):
        return "<exc %s>" % self.name


EXC_PARENTS = {
    "BaseException": None, "Exception": "BaseException",
    "AssertionError": "Exception", "ValueError": "Exception", "TypeError": "Exception",
    "KeyError": "LookupError", "IndexError": "LookupError", "LookupError": "Exception",
    "AttributeError": "Exception", "NotImplementedError": "RuntimeError",
    "RuntimeError": "Exception", "StopIteration": "Exception",
    "ZeroDivisionError": "ArithmeticError", "ArithmeticError": "Exception",
    "OverflowError": "ArithmeticError", "RecursionError": "RuntimeError",
    "OSError": "Exception", "IOError": "OSError", "UnicodeError": "ValueError",
}


class Obj:
    """Instance of a repository class (mutable fields)."""
    def __init__(self, cls, fields=None, tag=None):
        self.cls, self.fields, self.tag = cls, fields if fields is not None else {}, tag

    def __repr__(self):
        return "<%s %s>" % (self.cls.rsplit(".", 1)[-1], self.tag or "")


class ClassRef:
    def __init__(self, qual):
        self.qual = qual

    def __repr__(self):
        return "<class %s>" % self.qual

    def __eq__(self, o):
        return isinstance(o, ClassRef) and o.qual == self.qual

    def __ne__(self, o):
        return not self == o

    def __hash__(self):
        return hash(self.qual)


class ModuleRef:
    def __init__(self, name):
        self.name = name

    def __repr__(self):
        return "<module %s>" % self.name


class FuncVal:
    def __init__(self, fi, modname, closure=None, bound=None, node=None, owner=None):
        self.fi, self.modname, self.closure, self.bound = fi, modname, closure, bound
        self.node = node if node is not None else (fi.node if fi else None)
        self.owner = owner     # class the method was found in (for super-ish calls)

    raw = False       # True: the undecorated function object (what a decorator receives)

    def bind(self, selfv):
        return FuncVal(self.fi, self.modname, self.closure, selfv, self.node, self.owner)

    @property
    def qualname(self):
        return self.fi.qualname if self.fi else "<lambda>"

    def __repr__(self):
        return "<func %s>" % self.qualname


class Builtin:
    def __init__(self, name, fn, bound=None):
        self.name, self.fn, self.bound = name, fn, bound

    def __repr__(self):
        return "<builtin %s>" % self.name


class ContentView:       # n._content
    def __init__(self, n):
        self.n = n


class PayloadView:       # n._content.payload  (meaning depends on op(n))
    def __init__(self, n):
        self.n = n


class ArgsView:          # n._content.args : tuple of children
    def __init__(self, n, lo=0, step=1):
        self.n, self.lo, self.step = n, lo, step


class QVars:             # payload of a quantifier: tuple of bound variables
    def __init__(self, n):
        self.n = n


class ZSetTuple:         # tuple(<z3 node set>) in arbitrary order
    def __init__(self, zset):
        self.zset = zset


class SetVal:
    """Python set/frozenset whose elements are symbolic; elements are pairwise
    distinct on the current path (forks happen in add)."""
    def __init__(self, items=(), frozen=False, zextra=()):
        self.items = list(items)
        self.frozen = frozen
        self.zextra = list(zextra)      # whole symbolic sets merged in (update with a z3 set)

    def copy(self):
        return SetVal(self.items, self.frozen, self.zextra)


class DictVal:
    """Python dict with symbolic keys, insertion ordered; keys pairwise distinct
    on the current path."""
    def __init__(self, items=()):
        self.items = [list(kv) for kv in items]


class SeqList:
    """Python list of unknown length, held as a z3 sequence (mutable like a list)."""
    def __init__(self, expr):
        self.expr = expr

    def elem_sort(self):
        return self.expr.sort().basis()


class NodeMap:
    """Python dict from formulas to formulas of unknown size: a z3 array (the values) and a z3 set (the keys).
    Look-up, membership and item assignment only; no iteration."""
    def __init__(self, arr, dom):
        self.arr, self.dom = arr, dom


class PrefList:
    """Python list = an opaque prefix (never touched) followed by explicit items.
    Operations that would reach into the prefix cut the path (stated depth bound)."""
    def __init__(self, prefix_len, items, tag="prefix"):
        self.prefix_len, self.items, self.tag = prefix_len, list(items), tag


class Opaque:
    """A value the engine does not interpret (strings for messages etc.)."""
    def __init__(self, what="opaque"):
        self.what = what

    def __repr__(self):
        return "<opaque %s>" % self.what


def is_z3(v):
    return isinstance(v, z3.ExprRef)


def sort_of(v):
    return v.sort() if is_z3(v) else None


def is_node(v):
    return is_z3(v) and v.sort() == Node


def is_ty(v):
    return is_z3(v) and v.sort() == Ty


def is_sym_int(v):
    return is_z3(v) and v.sort() == I


def is_sym_bool(v):
    return is_z3(v) and v.sort() == B


def is_sym_real(v):
    return is_z3(v) and v.sort() == R


def is_sym_str(v):
    return is_z3(v) and v.sort() == S.S


def is_zset(v):
    return is_z3(v) and isinstance(v.sort(), z3.ArraySortRef) and v.sort().range() == B


def z3const(v):
    """Python scalar -> z3 value"""
    if isinstance(v, bool):
        return z3.BoolVal(v)
    if isinstance(v, int):
        return z3.IntVal(v)
    if isinstance(v, Fraction):
        return z3.RealVal(str(v))
    if isinstance(v, str):
        return z3.StringVal(v)
    raise Unsupported("no z3 constant for %r" % (v,))


def to_int(v):
    if is_sym_int(v):
        return v
    if isinstance(v, bool):
        return z3.IntVal(int(v))
    if isinstance(v, int):
        return z3.IntVal(v)
    if is_sym_bool(v):
        return z3.If(v, z3.IntVal(1), z3.IntVal(0))
    raise Unsupported("not an int: %r" % (v,))


def to_real(v):
    if is_sym_real(v):
        return v
    if is_sym_int(v):
        return z3.ToReal(v)
    if isinstance(v, bool):
        return z3.RealVal(int(v))
    if isinstance(v, (int, Fraction)):
        return z3.RealVal(str(v))
    if is_sym_bool(v):
        return z3.If(v, z3.RealVal(1), z3.RealVal(0))
    raise Unsupported("not a real: %r" % (v,))


def to_bool(v):
    if is_sym_bool(v):
        return v
    if isinstance(v, bool):
        return z3.BoolVal(v)
    raise Unsupported("not a bool: %r" % (v,))


def to_str(v):
    if is_sym_str(v):
        return v
    if isinstance(v, str):
        return z3.StringVal(v)
    raise Unsupported("not a str: %r" % (v,))


def is_numeric(v):
    return isinstance(v, (int, Fraction)) and not isinstance(v, bool) or is_sym_int(v) or is_sym_real(v)


def is_boolish(v):
    return isinstance(v, bool) or is_sym_bool(v)


def is_realish(v):
    return isinstance(v, Fraction) or is_sym_real(v)


def is_intish(v):
    return (isinstance(v, int) and not isinstance(v, bool)) or is_sym_int(v)


def is_strish(v):
    return isinstance(v, str) or is_sym_str(v)


def concrete(v):
    return not is_z3(v)


# ---------------------------------------------------------------------------
class Frame:
    def __init__(self, fn, locs, modname, closure=None, selfcls=None):
        self.fn, self.locs, self.modname, self.closure, self.selfcls = fn, locs, modname, closure, selfcls


class GenObj:
    """A generator object of a repository generator function: its body runs when a consumer
    drives it; each `yield v` calls the consumer's callback (internal-iterator reading of
    for-loops, list(), tuple() ... over generators: exactly Python's order of effects as long
    as the consumer exhausts the generator or leaves by break/return/raise)."""
    def __init__(self, fv, fr):
        self.fv, self.fr, self.started = fv, fr, False


class _GenStop(Exception):
    """consumer left the loop (break): unwinds the generator body"""
    def __init__(self, gen):
        self.gen = gen


class Exec:
    """One instance per verified function variant; enumerates paths."""

    FEAS_TIMEOUT_MS = 2000
    PROVE_TIMEOUT_MS = 60000
    PROVE_RLIMIT = 0

    def __init__(self, repo, world):
        self.repo = repo
        self.world = world            # World: builtins, contracts, hooks (see world.py)
        self.trail = []               # [[choice, has_alt]]
        self.max_depth = 40
        self.max_arity = 3
        self.loop_bound = 12
        self.witness_fn = None
        self.in_merge = False
        self.merge_guards = []
        self.reset_path()

    # ---- path state ------------------------------------------------------
    def reset_path(self):
        self.pos = 0
        self.pc = []                  # branch conditions
        self.hyps = []                # everything assumed so far (pc + facts + callee ensures), in order
        self.obls = []                # (name, goal, len(hyps) at that time)
        self.events = []              # observable events (writes, yields)
        self.depth = 0
        self.fresh_id = 0
        self.notes = []               # bounded cuts etc.
        self.solver = z3.Solver()
        self._ctxref = self.solver.ctx.ref()
        self.solver.set("timeout", self.FEAS_TIMEOUT_MS)
        self.unfolded = set()
        self.ghost = {}
        self.inlined = set()
        self.used_contracts = set()
        self.in_merge = False
        self.merge_guards = []
        self.results = []
        self.lemma_done = set()
        self._journal_seen = 0
        S.reset_tracking()

    def fresh(self, prefix, sort):
        self.fresh_id += 1
        return z3.Const("%s!%d" % (prefix, self.fresh_id), sort)

    def assume(self, e, is_pc=False):
        if e is True:
            return
        if e is False:
            raise PathAbort()
        if z3.is_true(e):
            return
        self.hyps.append(e)
        z3.Z3_solver_assert(self._ctxref, self.solver.solver, e.as_ast())
        if is_pc:
            self.pc.append(e)

    def flush_lemmas(self):
        """Add the lemma instances for tracked terms created since the last call."""
        if len(S.JOURNAL) == self._journal_seen:
            return
        from . import spec
        new = spec.arith_lemmas(self.lemma_done) + spec.array_axioms(self.lemma_done)
        self._journal_seen = len(S.JOURNAL)
        for l in new:
            self.hyps.append(l)
            z3.Z3_solver_assert(self._ctxref, self.solver.solver, l.as_ast())

    def oblige(self, name, goal):
        """Proof obligation under everything assumed so far; discharged at once
        on the path's incremental solver."""
        if goal is True:
            goal = z3.BoolVal(True)
        elif goal is False:
            goal = z3.BoolVal(False)
        self.results.append(self.prove(name, goal))

    def prove(self, name, goal):
        import time
        t0 = time.time()
        self.flush_lemmas()
        s = self.solver
        s.push()
        s.add(z3.Not(goal))
        s.set("timeout", self.PROVE_TIMEOUT_MS)
        s.set("rlimit", self.PROVE_RLIMIT)
        r = s.check()
        # a counter-model must respect the real meaning of the tracked arithmetic functions (pow2, band, bor, bxor are
        # uninterpreted for the solver and pinned by lemma instances only): where it does not, the concrete instances it
        # violates are added and the query repeated - a model that survives is a model of the real arithmetic
        rounds = 0
        while r == z3.sat and rounds < 12:
            mdl = s.model()
            inst = self._in_child(lambda: self._violated_arith_instances(mdl), 20)
            if not isinstance(inst, list) or not inst:
                break
            rounds += 1
            fns = {"pow2": S.pow2.f, "band": S.band.f, "bor": S.bor.f, "bxor": S.bxor.f}
            for nm, args, want in inst:
                s.add(fns[nm](*[z3.IntVal(int(a)) for a in args]) == z3.IntVal(int(want)))
            r = s.check()
        out = {"name": name, "status": None, "backend": "z3", "time": 0.0, "model": None, "smt2": None,
               "pc": None}
        if r == z3.unsat:
            out["status"] = "proved"
        else:
            out["status"] = "refuted" if r == z3.sat else "undecided"
            out["smt2"] = s.to_smt2()
            out["pc"] = [str(c) for c in self.pc][:80]
            if r == z3.sat:
                # evaluate the witness while the solver still holds this model
                if self.witness_fn is not None:
                    out["model"] = self._witness_in_child(s.model())
            else:
                out["reason"] = s.reason_unknown()
        s.pop()
        s.set("timeout", self.FEAS_TIMEOUT_MS)
        s.set("rlimit", 0)
        out["time"] = round(time.time() - t0, 4)
        return out

    def _violated_arith_instances(self, model):
        out = []
        try:
            for p in list(S.pow2.apps.values()):
                e = model.eval(p.arg(0), model_completion=True)
                v = model.eval(p, model_completion=True)
                if not (z3.is_int_value(e) and z3.is_int_value(v)):
                    continue
                ev = e.as_long()
                if ev > 4096:
                    continue
                want = (1 << ev) if ev >= 0 else 1
                if v.as_long() != want:
                    out.append(("pow2", [str(ev)], str(want)))
            for nm, f, pyop in (("band", S.band, lambda a, b: a & b), ("bor", S.bor, lambda a, b: a | b), ("bxor", S.bxor, lambda a, b: a ^ b)):
                for t in list(f.apps.values()):
                    a = model.eval(t.arg(0), model_completion=True)
                    b = model.eval(t.arg(1), model_completion=True)
                    v = model.eval(t, model_completion=True)
                    if not (z3.is_int_value(a) and z3.is_int_value(b) and z3.is_int_value(v)):
                        continue
                    av, bv = a.as_long(), b.as_long()
                    if av < 0 or bv < 0 or av.bit_length() > 4096 or bv.bit_length() > 4096:
                        continue
                    if v.as_long() != pyop(av, bv):
                        out.append((nm, [str(av), str(bv)], str(pyop(av, bv))))
        except Exception:
            return []
        return out[:64]

    def _witness_in_child(self, model, limit_s=20):
        return self._in_child(lambda: self.witness_fn(model), limit_s)

    def _in_child(self, fn, limit_s=20):
        """Model evaluation through the Python API crashed / hung z3 5.1 on some
        models: it runs in a forked child so that it cannot take the run down."""
        import json
        import os
        import select
        import signal
        rfd, wfd = os.pipe()
        pid = os.fork()
        if pid == 0:
            try:
                os.close(rfd)
                dn = os.open(os.devnull, os.O_WRONLY)
                os.dup2(dn, 1)
                os.dup2(dn, 2)
                try:
                    data = json.dumps(fn(), default=str)
                except Exception as e:
                    data = json.dumps({"witness-error": repr(e)})
                os.write(wfd, data.encode())
            finally:
                os._exit(0)
        os.close(wfd)
        chunks = []
        import time
        t0 = time.time()
        while time.time() - t0 < limit_s:
            rl, _, _ = select.select([rfd], [], [], 0.5)
            if rl:
                b = os.read(rfd, 1 << 16)
                if not b:
                    break
                chunks.append(b)
        else:
            try:
                os.kill(pid, signal.SIGKILL)
            except OSError:
                pass
        os.close(rfd)
        try:
            os.waitpid(pid, 0)
        except OSError:
            pass
        try:
            return json.loads(b"".join(chunks).decode())
        except Exception:
            return {"witness-error": "model evaluation crashed or timed out in z3"}

    def feasible(self, extra=None):
        self.flush_lemmas()
        self.solver.push()
        if extra is not None:
            self.solver.add(extra)
        r = self.solver.check()
        self.solver.pop()
        return r != z3.unsat

    def decide(self, cond):
        """Fork on a (possibly symbolic) boolean; returns a Python bool."""
        if isinstance(cond, bool):
            return cond
        if self.in_merge and is_sym_bool(cond):
            c0 = z3.simplify(cond)
            if z3.is_true(c0):
                return True
            if z3.is_false(c0):
                return False
            raise _MergeFail()
        if cond is None:
            return False
        if not is_sym_bool(cond):
            return self.truth_concrete(cond)
        c = z3.simplify(cond)
        if z3.is_true(c):
            return True
        if z3.is_false(c):
            return False
        if self.pos < len(self.trail):
            choice = self.trail[self.pos][0]
        else:
            t_ok = self.feasible(c)
            f_ok = self.feasible(z3.Not(c))
            if t_ok and f_ok:
                self.trail.append([True, True])
            elif t_ok:
                self.trail.append([True, False])
            elif f_ok:
                self.trail.append([False, False])
            else:
                raise PathAbort()
            choice = self.trail[self.pos][0]
        self.pos += 1
        lit = c if choice else z3.Not(c)
        self.assume(lit, is_pc=True)
        self.world.on_literal(self, c, choice)
        return choice

    def next_path(self):
        """Prepare the trail for the next unexplored path; False when done."""
        while self.trail and not self.trail[-1][1]:
            self.trail.pop()
        if not self.trail:
            return False
        self.trail[-1] = [not self.trail[-1][0], False]
        return True

    # ---- truthiness --------------------------------------------------------
    def truth(self, v):
        """Python truth value as python bool or z3 Bool."""
        if isinstance(v, bool) or is_sym_bool(v):
            return v
        if v is None:
            return False
        if isinstance(v, PayloadView):
            from . import builtins_impl
            return self.truth(builtins_impl.resolve_payload(self.world, self, v))
        if isinstance(v, FloatVal):
            from . import builtins_impl
            return builtins_impl.float_real(v) != 0
        if type(v).__name__ == "Generator" or isinstance(v, GenObj):
            return True          # an iterator / generator object is always true, also when it will yield nothing
        if is_sym_int(v):
            return v != 0
        if is_sym_real(v):
            return v != 0
        if is_sym_str(v):
            return z3.Length(v) != 0
        if is_ty(v):
            return v != S.NoneT
        if is_node(v):
            return True
        if is_zset(v):
            return v != z3.EmptySet(v.sort().domain())
        if isinstance(v, (int, Fraction, float, str, tuple, list, dict, set, frozenset)):
            return bool(v)
        if isinstance(v, SetVal):
            return len(v.items) > 0
        if isinstance(v, DictVal):
            return len(v.items) > 0
        if isinstance(v, (ArgsView, QVars, ZSetTuple)):
            return self.compare("!=", self.length(v), 0)
        if isinstance(v, SeqList):
            return z3.Length(v.expr) != 0
        if isinstance(v, PrefList):
            return True if v.items else (v.prefix_len != 0)
        if isinstance(v, (Obj, FuncVal, Builtin, ClassRef, ModuleRef, Opaque, ExcVal)):
            return True
        if isinstance(v, z3.SeqRef):
            return z3.Length(v) != 0
        raise Unsupported("truth of %r" % (v,))

    def truth_concrete(self, v):
        t = self.truth(v)
        if isinstance(t, bool):
            return t
        return self.decide(t)

    # ---- arithmetic --------------------------------------------------------
    def binop(self, opname, a, b):
        if isinstance(a, PayloadView) or isinstance(b, PayloadView):
            from . import builtins_impl
            if isinstance(a, PayloadView):
                a = builtins_impl.resolve_payload(self.world, self, a)
            if isinstance(b, PayloadView):
                b = builtins_impl.resolve_payload(self.world, self, b)
        if isinstance(a, Opaque) or isinstance(b, Opaque):
            if opname in ("+", "%"):
                return Opaque("str-op")
            raise Unsupported("arithmetic on an uninterpreted value (%s)" % (a.what if isinstance(a, Opaque) else b.what))
        plain = (int, bool, str, Fraction, list, tuple, set, frozenset)
        if isinstance(a, plain) and isinstance(b, plain) and not (opname == "%" and isinstance(a, str)):
            try:
                return self._concrete_binop(opname, a, b)
            except ZeroDivisionError:
                raise PyRaise(ExcVal("ZeroDivisionError"))
        return self.world.binop(self, opname, a, b)

    def _concrete_binop(self, opname, a, b):
        if opname == "+":
            if isinstance(a, list) and isinstance(b, (tuple,)):
                return a + list(b)
            return a + b
        if opname == "-":
            return a - b
        if opname == "*":
            return a * b
        if opname == "/":
            r = Fraction(a) / Fraction(b) if not isinstance(a, float) and not isinstance(b, float) else a / b
            if isinstance(a, int) and isinstance(b, int):
                return FloatVal.exact(r)
            return r
        if opname == "//":
            return a // b
        if opname == "%":
            if isinstance(a, str):
                return self.world.str_format(self, a, b)
            return a % b
        if opname == "**":
            if isinstance(b, int) and b < 0 and isinstance(a, int):
                return Fraction(a) ** b
            return a ** b
        if opname == "<<":
            return a << b
        if opname == ">>":
            return a >> b
        if opname == "&":
            return a & b
        if opname == "|":
            return a | b
        if opname == "^":
            return a ^ b
        raise Unsupported("binop " + opname)

    def compare(self, opname, a, b):
        return self.world.compare(self, opname, a, b)

    def length(self, v):
        return self.world.length(self, v)

    # ---- function execution -----------------------------------------------
    def run_function(self, fv, args, kwargs):
        """Execute a repository function body; returns the value or raises PyRaise."""
        node = fv.node
        self.depth += 1
        if self.depth > self.max_depth:
            raise Unsupported("call depth exceeded in %s" % fv.qualname)
        try:
            locs = self.bind_args(fv, node, list(args), dict(kwargs))
            selfcls = fv.owner
            fr = Frame(fv, locs, fv.modname, fv.closure, selfcls)
            if isinstance(node, ast.Lambda):
                return self.eval(node.body, fr)
            if _is_generator(node):
                if self.world.config.get("generator") is not None:
                    return self.world.make_generator(self, fv, fr)
                return GenObj(fv, fr)
            try:
                self.exec_block(node.body, fr)
            except _Return as r:
                return r.v
            return None
        finally:
            self.depth -= 1

    def drive(self, gen, callback):
        """run the generator body to completion, calling callback(value) at each yield"""
        if gen.started:
            raise Unsupported("generator %s consumed twice / resumed" % gen.fv.qualname)
        gen.started = True
        gen.fr.yield_cb = callback
        self.depth += 1
        try:
            try:
                self.exec_block(gen.fv.node.body, gen.fr)
            except _Return:
                pass
            except _GenStop as g:
                if g.gen is not gen:
                    raise
        finally:
            self.depth -= 1

    def gen_items(self, gen):
        out = []
        self.drive(gen, lambda v: out.append(v))
        return out

    def bind_args(self, fv, node, args, kwargs):
        a = node.args
        locs = {}
        params = [p.arg for p in a.posonlyargs + a.args]
        if fv.bound is not None:
            args = [fv.bound] + args
        defaults = a.defaults
        ndef = len(defaults)
        for i, p in enumerate(params):
            if i < len(args):
                locs[p] = args[i]
            elif p in kwargs:
                locs[p] = kwargs.pop(p)
            else:
                di = i - (len(params) - ndef)
                if di < 0:
                    raise PyRaise(ExcVal("TypeError", ("missing argument %s" % p,)))
                locs[p] = self.eval(defaults[di], Frame(fv, {}, fv.modname, fv.closure))
        extra = args[len(params):]
        if a.vararg:
            locs[a.vararg.arg] = tuple(extra)
        elif extra:
            raise PyRaise(ExcVal("TypeError", ("too many positional arguments",)))
        for p, d in zip(a.kwonlyargs, a.kw_defaults):
            if p.arg in kwargs:
                locs[p.arg] = kwargs.pop(p.arg)
            elif d is not None:
                locs[p.arg] = self.eval(d, Frame(fv, {}, fv.modname, fv.closure))
            else:
                raise PyRaise(ExcVal("TypeError", ("missing kw argument",)))
        if a.kwarg:
            locs[a.kwarg.arg] = dict(kwargs)
        elif kwargs:
            raise PyRaise(ExcVal("TypeError", ("unexpected keyword %s" % sorted(kwargs),)))
        return locs

    # ---- statements ---------------------------------------------------------
    def exec_block(self, body, fr):
        for st in body:
            self.exec_stmt(st, fr)

    def exec_stmt(self, st, fr):
        m = getattr(self, "st_" + type(st).__name__, None)
        if m is None:
            raise Unsupported("statement %s at %s:%d" % (type(st).__name__, fr.modname, st.lineno))
        return m(st, fr)

    def st_Pass(self, st, fr):
        pass

    def st_Expr(self, st, fr):
        if isinstance(st.value, ast.Constant):
            return      # doc-string
        self.eval(st.value, fr)

    def st_Return(self, st, fr):
        v = self.eval(st.value, fr) if st.value is not None else None
        if isinstance(v, PayloadView):
            from . import builtins_impl
            v = builtins_impl.resolve_payload(self.world, self, v)
        raise _Return(v)

    def st_Break(self, st, fr):
        raise _Break()

    def st_Continue(self, st, fr):
        raise _Continue()

    def st_Import(self, st, fr):
        for a in st.names:
            if a.asname:
                fr.locs[a.asname] = ModuleRef(a.name)
            else:
                fr.locs[a.name.split(".")[0]] = ModuleRef(a.name.split(".")[0])

    def st_ImportFrom(self, st, fr):
        for a in st.names:
            fr.locs[a.asname or a.name] = self.world.module_attr(self, st.module, a.name)

    def st_FunctionDef(self, st, fr):
        f = FuncVal(None, fr.modname, closure=fr, node=st)
        f.fi = _LocalFI(st, fr.fn.qualname if fr.fn else fr.modname)
        for d in reversed(st.decorator_list):
            dv = self.eval(d, fr)
            f = self.call(dv, [f], {})
        fr.locs[st.name] = f

    def st_Assign(self, st, fr):
        v = self.eval(st.value, fr)
        for t in st.targets:
            self.assign(t, v, fr)

    def st_AnnAssign(self, st, fr):
        if st.value is not None:
            self.assign(st.target, self.eval(st.value, fr), fr)

    def st_AugAssign(self, st, fr):
        cur = self.eval(_as_load(st.target), fr)
        rhs = self.eval(st.value, fr)
        opn = _BINOPS[type(st.op)]
        if isinstance(cur, list) and opn == "+":
            cur.extend(self.world.iterate(self, rhs))     # in place, like list.__iadd__
            return
        if isinstance(cur, PrefList) and opn == "+":
            cur.items.extend(self.world.iterate(self, rhs))
            return
        self.assign(st.target, self.binop(opn, cur, rhs), fr)

    def assign(self, t, v, fr):
        if isinstance(t, ast.Name):
            self.setvar(t.id, v, fr)
        elif isinstance(t, (ast.Tuple, ast.List)):
            items = self.world.iterate(self, v)
            if any(isinstance(e, ast.Starred) for e in t.elts):
                raise Unsupported("starred assignment")
            if len(items) != len(t.elts):
                raise PyRaise(ExcVal("ValueError", ("unpack",)))
            for e, x in zip(t.elts, items):
                self.assign(e, x, fr)
        elif isinstance(t, ast.Attribute):
            o = self.eval(t.value, fr)
            self.world.setattr(self, o, t.attr, v)
        elif isinstance(t, ast.Subscript):
            o = self.eval(t.value, fr)
            k = self.eval_slice(t.slice, fr)
            self.world.setitem(self, o, k, v)
        else:
            raise Unsupported("assign target %s" % type(t).__name__)

    def setvar(self, name, v, fr):
        f = fr
        # python scoping: assignment is local unless declared nonlocal; the
        # subset has no nonlocal/global, so always local
        fr.locs[name] = v

    def st_Delete(self, st, fr):
        for t in st.targets:
            if isinstance(t, ast.Subscript):
                self.world.delitem(self, self.eval(t.value, fr), self.eval_slice(t.slice, fr))
            elif isinstance(t, ast.Name):
                fr.locs.pop(t.id, None)
            else:
                raise Unsupported("del target")

    def st_If(self, st, fr):
        c = self.truth(self.eval(st.test, fr))
        if is_sym_bool(c) and _mergeable_if(st):
            if self._merge_if(st, c, fr):
                return
        if self.in_merge:
            raise _MergeFail()
        if self.decide(c):
            self.exec_block(st.body, fr)
        else:
            self.exec_block(st.orelse, fr)

    def _merge_if(self, st, c, fr):
        """if/else whose branches only assign locals from pure expressions: executed
        on both sides and joined with If(c, ., .) instead of forking the path."""
        c = z3.simplify(c)
        if z3.is_true(c) or z3.is_false(c):
            return False
        base = dict(fr.locs)
        outer = self.in_merge
        self.in_merge = True
        try:
            results = []
            for guard, block in ((c, st.body), (z3.Not(c), st.orelse)):
                fr.locs = dict(base)
                self.merge_guards.append(guard)
                try:
                    self.exec_block(block, fr)
                finally:
                    self.merge_guards.pop()
                results.append(fr.locs)
        except _MergeFail:
            fr.locs = base
            self.in_merge = outer
            return False
        finally:
            self.in_merge = outer
        lb, le = results
        merged = dict(base)
        for name in set(lb) | set(le):
            vb, ve = lb.get(name, _MISSING), le.get(name, _MISSING)
            if vb is ve:
                merged[name] = vb
                continue
            m = _ite(c, vb, ve)
            if m is _MISSING:
                fr.locs = base
                return False
            merged[name] = m
        fr.locs = merged
        return True

    def st_Assert(self, st, fr):
        c = self.truth(self.eval(st.test, fr))
        if self.in_merge:
            # inside a merged branch: fine only if the assertion cannot fail under the branch guards
            if isinstance(c, bool):
                if c:
                    return
                raise _MergeFail()
            if self.feasible(z3.And(self.merge_guards + [z3.Not(c)])):
                raise _MergeFail()
            return
        if not self.decide(c):
            raise PyRaise(ExcVal("AssertionError"))

    def st_Raise(self, st, fr):
        if st.exc is None:
            cur = getattr(fr, "handling", None)
            if cur is None:
                raise Unsupported("bare raise outside handler")
            raise PyRaise(cur)
        v = self.eval(st.exc, fr)
        if isinstance(v, ExcClass):
            v = ExcVal(v.name)
        if not isinstance(v, ExcVal):
            raise Unsupported("raise of %r" % (v,))
        raise PyRaise(v)

    def exc_matches(self, exc, spec):
        names = []
        if isinstance(spec, ExcClass):
            names = [spec.name]
        elif isinstance(spec, tuple):
            names = [s.name for s in spec]
        else:
            raise Unsupported("except spec %r" % (spec,))
        c = exc.cls
        while c is not None:
            if c in names:
                return True
            c = self.world.exc_parent(c)
        return False

    def st_Try(self, st, fr):
        try:
            try:
                self.exec_block(st.body, fr)
            except PyRaise as pr:
                for h in st.handlers:
                    if h.type is None or self.exc_matches(pr.exc, self.eval(h.type, fr)):
                        if h.name:
                            fr.locs[h.name] = pr.exc
                        old = getattr(fr, "handling", None)
                        fr.handling = pr.exc
                        try:
                            self.exec_block(h.body, fr)
                        finally:
                            fr.handling = old
                        break
                else:
                    raise
            else:
                self.exec_block(st.orelse, fr)
        finally:
            if st.finalbody:
                self.exec_block(st.finalbody, fr)

    def st_With(self, st, fr):
        """with E [as v], ...: body  -  E.__enter__() on entry; E.__exit__(None, None, None) when the body ends, returns, breaks or
        continues; E.__exit__(type, value, None) when it raises (the exception goes on unless __exit__ answers a true value)"""
        mgrs = []
        for item in st.items:
            ctx = self.eval(item.context_expr, fr)
            entered = self.call(self.world.getattr(self, ctx, "__enter__"), [], {}, st)
            if item.optional_vars is not None:
                self.assign(item.optional_vars, entered, fr)
            mgrs.append(ctx)

        def leave(exc):
            swallowed = False
            for ctx in reversed(mgrs):
                a = [None, None, None] if exc is None or swallowed else [ExcClass(exc.cls), exc, None]
                r = self.call(self.world.getattr(self, ctx, "__exit__"), a, {}, st)
                if exc is not None and not swallowed and r is not None and self.decide(self.truth(r)):
                    swallowed = True
            return swallowed
        try:
            self.exec_block(st.body, fr)
        except PyRaise as pr:
            if not leave(pr.exc):
                raise
            return
        except (_Return, _Break, _Continue):
            leave(None)
            raise
        leave(None)

    def st_While(self, st, fr):
        inv = self.world.loop_contract(self, fr, st)
        if inv is not None:
            return inv.run(self, st, fr)
        n = 0
        while True:
            c = self.truth(self.eval(st.test, fr))
            if not self.decide(c):
                break
            n += 1
            if n > self.loop_bound:
                self.notes.append("loop-bound")
                raise PathAbort("loop-bound")
            try:
                self.exec_block(st.body, fr)
            except _Break:
                return
            except _Continue:
                continue
        self.exec_block(st.orelse, fr)

    def st_For(self, st, fr):
        inv = self.world.loop_contract(self, fr, st)
        if inv is not None:
            return inv.run(self, st, fr)
        it = self.eval(st.iter, fr)
        if isinstance(it, GenObj):
            def cb(x):
                self.assign(st.target, x, fr)
                try:
                    self.exec_block(st.body, fr)
                except _Break:
                    raise _GenStop(it)
                except _Continue:
                    pass
                return None
            stopped = False
            try:
                if it.started:
                    raise Unsupported("generator consumed twice")
                it.started = True
                it.fr.yield_cb = cb
                self.depth += 1
                try:
                    self.exec_block(it.fv.node.body, it.fr)
                except _Return:
                    pass
                finally:
                    self.depth -= 1
            except _GenStop as g:
                if g.gen is not it:
                    raise
                stopped = True
            if not stopped:
                self.exec_block(st.orelse, fr)
            return
        items = self.world.iterate(self, it)
        for x in items:
            self.assign(st.target, x, fr)
            try:
                self.exec_block(st.body, fr)
            except _Break:
                return
            except _Continue:
                continue
        self.exec_block(st.orelse, fr)

    def st_Global(self, st, fr):
        raise Unsupported("global")

    def st_Nonlocal(self, st, fr):
        raise Unsupported("nonlocal")

    # ---- expressions --------------------------------------------------------
    def eval(self, e, fr):
        m = getattr(self, "ev_" + type(e).__name__, None)
        if m is None:
            raise Unsupported("expression %s at %s:%d" % (type(e).__name__, fr.modname, getattr(e, "lineno", 0)))
        return m(e, fr)

    def ev_Constant(self, e, fr):
        v = e.value
        if isinstance(v, float):
            return FloatVal.exact(Fraction(v))
        return v

    def ev_Name(self, e, fr):
        f = fr
        while f is not None:
            if e.id in f.locs:
                return f.locs[e.id]
            f = f.closure
        return self.world.global_name(self, fr.modname, e.id)

    def ev_Attribute(self, e, fr):
        o = self.eval(e.value, fr)
        return self.world.getattr(self, o, e.attr)

    def ev_Tuple(self, e, fr):
        return tuple(self.eval_elts(e.elts, fr))

    def ev_List(self, e, fr):
        return list(self.eval_elts(e.elts, fr))

    def eval_elts(self, elts, fr):
        out = []
        for x in elts:
            if isinstance(x, ast.Starred):
                out.extend(self.world.iterate(self, self.eval(x.value, fr)))
            else:
                out.append(self.eval(x, fr))
        return out

    def ev_Set(self, e, fr):
        return self.world.make_set(self, self.eval_elts(e.elts, fr))

    def ev_Dict(self, e, fr):
        d = self.world.make_dict(self, [])
        for k, v in zip(e.keys, e.values):
            if k is None:
                raise Unsupported("dict unpacking")
            self.world.setitem(self, d, self.eval(k, fr), self.eval(v, fr))
        return d

    def ev_BinOp(self, e, fr):
        a = self.eval(e.left, fr)
        b = self.eval(e.right, fr)
        return self.binop(_BINOPS[type(e.op)], a, b)

    def ev_UnaryOp(self, e, fr):
        v = self.eval(e.operand, fr)
        if isinstance(e.op, ast.Not):
            t = self.truth(v)
            return (not t) if isinstance(t, bool) else z3.Not(t)
        if isinstance(v, PayloadView):
            from . import builtins_impl
            v = builtins_impl.resolve_payload(self.world, self, v)
        if isinstance(e.op, ast.USub):
            if isinstance(v, FloatVal):
                return v.neg()
            if concrete(v):
                return -v
            if is_node(v):
                return self.world.node_dunder(self, v, "__neg__", [])
            return -v
        if isinstance(e.op, ast.UAdd):
            return v
        if isinstance(e.op, ast.Invert):
            if concrete(v):
                return ~v
            if is_node(v):
                return self.world.node_dunder(self, v, "__invert__", [])
            return -to_int(v) - 1
        raise Unsupported("unary op")

    def ev_BoolOp(self, e, fr):
        # short-circuit with Python value semantics (result is an operand)
        is_and = isinstance(e.op, ast.And)
        vals = e.values
        cur = self.eval(vals[0], fr)
        for nxt in vals[1:]:
            t = self.truth(cur)
            if isinstance(t, bool):
                if is_and and not t:
                    return cur
                if (not is_and) and t:
                    return cur
                cur = self.eval(nxt, fr)
                continue
            # symbolic truth value
            if _pure_expr(nxt) and is_sym_bool(cur):
                # `b or False`, `a and b` on Booleans with a side-effect-free right operand: no fork
                nv = self.eval(nxt, fr)
                if isinstance(nv, bool) or is_sym_bool(nv):
                    nz = nv if is_sym_bool(nv) else z3.BoolVal(nv)
                    cur = z3.And(cur, nz) if is_and else z3.Or(cur, nz)
                    continue
                if self.decide(t):
                    if is_and:
                        cur = nv
                        continue
                    return True
                if is_and:
                    return False
                cur = nv
                continue
            if self.decide(t):
                if is_and:
                    cur = self.eval(nxt, fr)
                else:
                    return cur if not is_sym_bool(cur) else True
            else:
                if is_and:
                    return cur if not is_sym_bool(cur) else False
                cur = self.eval(nxt, fr)
        return cur

    def ev_IfExp(self, e, fr):
        c = self.truth(self.eval(e.test, fr))
        if self.decide(c):
            return self.eval(e.body, fr)
        return self.eval(e.orelse, fr)

    def ev_Compare(self, e, fr):
        left = self.eval(e.left, fr)
        res = None
        for opn, rhs in zip(e.ops, e.comparators):
            right = self.eval(rhs, fr)
            c = self.compare(_CMPOPS[type(opn)], left, right)
            if res is None:
                res = c
            else:
                if isinstance(res, bool) and isinstance(c, bool):
                    res = res and c
                else:
                    res = z3.And(to_bool(res), to_bool(c))
            left = right
        return res

    def ev_Call(self, e, fr):
        # typing.cast(T, x) is dropped (see DESIGN 2.1)
        if isinstance(e.func, ast.Name) and e.func.id == "cast" and len(e.args) == 2:
            return self.eval(e.args[1], fr)
        f = self.eval(e.func, fr)
        args = []
        for a in e.args:
            if isinstance(a, ast.Starred):
                args.extend(self.world.iterate(self, self.eval(a.value, fr)))
            else:
                v = self.eval(a, fr)
                if isinstance(v, PayloadView):
                    from . import builtins_impl
                    v = builtins_impl.resolve_payload(self.world, self, v)
                args.append(v)
        kwargs = {}
        for k in e.keywords:
            if k.arg is None:
                d = self.eval(k.value, fr)
                if isinstance(d, dict):
                    kwargs.update(d)
                else:
                    raise Unsupported("**kwargs of %r" % (d,))
            else:
                kwargs[k.arg] = self.eval(k.value, fr)
        return self.call(f, args, kwargs, site=e)

    def call(self, f, args, kwargs, site=None):
        return self.world.call(self, f, args, kwargs, site)

    def eval_slice(self, s, fr):
        if isinstance(s, ast.Slice):
            return slice(self.eval(s.lower, fr) if s.lower else None,
                         self.eval(s.upper, fr) if s.upper else None,
                         self.eval(s.step, fr) if s.step else None)
        return self.eval(s, fr)

    def ev_Subscript(self, e, fr):
        o = self.eval(e.value, fr)
        k = self.eval_slice(e.slice, fr)
        return self.world.getitem(self, o, k)

    def ev_Lambda(self, e, fr):
        f = FuncVal(None, fr.modname, closure=fr, node=e)
        f.fi = _LocalFI(e, (fr.fn.qualname if fr.fn else fr.modname) + ".<lambda>")
        return f

    def _comp(self, gens, fr, body):
        """generic comprehension: list of results"""
        out = []

        def rec(i, f):
            if i == len(gens):
                out.append(body(f))
                return
            g = gens[i]
            items = self.world.iterate(self, self.eval(g.iter, f))
            for x in items:
                f2 = Frame(f.fn, {}, f.modname, f)
                self.assign(g.target, x, f2)
                ok = True
                for c in g.ifs:
                    if not self.decide(self.truth(self.eval(c, f2))):
                        ok = False
                        break
                if ok:
                    rec(i + 1, f2)
        rec(0, fr)
        return out

    def ev_ListComp(self, e, fr):
        return self._comp(e.generators, fr, lambda f: self.eval(e.elt, f))

    def ev_GeneratorExp(self, e, fr):
        return self._comp(e.generators, fr, lambda f: self.eval(e.elt, f))

    def ev_SetComp(self, e, fr):
        return self.world.make_set(self, self._comp(e.generators, fr, lambda f: self.eval(e.elt, f)))

    def ev_DictComp(self, e, fr):
        d = self.world.make_dict(self, [])
        for k, v in self._comp(e.generators, fr, lambda f: (self.eval(e.key, f), self.eval(e.value, f))):
            self.world.setitem(self, d, k, v)
        return d

    def ev_JoinedStr(self, e, fr):
        parts = []
        for v in e.values:
            if isinstance(v, ast.Constant):
                parts.append(v.value)
            else:
                parts.append(self.world.to_str(self, self.eval(v.value, fr)))
        return self.world.str_concat(self, parts)

    def ev_Starred(self, e, fr):
        raise Unsupported("starred expression")

    def ev_Yield(self, e, fr):
        v = self.eval(e.value, fr) if e.value is not None else None
        cb = getattr(fr, "yield_cb", None)
        if cb is not None:
            return cb(v)
        return self.world.on_yield(self, fr, v)

    def ev_NamedExpr(self, e, fr):
        v = self.eval(e.value, fr)
        self.assign(e.target, v, fr)
        return v


class _MergeFail(Exception):
    pass


_MISSING = object()


def _ite(c, a, b):
    """join of two values under condition c; _MISSING when they cannot be joined"""
    if a is _MISSING or b is _MISSING:
        return _MISSING
    if isinstance(a, (bool, int, str, Fraction)) and isinstance(b, (bool, int, str, Fraction)) and type(a) == type(b) and a == b:
        return a
    try:
        za = a if is_z3(a) else z3const(a)
        zb = b if is_z3(b) else z3const(b)
    except Unsupported:
        return _MISSING
    if za.sort() != zb.sort():
        return _MISSING
    return z3.If(c, za, zb)


_PURE_CACHE = {}


def _pure_expr(e):
    """expression without calls / side effects (attribute reads of plain fields included)"""
    k = id(e)
    r = _PURE_CACHE.get(k)
    if r is None:
        if isinstance(e, (ast.Constant, ast.Name)):
            r = True
        elif isinstance(e, ast.Attribute):
            r = isinstance(e.value, ast.Name)
        elif isinstance(e, ast.BoolOp):
            r = all(_pure_expr(v) for v in e.values)
        elif isinstance(e, ast.UnaryOp):
            r = isinstance(e.op, ast.Not) and _pure_expr(e.operand)
        elif isinstance(e, ast.Compare):
            r = _pure_expr(e.left) and all(_pure_expr(c) for c in e.comparators) and \
                all(isinstance(o, (ast.Eq, ast.NotEq, ast.Lt, ast.LtE, ast.Gt, ast.GtE, ast.Is, ast.IsNot)) for o in e.ops)
        elif isinstance(e, ast.IfExp):
            r = _pure_expr(e.test) and _pure_expr(e.body) and _pure_expr(e.orelse)
        else:
            r = False
        _PURE_CACHE[k] = r
    return r


_MERGE_CACHE = {}


def _mergeable_block(body):
    for st in body:
        if isinstance(st, ast.Pass):
            continue
        if isinstance(st, ast.Assign):
            if not (all(isinstance(t, ast.Name) for t in st.targets) and _pure_expr(st.value)):
                return False
        elif isinstance(st, ast.Assert):
            if not _pure_expr(st.test):
                return False
        elif isinstance(st, ast.If):
            if not _mergeable_if(st):
                return False
        else:
            return False
    return True


def _mergeable_if(st):
    k = id(st)
    r = _MERGE_CACHE.get(k)
    if r is None:
        r = _pure_expr(st.test) and _mergeable_block(st.body) and _mergeable_block(st.orelse)
        _MERGE_CACHE[k] = r
    return r


_GEN_CACHE = {}


def _is_generator(node):
    r = _GEN_CACHE.get(id(node))
    if r is None:
        r = False
        stack = list(ast.iter_child_nodes(node))
        while stack:
            n = stack.pop()
            if isinstance(n, (ast.Yield, ast.YieldFrom)):
                r = True
                break
            if isinstance(n, (ast.FunctionDef, ast.Lambda)):
                continue
            stack.extend(ast.iter_child_nodes(n))
        _GEN_CACHE[id(node)] = r
    return r


class _LocalFI:
    """FuncInfo stand-in for nested defs / lambdas"""
    def __init__(self, node, outer):
        self.node = node
        self.qualname = "%s.<locals>.%s" % (outer, getattr(node, "name", "lambda"))
        self.cls = None
        self.module = None
        self.decorators = []

    @property
    def name(self):
        return getattr(self.node, "name", "<lambda>")


class FloatVal:
    """A Python float.  Exact rational when known (|x| <= 2**53 integers and
    dyadic constants); otherwise a z3 Real inside a rounding enclosure."""
    def __init__(self, r=None, sym=None):
        self.r, self.sym = r, sym

    @staticmethod
    def exact(r):
        return FloatVal(r=Fraction(r))

    def neg(self):
        return FloatVal(r=-self.r) if self.r is not None else FloatVal(sym=-self.sym)

    def __repr__(self):
        return "<float %s>" % (self.r if self.r is not None else self.sym)


def _as_load(t):
    import copy
    t2 = copy.copy(t)
    t2.ctx = ast.Load()
    return t2


_BINOPS = {ast.Add: "+", ast.Sub: "-", ast.Mult: "*", ast.Div: "/", ast.FloorDiv: "//",
           ast.Mod: "%", ast.Pow: "**", ast.LShift: "<<", ast.RShift: ">>",
           ast.BitAnd: "&", ast.BitOr: "|", ast.BitXor: "^"}
_CMPOPS = {ast.Eq: "==", ast.NotEq: "!=", ast.Lt: "<", ast.LtE: "<=", ast.Gt: ">",
           ast.GtE: ">=", ast.Is: "is", ast.IsNot: "is not", ast.In: "in", ast.NotIn: "not in"}
