"""Aggregation of results: replay of counter-models, known findings, VIOLATION
lines, evidence files."""
import hashlib
import importlib
import json
import os
import subprocess
import sys
import time

ROOT = os.path.dirname(os.path.dirname(os.path.abspath(__file__)))
REPO = os.environ.get("PYVC_REPO", "/repo")
NATIVE_PY = os.environ.get("PYVC_NATIVE_PY", "/venv/bin/python")

LEVELS = {}        # property -> evidence level (filled from contracts/registry levels)


def known_findings():
    p = os.path.join(ROOT, "known_findings.json")
    if os.path.exists(p):
        return json.load(open(p))
    return {"known": [], "fixed": []}


def native(cmd_args, timeout=900):
    env = dict(os.environ, PYTHONPATH=REPO + ":" + ROOT)
    try:
        return subprocess.run([NATIVE_PY] + cmd_args, env=env, capture_output=True, text=True, timeout=timeout, cwd=ROOT)
    except subprocess.TimeoutExpired:
        # a native run that does not finish is not a verdict: no failing input was found (the caller reports the refuted
        # obligation without one); returncode 2 = undecided
        return subprocess.CompletedProcess(cmd_args, 2, stdout="", stderr="native run timed out after %d s" % timeout)


def replay_file(path):
    out = native([os.path.join(ROOT, "native", "replay.py"), path])
    sys.stdout.write(out.stdout)
    if out.returncode not in (0, 1):
        sys.stderr.write(out.stderr)
        return 3
    return out.returncode


def write_replay(prop, o, r, kind):
    os.makedirs(os.path.join(ROOT, "replays"), exist_ok=True)
    h = hashlib.sha256(o["name"].encode()).hexdigest()[:10]
    path = os.path.join(ROOT, "replays", "%s-%s.json" % (prop, h))
    rep = {"property": prop, "obligation": o["name"], "function": r.get("qualname"), "source_sha": r.get("sha"),
           "variant": r.get("variant"),
           "kind": kind, "status": o["status"], "outcome": o.get("outcome"), "witness": o.get("model"),
           "path_condition": o.get("pc"), "solver": {"backend": o.get("backend"), "reason": o.get("reason")},
           "smt2": (o.get("smt2") or "")[:200000],
           "replay_cmd": "./vcheck %s --replay %s" % (prop, os.path.relpath(path, ROOT))}
    json.dump(rep, open(path, "w"), indent=1, default=str)
    return path, rep


def run_extras(prop, tier, seed, modules):
    """bounded stand-ins and native cross-checks declared by the contract modules"""
    out = []
    for modname in modules:
        mod = importlib.import_module(modname)
        f = getattr(mod, "extras", None)
        if f is None:
            continue
        for e in f(prop, tier, seed):
            out.append(e)
    return out


def run_bounded(name, tier, seed, timeout=1500):
    """run one bounded stand-in of native/bounded.py; -> dict for evidence (+ 'violations')"""
    out = native([os.path.join(ROOT, "native", "bounded.py"), name, tier, str(seed)], timeout=timeout)
    try:
        return json.loads(out.stdout.strip().split("\n")[-1])
    except Exception:
        return {"name": name, "evaluations": 0, "distinct_nontrivial": 0, "rule": "bounded check crashed",
                "samples": [], "violations": [{"key": "crash", "detail": (out.stderr or out.stdout)[-1500:]}]}


def match_known(prop, qualname, oname, detail, kf):
    """a refuted obligation is a known finding iff an entry lists this function
    and clause and the replayed witness is of the listed class"""
    for k in kf.get("known", []):
        if k["property"] != prop:
            continue
        if k.get("bounded_check") or not (k.get("function") or k.get("clause")):
            continue          # findings of bounded checks never excuse a refuted obligation
        if k.get("class"):
            # carved out as a witness class by the variant itself (harness: the obligation must be proved outside the
            # class and then has status 'known'); an obligation that is still 'refuted' lies outside the class
            continue
        if k.get("function") and k["function"] != qualname:
            continue
        if k.get("clause") and ("/" + k["clause"]) not in oname and not oname.endswith(k["clause"]):
            continue
        if k.get("variant") and k["variant"] not in oname:
            continue
        return k
    return None


def conclude(prop, tier, seed, results, extras, wall, partial=False):
    kf = known_findings()
    crashes = [r for r in results if "crash" in r]
    if crashes:
        for c in crashes:
            sys.stderr.write(c["crash"])
        print("CHECKER-CRASH property=%s" % prop)
        return 3
    bad_runs = [e for e in extras if any(v.get("key") == "crash" for v in e.get("violations", []))]
    for e in bad_runs:
        # a bounded stand-in that crashed or ran out of time has not decided anything: never a violation (exit 3 below unless
        # something else was refuted)
        sys.stderr.write("bounded check %s did not finish: %s\n" % (e.get("name"), [v.get("detail") for v in e["violations"] if v.get("key") == "crash"][0]))
        e["violations"] = [v for v in e["violations"] if v.get("key") != "crash"]
    nob = ndis = 0
    known_hits = {}
    by_backend = {}
    solver_s = 0.0
    refuted, undecided, unsupported = [], [], []
    funcs = {}
    bounded_width, bounded_arity = set(), set()
    assumptions = set()
    samples = []
    for r in results:
        fq = r.get("qualname")
        fe = funcs.setdefault(fq, {"function": fq, "source_sha": r.get("sha"), "paths": 0, "obligations": 0,
                                   "variants": 0})
        fe["paths"] += r["paths"]
        fe["variants"] += 1
        if r.get("unsupported"):
            unsupported.append(r)
        if r.get("bounded") == "width":
            bounded_width.add(r["variant"])
        if r.get("bounded") == "arity":
            bounded_arity.add(r["variant"])
        for n in r.get("notes", []):
            assumptions.add("bounded cut in %s: %s" % (r["variant"], n))
        for o in r["obligations"]:
            cl = o["name"].rsplit("/", 1)[1]
            if cl[:1] == "C" and cl[3:4] == ":" and cl[:3] != prop:
                continue          # clause that belongs to another property's check
            nob += 1
            fe["obligations"] += 1
            solver_s += o.get("time", 0)
            if o["status"] == "proved":
                ndis += 1
                by_backend[o["backend"]] = by_backend.get(o["backend"], 0) + 1
                if len(samples) < 3 and "value" in o["name"]:
                    samples.append({"obligation": o["name"], "status": "proved", "backend": o["backend"]})
            elif o["status"] == "known":
                nob -= 1          # carved out: reported as a known finding, not as an obligation of the proof
                kid = o.get("known_id")
                kk = [k for k in kf.get("known", []) if k["id"] == kid]
                if kk:
                    known_hits.setdefault(kid, {"k": kk[0], "obls": []})["obls"].append(o["name"])
            elif o["status"] == "refuted":
                refuted.append((r, o))
            else:
                undecided.append((r, o))
    violations = []
    stale = []
    # replay every refuted obligation natively
    kinds = {}
    seen_classes = set()
    replayed = 0
    search_cache = {}
    SEARCH_KINDS = ("smtlib-solver", "hashcons", "optimizer-loop", "oracle", "cnf", "walker", "sort-identity", "parser-reset", "walker-keys", "annotations", "factory", "parser-declare", "factory-registration", "model-plural")
    MAX_REPLAYS = 12          # native replays per run; further refutations are reported without one
    for r, o in refuted:
        key = (r["variant"], o["name"].rsplit("/", 1)[1])
        if replayed >= MAX_REPLAYS and match_known(prop, r.get("qualname"), o["name"], None, kf) is None:
            path, rep = write_replay(prop, o, r, "not-replayed")
            violations.append((path, False, o["name"], {"note": "refuted obligation; native replay budget of this run used up"}))
            continue
        if key in seen_classes and len(seen_classes) > 6:
            # same function and clause as an already replayed refutation: report, do not replay again
            path, rep = write_replay(prop, o, r, "same-class")
            violations.append((path, False, o["name"], {"note": "same function and clause as an earlier refutation"}))
            continue
        seen_classes.add(key)
        mod = importlib.import_module(r["module"])
        kind = r.get("replay_kind") or getattr(mod, "REPLAY_KIND", "generic")
        path, rep = write_replay(prop, o, r, kind)
        k = match_known(prop, r.get("qualname"), o["name"], None, kf)
        if k is not None:
            known_hits.setdefault(k["id"], {"k": k, "obls": [], "replay": path})["obls"].append(o["name"])
            continue
        ckey = kind
        if kind == "rewriter":
            # the rewriter replay is a search too (the partitions have their own first)
            ckey = "rewriter/partition" if str(r.get("variant", "")).startswith("partition:") else "rewriter"
        if (kind in SEARCH_KINDS or kind == "rewriter") and ckey in search_cache:
            out = search_cache[ckey]       # the replay of this kind is a search that does not depend on the obligation
        else:
            out = native([os.path.join(ROOT, "native", "replay.py"), path], timeout=600)
            replayed += 1
            search_cache[ckey] = out
        confirmed = out.returncode == 1
        try:
            detail = json.loads(out.stdout.strip().split("\n")[-1]) if out.stdout.strip() else {}
        except Exception:
            detail = {"raw": out.stdout[-2000:], "stderr": out.stderr[-2000:]}
        rep["native_replay"] = detail
        json.dump(rep, open(path, "w"), indent=1, default=str)
        violations.append((path, confirmed, o["name"], detail))
    for r, o in undecided:
        path, rep = write_replay(prop, o, r, "undecided")
    # known findings: must still fail on the real code (otherwise the entry is stale)
    for kid, h in list(known_hits.items()):
        chk = h["k"].get("native_check")
        if chk:
            out = native([os.path.join(ROOT, "native", "known.py"), chk])
            if out.returncode != 1:
                stale.append(kid)
        print("KNOWN-FINDING: property=%s %s" % (prop, h["k"]["what"]))
    for k in kf.get("known", []):
        if k["property"] == prop and k["id"] not in known_hits and not partial and k.get("source") == "obligation":
            stale.append(k["id"])
    ok_extras = True
    bounded_checks = []
    for e in extras:
        bounded_checks.append({k: v for k, v in e.items() if k != "violations"})
        for v in e.get("violations", []):
            kk = None
            for k in kf.get("known", []):
                if k["property"] == prop and k.get("bounded_check") == e["name"] and k.get("witness_key") == v.get("key"):
                    kk = k
            if kk is not None:
                if kk["id"] not in known_hits:
                    known_hits[kk["id"]] = {"k": kk}
                    print("KNOWN-FINDING: property=%s %s" % (prop, kk["what"]))
                continue
            ok_extras = False
            os.makedirs(os.path.join(ROOT, "replays"), exist_ok=True)
            h = hashlib.sha256((e["name"] + json.dumps(v, default=str)).encode()).hexdigest()[:10]
            path = os.path.join(ROOT, "replays", "%s-b%s.json" % (prop, h))
            json.dump({"property": prop, "kind": "bounded", "check": e["name"], "witness": v,
                       "replay_cmd": v.get("replay_cmd")}, open(path, "w"), indent=1, default=str)
            violations.append((path, True, e["name"], v))
    code = 0
    for path, confirmed, name, detail in violations:
        code = 1
        rel = os.path.relpath(path, ROOT)
        if confirmed:
            print("VIOLATION property=%s replay=%s obligation=%s" % (prop, rel, name))
        else:
            print("VIOLATION property=%s replay=%s obligation=%s no-failing-input-found" % (prop, rel, name))
    if code == 0 and (undecided or unsupported):
        code = 2
        for r, o in undecided:
            print("UNDECIDED property=%s obligation=%s reason=%s" % (prop, o["name"], o.get("reason")))
        for r in unsupported:
            print("OUT-OF-REACH property=%s variant=%s: %s" % (prop, r["variant"], r["unsupported"]))
    if bad_runs:
        print("CHECKER-CRASH property=%s (bounded check %s did not finish%s)" % (prop, ", ".join(e.get("name", "?") for e in bad_runs),
                                                                               "; the violations above stand" if code == 1 else ""))
        if code != 1:
            code = 3
    if stale:
        print("STALE-KNOWN-FINDING property=%s ids=%s (listed as known but no obligation fails any more)" % (prop, stale))
    if nob == 0 and not extras:
        print("NO-OBLIGATIONS property=%s: the check generated nothing" % prop)
        code = max(code, 3)
    if not partial:
        write_evidence(prop, tier, seed, wall, nob, ndis, by_backend, solver_s, funcs, bounded_width,
                       bounded_arity, bounded_checks, assumptions, samples, violations, known_hits,
                       undecided, unsupported, results)
    print("property=%s tier=%s obligations=%d discharged=%d refuted=%d undecided=%d out-of-reach=%d known=%d wall=%.1fs exit=%d"
          % (prop, tier, nob, ndis, len(refuted), len(undecided), len(unsupported), len(known_hits), wall, code))
    return code


def write_evidence(prop, tier, seed, wall, nob, ndis, by_backend, solver_s, funcs, bw, ba, bounded_checks,
                   assumptions, samples, violations, known_hits, undecided, unsupported, results):
    from pyvc import builtins_impl
    meta = {}
    mp = os.path.join(ROOT, "contracts", "levels.json")
    if os.path.exists(mp):
        meta = json.load(open(mp)).get(prop, {})
    level = meta.get("level", "proof")
    used_contracts, inlined = set(), set()
    for r in results:
        used_contracts |= set(r.get("contracts_used", []))
        inlined |= set(r.get("inlined", []))
    nknown_obl = sum(len(h.get("obls", [])) for h in known_hits.values())
    cov = {
        "obligations": nob,
        "discharged": ndis,
        "known_finding_obligations": nknown_obl,
        "checker_cmd": "./vcheck %s --tier %s" % (prop, tier),
        "trusted_base": meta.get("trusted_base", []) + [
            "z3 %s (unsat answers)" % _z3v(), "cvc5 1.0.3 for z3 'unknown'",
            "pyvc symbolic executor's model of the Python subset (DESIGN 2.2-2.3)",
            "specification theory /verif/pyvc/spec.py (reading of SMT-LIB 2.6)",
            "CPython for native replays"],
        "by_backend": by_backend,
        "solver_s": round(solver_s, 2),
        "functions_under_contract": sorted(funcs.values(), key=lambda f: f["function"] or ""),
        "callee_contracts_used": sorted(used_contracts),
        "inlined_from_real_source": sorted(inlined),
        "bounded_width": sorted(bw),
        "bounded_arity": sorted(ba),
        "bounded_checks": bounded_checks,
        "samples": samples or [{"note": "no sample recorded"}],
        "known_findings": sorted(known_hits),
        "undecided": [o["name"] for _, o in undecided],
        "out_of_reach": [r["variant"] + ": " + str(r["unsupported"]) for r in unsupported],
        "explanation": meta.get("explanation", ""),
    }
    ev_total = sum(b.get("evaluations", 0) for b in bounded_checks)
    dn_total = sum(b.get("distinct_nontrivial", 0) for b in bounded_checks)
    if level in ("exploration", "other") or ev_total:
        cov["evaluations"] = max(ev_total, 1) if level == "exploration" else ev_total
        cov["distinct_nontrivial"] = dn_total
        cov["rule"] = meta.get("rule", "see bounded_checks[*].rule")
    ass = sorted(assumptions) + meta.get("assumptions", [])
    ass += ["assumed Python semantics: " + ", ".join(sorted(builtins_impl.ASSUMED))] if builtins_impl.ASSUMED else []
    for h in known_hits.values():
        ass.append("known finding carved out: " + h["k"]["what"])
    ev = {"property_id": prop, "tier": tier if tier in ("quick", "thorough") else "quick", "seed": seed,
          "level": level, "coverage": cov, "assumptions": ass, "wall_s": round(wall, 2),
          "violations": len(violations)}
    evdir = os.environ.get("PYVC_EVIDENCE_DIR") or os.path.join(ROOT, "evidence")      # (development runs on scratch copies)
    os.makedirs(evdir, exist_ok=True)
    json.dump(ev, open(os.path.join(evdir, "%s.json" % prop), "w"), indent=1, default=str)


def _z3v():
    try:
        import z3
        return z3.get_version_string()
    except Exception:
        return "?"
