"""vcheck driver: runs the contract modules of one property, decides the exit
code, writes evidence and replay files.

exit 0 all obligations proved (and bounded stand-ins passed; known findings printed)
exit 1 VIOLATION (line printed)    exit 2 undecided     exit 3 checker crash"""
import argparse
import hashlib
import importlib
import json
import multiprocessing as mp
import os
import sys
import time
import traceback

ROOT = os.path.dirname(os.path.dirname(os.path.abspath(__file__)))
sys.path.insert(0, ROOT)

PROPS = {
    # property -> list of contract modules (each: variants(world, tier) and optional extras(tier))
    "C01": ["contracts.c01_simplifier"],
    "C02": ["contracts.c01_simplifier", "contracts.c02_model"],
    "C03": ["contracts.c03_typechecker", "contracts.c06_constructors", "contracts.c04_hashcons", "contracts.c14_walkers"],
    "C04": ["contracts.c04_hashcons", "contracts.c06_constructors", "contracts.c05_substitution", "contracts.c14_walkers"],
    "C05": ["contracts.c05_substitution", "contracts.c14_walkers"],
    "C06": ["contracts.c06_constructors"],
    "C07": ["contracts.c07_printers"],
    "C08": ["contracts.c08_parser"],
    "C09": ["contracts.c08_parser", "contracts.c09_roundtrip", "contracts.c07_printers"],
    "C10": ["contracts.c10_rewriters", "contracts.c10_qelim"],
    "C11": ["contracts.c11_cnf"],
    "C12": ["contracts.c12_oracles"],
    "C13": ["contracts.c13_logics"],
    "C14": ["contracts.c14_walkers", "contracts.c13_logics", "contracts.c12_oracles", "contracts.c04_hashcons", "contracts.c08_parser"],
    "C15": ["contracts.c14_walkers", "contracts.c16_tracking", "contracts.c04_hashcons", "contracts.c08_parser", "contracts.c17_smtlib_solver"],
    "C16": ["contracts.c16_tracking", "contracts.c16_script"],
    "C17": ["contracts.c17_smtlib_solver"],
    "C18": ["contracts.c18_optimizer", "contracts.c18_loop", "contracts.c18_multi", "contracts.c06_constructors"],
    "C20": ["contracts.c14_walkers", "contracts.c10_rewriters", "contracts.c07_printers", "contracts.c11_cnf"],
}


def load_registry():
    reg = os.path.join(ROOT, "contracts", "registry.json")
    if os.path.exists(reg):
        PROPS.update(json.load(open(reg)))


_W = {}


def _world():
    if "w" not in _W:
        from pyvc.repo import Repo
        from contracts import core
        repo = Repo()
        probe = os.environ.get("PYVC_PROBE_FILE")
        if probe and os.path.exists(probe):
            repo._probe = json.load(open(probe))
        _W["repo"] = repo
        _W["w"] = core.make_world(repo)
    return _W["repo"], _W["w"]


def _run_one(task):
    modname, idx, tier, deadline = task
    try:
        import z3
        z3.set_param("smt.random_seed", 0)
        from pyvc.harness import run_variant
        repo, W = _world()
        mod = importlib.import_module(modname)
        vs = mod.variants(W, tier=tier)
        v = vs[idx]
        r = run_variant(repo, W, v, deadline_s=deadline)
        r["module"] = modname
        fi = repo.func(v.qualname) if v.qualname else None
        r["sha"] = fi.sha if fi else None
        return r
    except BaseException as e:      # a crash of the checker is reported as such (exit 3)
        return {"crash": traceback.format_exc(), "module": modname, "index": idx}


def _child(task, outfile):
    r = _run_one(task)
    with open(outfile, "w") as f:
        json.dump(r, f, default=str)


def run_tasks(tasks, names, jobs, work):
    """One OS process per variant (a solver that hangs or dies cannot take the
    run with it); hard wall-clock limit = the variant's budget + 90 s."""
    pending = list(enumerate(tasks))
    running = {}
    results = []
    while pending or running:
        while pending and len(running) < jobs:
            i, t = pending.pop(0)
            out = os.path.join(work, "res-%d-%d.json" % (os.getpid(), i))
            p = mp.Process(target=_child, args=(t, out))
            p.start()
            running[i] = (p, time.time(), t, out)
        time.sleep(0.05)
        for i in list(running):
            p, t0, t, out = running[i]
            if p.is_alive() and time.time() - t0 < t[3] + 90:
                continue
            if p.is_alive():
                p.kill()
                p.join()
                results.append({"variant": names[i], "qualname": None, "props": [], "paths": 0, "aborted": {},
                                "unsupported": "hard wall-clock limit: solver did not return", "obligations": [],
                                "bounded": None, "inlined": [], "contracts_used": [], "notes": [], "module": t[0],
                                "seconds": round(time.time() - t0, 1)})
            else:
                p.join()
                if os.path.exists(out):
                    results.append(json.load(open(out)))
                    os.unlink(out)
                else:
                    results.append({"variant": names[i], "qualname": None, "props": [], "paths": 0, "aborted": {},
                                    "unsupported": "worker process died (exit code %s)" % p.exitcode,
                                    "obligations": [], "bounded": None, "inlined": [], "contracts_used": [],
                                    "notes": [], "module": t[0], "seconds": round(time.time() - t0, 1)})
            del running[i]
    return results


def collect_tasks(prop, tier):
    repo, W = _world()
    tasks = []
    names = []
    for modname in PROPS[prop]:
        mod = importlib.import_module(modname)
        vs = mod.variants(W, tier=tier)
        deadline = getattr(mod, "DEADLINE", {}).get(tier, 300 if tier == "quick" else 1800)
        # the per-variant budgets were measured on an idle machine; a variant that runs out of time is reported as out of reach
        # (exit 2), so they are scaled to keep the verdict stable when all cores are busy (other checks running in parallel)
        deadline = int(deadline * float(os.environ.get("PYVC_DEADLINE_FACTOR", "4")))
        for i, v in enumerate(vs):
            if prop in v.prop_ids:
                tasks.append((modname, i, tier, deadline))
                names.append(v.name)
    return tasks, names


def main(argv=None):
    ap = argparse.ArgumentParser()
    ap.add_argument("prop")
    ap.add_argument("--tier", default=os.environ.get("VERIF_TIER", "quick"))
    ap.add_argument("--jobs", type=int, default=int(os.environ.get("PYVC_JOBS", "16")))
    ap.add_argument("--only", default=None, help="substring filter on variant names (development)")
    ap.add_argument("--replay", default=None)
    ap.add_argument("--dump", default=None, help="write raw results JSON here (development)")
    a = ap.parse_args(argv)
    load_registry()
    from pyvc import report
    if a.replay:
        return report.replay_file(a.replay)
    t0 = time.time()
    seed = int(os.environ.get("VERIF_SEED", "0"))
    try:
        repo, W = _world()
        work = os.path.join(ROOT, ".work")
        os.makedirs(work, exist_ok=True)
        pf = os.path.join(work, "probe-%d.json" % os.getpid())
        json.dump(repo.probe, open(pf, "w"))
        os.environ["PYVC_PROBE_FILE"] = pf
        tasks, names = collect_tasks(a.prop, a.tier)
        if a.only:
            keep = [i for i, n in enumerate(names) if a.only in n]
            tasks = [tasks[i] for i in keep]
            names = [names[i] for i in keep]
        results = run_tasks(tasks, names, a.jobs, work)
        # development aid: --only runs skip the bounded stand-ins unless asked for (never used by the registered commands)
        extras = [] if (a.only and not os.environ.get("PYVC_EXTRAS_WITH_ONLY")) else report.run_extras(a.prop, a.tier, seed, PROPS[a.prop])
        os.unlink(pf)
    except BaseException:
        traceback.print_exc()
        return 3
    if a.dump:
        json.dump(results, open(a.dump, "w"), indent=1, default=str)
    try:
        return report.conclude(a.prop, a.tier, seed, results, extras, time.time() - t0, partial=bool(a.only))
    except BaseException:
        # a failure of the reporting step itself (e.g. a native replay that crashes the harness) is a checker crash, never a verdict
        traceback.print_exc()
        print("CHECKER-CRASH property=%s (while reporting)" % a.prop)
        return 3


if __name__ == "__main__":
    sys.exit(main())
