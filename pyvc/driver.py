"""vcheck driver: runs the contract modules of one property, decides the exit
code, writes evidence and replay files.

exit 0 all obligations proved (and bounded stand-ins passed; known findings printed)
exit 1 VIOLATION (line printed)    exit 2 undecided     exit 3 checker crash"""
import argparse
import hashlib
import importlib
import json
import multiprocessing as mp
import os
import sys
import time
import traceback

ROOT = os.path.dirname(os.path.dirname(os.path.abspath(__file__)))
sys.path.insert(0, ROOT)

PROPS = {
    # property -> list of contract modules (each: variants(world, tier) and optional extras(tier))
    "C01": ["contracts.c01_simplifier"],
}


def load_registry():
    reg = os.path.join(ROOT, "contracts", "registry.json")
    if os.path.exists(reg):
        PROPS.update(json.load(open(reg)))


_W = {}


def _world():
    if "w" not in _W:
        from pyvc.repo import Repo
        from contracts import core
        repo = Repo()
        probe = os.environ.get("PYVC_PROBE_FILE")
        if probe and os.path.exists(probe):
            repo._probe = json.load(open(probe))
        _W["repo"] = repo
        _W["w"] = core.make_world(repo)
    return _W["repo"], _W["w"]


def _run_one(task):
    modname, idx, tier, deadline = task
    try:
        import z3
        z3.set_param("smt.random_seed", 0)
        from pyvc.harness import run_variant
        repo, W = _world()
        mod = importlib.import_module(modname)
        vs = mod.variants(W, tier=tier)
        v = vs[idx]
        r = run_variant(repo, W, v, deadline_s=deadline)
        r["module"] = modname
        fi = repo.func(v.qualname) if v.qualname else None
        r["sha"] = fi.sha if fi else None
        return r
    except BaseException as e:      # a crash of the checker is reported as such (exit 3)
        return {"crash": traceback.format_exc(), "module": modname, "index": idx}


def collect_tasks(prop, tier):
    repo, W = _world()
    tasks = []
    names = []
    for modname in PROPS[prop]:
        mod = importlib.import_module(modname)
        vs = mod.variants(W, tier=tier)
        deadline = getattr(mod, "DEADLINE", {}).get(tier, 300 if tier == "quick" else 1800)
        for i, v in enumerate(vs):
            if prop in v.prop_ids:
                tasks.append((modname, i, tier, deadline))
                names.append(v.name)
    return tasks, names


def main(argv=None):
    ap = argparse.ArgumentParser()
    ap.add_argument("prop")
    ap.add_argument("--tier", default=os.environ.get("VERIF_TIER", "quick"))
    ap.add_argument("--jobs", type=int, default=int(os.environ.get("PYVC_JOBS", "16")))
    ap.add_argument("--only", default=None, help="substring filter on variant names (development)")
    ap.add_argument("--replay", default=None)
    ap.add_argument("--dump", default=None, help="write raw results JSON here (development)")
    a = ap.parse_args(argv)
    load_registry()
    from pyvc import report
    if a.replay:
        return report.replay_file(a.replay)
    t0 = time.time()
    seed = int(os.environ.get("VERIF_SEED", "0"))
    try:
        repo, W = _world()
        work = os.path.join(ROOT, ".work")
        os.makedirs(work, exist_ok=True)
        pf = os.path.join(work, "probe-%d.json" % os.getpid())
        json.dump(repo.probe, open(pf, "w"))
        os.environ["PYVC_PROBE_FILE"] = pf
        tasks, names = collect_tasks(a.prop, a.tier)
        if a.only:
            keep = [i for i, n in enumerate(names) if a.only in n]
            tasks = [tasks[i] for i in keep]
            names = [names[i] for i in keep]
        results = []
        if tasks:
            with mp.Pool(min(a.jobs, len(tasks))) as pool:
                for r in pool.imap_unordered(_run_one, tasks, chunksize=1):
                    results.append(r)
        extras = report.run_extras(a.prop, a.tier, seed, PROPS[a.prop])
        os.unlink(pf)
    except BaseException:
        traceback.print_exc()
        return 3
    if a.dump:
        json.dump(results, open(a.dump, "w"), indent=1, default=str)
    return report.conclude(a.prop, a.tier, seed, results, extras, time.time() - t0, partial=bool(a.only))


if __name__ == "__main__":
    sys.exit(main())
