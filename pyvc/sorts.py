"""z3 vocabulary shared by the symbolic executor, the specification theory and
the contracts.

FNode            -> uninterpreted sort ``Node`` with total projection functions
PySMTType        -> algebraic datatype ``Ty``
values           -> algebraic datatype ``Val`` (arrays: uninterpreted ``AV``)
free variables   -> z3 sets of Node
"""
import z3

# --------------------------------------------------------------------------
# operator codes (mirrors pysmt/operators.py; cross-checked against the live
# module by the native probe on every run, see repo.py)
# --------------------------------------------------------------------------
OPNAMES = """FORALL EXISTS AND OR NOT IMPLIES IFF SYMBOL FUNCTION REAL_CONSTANT
BOOL_CONSTANT INT_CONSTANT STR_CONSTANT PLUS MINUS TIMES LE LT EQUALS ITE TOREAL
BV_CONSTANT BV_NOT BV_AND BV_OR BV_XOR BV_CONCAT BV_EXTRACT BV_ULT BV_ULE BV_NEG
BV_ADD BV_SUB BV_MUL BV_UDIV BV_UREM BV_LSHL BV_LSHR BV_ROL BV_ROR BV_ZEXT
BV_SEXT BV_SLT BV_SLE BV_COMP BV_SDIV BV_SREM BV_ASHR STR_LENGTH STR_CONCAT
STR_CONTAINS STR_INDEXOF STR_REPLACE STR_SUBSTR STR_PREFIXOF STR_SUFFIXOF
STR_TO_INT INT_TO_STR STR_CHARAT ARRAY_SELECT ARRAY_STORE ARRAY_VALUE DIV POW
ALGEBRAIC_CONSTANT BV_TONATURAL""".split()
OP = {n: i for i, n in enumerate(OPNAMES)}
globals().update(OP)
NOPS = len(OPNAMES)

CONSTANT_OPS = (BOOL_CONSTANT, REAL_CONSTANT, INT_CONSTANT, BV_CONSTANT,
                STR_CONSTANT, ALGEBRAIC_CONSTANT)
QUANT_OPS = (FORALL, EXISTS)
NARY_OPS = (AND, OR, PLUS, TIMES, STR_CONCAT, FUNCTION, ARRAY_VALUE)
BV_W_OPS = (BV_NOT, BV_AND, BV_OR, BV_XOR, BV_CONCAT, BV_EXTRACT, BV_NEG, BV_ADD,
            BV_SUB, BV_MUL, BV_UDIV, BV_UREM, BV_LSHL, BV_LSHR, BV_ROL, BV_ROR,
            BV_ZEXT, BV_SEXT, BV_COMP, BV_SDIV, BV_SREM, BV_ASHR)
FIXED_ARITY = {
    NOT: 1, IMPLIES: 2, IFF: 2, SYMBOL: 0, REAL_CONSTANT: 0, BOOL_CONSTANT: 0,
    INT_CONSTANT: 0, STR_CONSTANT: 0, MINUS: 2, LE: 2, LT: 2, EQUALS: 2, ITE: 3,
    TOREAL: 1, BV_CONSTANT: 0, BV_NOT: 1, BV_AND: 2, BV_OR: 2, BV_XOR: 2,
    BV_CONCAT: 2, BV_EXTRACT: 1, BV_ULT: 2, BV_ULE: 2, BV_NEG: 1, BV_ADD: 2,
    BV_SUB: 2, BV_MUL: 2, BV_UDIV: 2, BV_UREM: 2, BV_LSHL: 2, BV_LSHR: 2,
    BV_ROL: 1, BV_ROR: 1, BV_ZEXT: 1, BV_SEXT: 1, BV_SLT: 2, BV_SLE: 2,
    BV_COMP: 2, BV_SDIV: 2, BV_SREM: 2, BV_ASHR: 2, STR_LENGTH: 1,
    STR_CONTAINS: 2, STR_INDEXOF: 3, STR_REPLACE: 3, STR_SUBSTR: 3,
    STR_PREFIXOF: 2, STR_SUFFIXOF: 2, STR_TO_INT: 1, INT_TO_STR: 1,
    STR_CHARAT: 2, ARRAY_SELECT: 2, ARRAY_STORE: 3, DIV: 2, POW: 2,
    ALGEBRAIC_CONSTANT: 0, BV_TONATURAL: 1, FORALL: 1, EXISTS: 1,
}

I = z3.IntSort()
B = z3.BoolSort()
R = z3.RealSort()
S = z3.StringSort()

Node = z3.DeclareSort("Node")
NodeSet = z3.SetSort(Node)
NodeSeq = z3.SeqSort(Node)

# ---- types ----------------------------------------------------------------
_Ty = z3.Datatype("Ty")
_Ty.declare("NoneT")                      # Python None where a type is expected
_Ty.declare("BoolT")
_Ty.declare("IntT")
_Ty.declare("RealT")
_Ty.declare("StrT")
_Ty.declare("BVT", ("bvw", I))
_Ty.declare("ArrT", ("aidx", _Ty), ("aelem", _Ty))
_Ty.declare("FunT", ("fid", I))           # signature through fun_* below
_Ty.declare("CustomT", ("cid", I))
Ty = _Ty.create()
NoneT, BoolT, IntT, RealT, StrT = Ty.NoneT, Ty.BoolT, Ty.IntT, Ty.RealT, Ty.StrT
BVT, ArrT, FunT, CustomT = Ty.BVT, Ty.ArrT, Ty.FunT, Ty.CustomT
fun_ret = z3.Function("fun_ret", I, Ty)
fun_arity = z3.Function("fun_arity", I, I)
fun_param = z3.Function("fun_param", I, I, Ty)
cust_arity = z3.Function("cust_arity", I, I)       # custom sort constructors: number of sort arguments
cust_arg = z3.Function("cust_arg", I, I, Ty)
TySet = z3.SetSort(Ty)


ty_decl = z3.Function("ty_decl", Ty, I)            # custom sorts: the declaration (sort constructor) they instantiate


def ty_arity(t):
    """PySMTType.arity: number of component types (typing.py: args)"""
    return z3.If(Ty.is_ArrT(t), z3.IntVal(2),
                 z3.If(Ty.is_FunT(t), 1 + fun_arity(Ty.fid(t)),
                       z3.If(Ty.is_CustomT(t), cust_arity(Ty.cid(t)), z3.IntVal(0))))


def ty_arg(t, i):
    """i-th component type (i concrete)"""
    return z3.If(Ty.is_ArrT(t), Ty.aidx(t) if i == 0 else Ty.aelem(t),
                 z3.If(Ty.is_FunT(t), fun_ret(Ty.fid(t)) if i == 0 else fun_param(Ty.fid(t), z3.IntVal(i - 1)),
                       cust_arg(Ty.cid(t), z3.IntVal(i))))

# ---- node projections (mirror FNodeContent) --------------------------------
op = z3.Function("op", Node, I)
nargs = z3.Function("nargs", Node, I)
arg = z3.Function("arg", Node, I, Node)
nid = z3.Function("nid", Node, I)            # node_id / id(): injective (axiom inst.)
pl_int = z3.Function("pl_int", Node, I)      # INT value, BV value
pl_real = z3.Function("pl_real", Node, R)    # REAL value
pl_bool = z3.Function("pl_bool", Node, B)
pl_str = z3.Function("pl_str", Node, S)      # STR value, SYMBOL name
pl_w = z3.Function("pl_w", Node, I)          # BV const width (payload[1]); BV op payload[0]
pl_i1 = z3.Function("pl_i1", Node, I)        # payload[1] of BV ops (start / step)
pl_i2 = z3.Function("pl_i2", Node, I)        # payload[2] of BV_EXTRACT (end)
pl_node = z3.Function("pl_node", Node, Node)  # FUNCTION name
pl_ty = z3.Function("pl_ty", Node, Ty)       # SYMBOL type, ARRAY_VALUE index type
nqv = z3.Function("nqv", Node, I)            # quantifier: number of bound vars
qv = z3.Function("qv", Node, I, Node)        # quantifier: i-th bound var
qvset = z3.Function("qvset", Node, NodeSet)  # quantifier: set of bound vars
pl_alg = z3.Function("pl_alg", Node, I)      # ALGEBRAIC payload: opaque id

# ---- values -----------------------------------------------------------------
VK = z3.DeclareSort("VK")                    # array index keys: injective image of Val
AV = z3.DeclareSort("AV")                    # array values; aview/amk link them to z3 arrays
UV = z3.DeclareSort("UV")                    # elements of custom sorts
_Val = z3.Datatype("Val")
_Val.declare("VBool", ("vb", B))
_Val.declare("VInt", ("vi", I))
_Val.declare("VReal", ("vr", R))
_Val.declare("VBV", ("vbv", I))
_Val.declare("VStr", ("vs", S))
_Val.declare("VArr", ("va", AV))
_Val.declare("VU", ("vu", UV))
Val = _Val.create()
VBool, VInt, VReal, VBV, VStr, VArr, VU = (Val.VBool, Val.VInt, Val.VReal,
                                           Val.VBV, Val.VStr, Val.VArr, Val.VU)
vb, vi, vr, vbv, vs, va = Val.vb, Val.vi, Val.vr, Val.vbv, Val.vs, Val.va

# ---- spec functions (uninterpreted; unfolded on demand by spec.py) ----------
type_of = z3.Function("type_of", Node, Ty)
val = z3.Function("val", Node, Val)          # under ONE fixed arbitrary interpretation
fv = z3.Function("fv", Node, NodeSet)
isconst = z3.Function("isconst", Node, B)    # FNode.is_constant() spec


JOURNAL = []


class Tracked:
    """z3 function whose applications are recorded (for explicit lemma
    instantiation without walking the terms through the slow Python API)."""
    def __init__(self, name, *sig):
        self.f = z3.Function(name, *sig)
        self.name = name
        self.apps = {}
        self.quiet_ids = set()

    def __call__(self, *args):
        t = self.f(*args)
        self.apps[t.get_id()] = t
        JOURNAL.append((self, t))
        return t

    def quiet(self, *args):
        """application that only gets the single-term lemmas (range facts)"""
        t = self.f(*args)
        if t.get_id() not in self.apps:
            self.quiet_ids.add(t.get_id())
        self.apps[t.get_id()] = t
        JOURNAL.append((self, t))
        return t

    def eq(self, other):
        return self.f.eq(other)

    def decl(self):
        return self.f


pow2 = Tracked("pow2", I, I)
band = Tracked("band", I, I, I)
bor = Tracked("bor", I, I, I)
bxor = Tracked("bxor", I, I, I)
vkey = Tracked("vkey", Val, VK)              # injective (lemma instances in spec.py)


ZArr = z3.ArraySort(VK, Val)
aview = z3.Function("aview", AV, ZArr)       # bijection AV <-> z3 arrays (extensional)
amk = Tracked("amk", ZArr, AV)


def asel(a, i):
    return z3.Select(aview(a), vkey(i))


def astore(a, i, v):
    return amk(z3.Store(aview(a), vkey(i), v))


def acst(v):
    return amk(z3.K(VK, v))


TRACKED = [pow2, band, bor, bxor, vkey, amk]


def reset_tracking():
    for t in TRACKED:
        t.apps.clear()
    del JOURNAL[:]


def replay_tracking(entries):
    for tr, t in entries:
        tr.apps[t.get_id()] = t
        JOURNAL.append((tr, t))

# denotations as functions of the interpretation (binder laws, DESIGN 3.3)
Sem = z3.DeclareSort("Sem")
semf = z3.Function("semf", Node, Sem)        # the denotation of a node: Interp -> Val
ev = z3.Function("ev", Sem, Val)             # ... evaluated at the fixed arbitrary interpretation
dep = z3.Function("dep", Sem, NodeSet)       # symbols the denotation depends on
qsem = z3.Function("qsem", I, NodeSet, Sem, Sem)   # quantification over a set of symbols
qv_ok = z3.Function("qv_ok", Node, B)          # every bound variable of the quantifier is a symbol
rpow = z3.Function("rpow", R, I, R)           # base ** integer exponent (0 ** negative: unconstrained)
# uninterpreted application of an uninterpreted function symbol (node) to values
uf_app = z3.Function("uf_app", Node, z3.SeqSort(Val), Val)
# division by zero: unconstrained functions of the dividend (SMT-LIB)
int_div0 = z3.Function("int_div0", I, I)
real_div0 = z3.Function("real_div0", R, R)


def K(x):
    return z3.IntVal(x)


def pydiv(a, b):
    """Python floor division on z3 ints (b != 0)."""
    q = a / b  # z3: euclidean-style (rounds so that remainder >= 0)
    return z3.If(b > 0, q, z3.If(a % b == 0, q, q - 1))


def pymod(a, b):
    """Python modulo on z3 ints (sign of the divisor)."""
    m = a % b  # z3: 0 <= m < |b|
    return z3.If(b > 0, m, z3.If(m == 0, m, m + b))
