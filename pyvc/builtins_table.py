"""Table of modelled builtins, methods of builtin types, PySMTType methods and
the few pysmt helper functions given a fixed meaning."""
from fractions import Fraction

import z3

from . import sorts as S
from .sorts import Node, Ty, I, B, R
from .symex import (Unsupported, PathAbort, PyRaise, ExcVal, ExcClass, Obj, ClassRef, ModuleRef,
                    FuncVal, Builtin, ContentView, PayloadView, ArgsView, QVars, ZSetTuple,
                    SetVal, DictVal, Opaque, FloatVal, Frame, SeqList, PrefList,
                    is_z3, is_node, is_ty, is_sym_int, is_sym_bool, is_sym_real, is_sym_str,
                    is_zset, to_int, to_real, to_bool, to_str, is_numeric, is_boolish,
                    is_realish, is_intish, is_strish, concrete, z3const)
from . import builtins_impl as BI
from .builtins_impl import used, Generator


REGEXES = {"[0-9]+": z3.Plus(z3.Range("0", "9"))}


def install(world):
    T = world.builtins

    def reg(name, fn, **kw):
        b = Builtin(name, fn)
        for k, v in kw.items():
            setattr(b, k, v)
        T[name] = b
        return b

    W = world

    # ---- type objects / conversions ---------------------------------------
    def b_int(ex, a, kw):
        if not a:
            return 0
        v = a[0]
        if isinstance(v, PayloadView):
            v = BI.resolve_payload(W, ex, v)
        if len(a) == 2:
            base = a[1]
            if base != 2:
                raise Unsupported("int(s, base!=2)")
            return bin_to_int(ex, v)
        if isinstance(v, bool):
            return int(v)
        if isinstance(v, int) or is_sym_int(v):
            return v
        if is_sym_bool(v):
            return to_int(v)
        if isinstance(v, Fraction):
            return int(v)
        if is_sym_real(v):
            used("int(Fraction) truncation")
            if ex.decide(z3.IsInt(v)):
                return z3.ToInt(v)
            return z3.If(v >= 0, z3.ToInt(v), -z3.ToInt(-v))
        if isinstance(v, FloatVal):
            r = BI.float_real(v)
            return z3.If(r >= 0, z3.ToInt(r), -z3.ToInt(-r))
        if isinstance(v, str):
            try:
                return int(v)
            except ValueError:
                raise PyRaise(ExcVal("ValueError"))
        if is_sym_str(v):
            used("int(str): conservative contract (DESIGN 2.3)")
            # digits only and non-empty -> decimal value; otherwise ValueError or *some* integer
            digits = z3.StrToInt(v) >= 0
            if ex.decide(digits):
                return z3.StrToInt(v)
            if ex.decide(ex.fresh("int_str_accepts", B)):
                return ex.fresh("int_str_value", I)
            raise PyRaise(ExcVal("ValueError"))
        raise Unsupported("int(%s)" % BI.pykind(W, v))

    def bin_to_int(ex, s):
        used("int(s, 2)")
        if isinstance(s, BI.BitStr):
            if not s.chars:
                raise PyRaise(ExcVal("ValueError"))
            tot = z3.IntVal(0)
            n = len(s.chars)
            for i, c in enumerate(s.chars):
                if isinstance(c, str):
                    if c not in "01":
                        raise PyRaise(ExcVal("ValueError"))
                    tot = tot + (1 << (n - 1 - i)) * int(c)
                else:
                    tot = tot + z3.If(c, z3.IntVal(1 << (n - 1 - i)), z3.IntVal(0))
            return tot
        if isinstance(s, str):
            try:
                return int(s, 2)
            except ValueError:
                raise PyRaise(ExcVal("ValueError"))
        n = BI.concretize_int(W, ex, z3.Length(s), 0, 70, "binstr-len-bound")
        if n == 0:
            raise PyRaise(ExcVal("ValueError"))
        tot = z3.IntVal(0)
        okc = []
        for i in range(n):
            ch = z3.SubString(s, i, 1)
            okc.append(z3.Or(ch == "0", ch == "1"))
            tot = tot + z3.If(ch == "1", z3.IntVal(1 << (n - 1 - i)), z3.IntVal(0))
        if not ex.decide(z3.And(okc)):
            raise Unsupported("int(s,2) on a string with other characters")
        return tot

    reg("int", b_int)

    def b_bool(ex, a, kw):
        return ex.truth(a[0]) if a else False
    reg("bool", b_bool)

    def b_str(ex, a, kw):
        return BI.to_str_value(W, ex, a[0]) if a else ""
    reg("str", b_str)
    reg("repr", lambda ex, a, kw: Opaque("repr"))

    def b_float(ex, a, kw):
        v = a[0]
        if isinstance(v, FloatVal):
            return v
        if isinstance(v, (int, Fraction)) and not isinstance(v, bool):
            try:
                return FloatVal.exact(Fraction(float(v)))
            except OverflowError:
                raise PyRaise(ExcVal("OverflowError"))
        if is_sym_int(v) or is_sym_real(v):
            return BI.float_of_real(W, ex, to_real(v))
        raise Unsupported("float(%s)" % BI.pykind(W, v))
    reg("float", b_float)

    def b_fraction(ex, a, kw):
        used("Fraction()")
        if len(a) == 1:
            v = a[0]
            if isinstance(v, (int, Fraction)) and not isinstance(v, bool):
                return Fraction(v)
            if is_sym_int(v) or is_sym_real(v):
                return to_real(v)
            if isinstance(v, FloatVal):
                return BI.float_real(v) if v.r is None else Fraction(v.r)
            if isinstance(v, str):
                try:
                    return Fraction(v)
                except (ValueError, ZeroDivisionError):
                    raise PyRaise(ExcVal("ValueError"))
            if is_sym_str(v):
                raise Unsupported("Fraction(symbolic str)")
            raise PyRaise(ExcVal("TypeError"))
        n, d = a
        if isinstance(n, (int, Fraction)) and isinstance(d, (int, Fraction)):
            if d == 0:
                raise PyRaise(ExcVal("ZeroDivisionError"))
            return Fraction(n, d)
        if not (is_numeric(n) and is_numeric(d)):
            raise PyRaise(ExcVal("TypeError"))
        if ex.decide(to_real(d) == 0):
            raise PyRaise(ExcVal("ZeroDivisionError"))
        return to_real(n) / to_real(d)
    reg("Fraction", b_fraction)
    T["fractions.Fraction"] = T["Fraction"]

    def b_tuple(ex, a, kw):
        if not a:
            return ()
        v = a[0]
        if is_zset(v):
            return ZSetTuple(v)
        if isinstance(v, (ArgsView, QVars, ZSetTuple)):
            return v
        return tuple(BI.iterate(W, ex, v))
    reg("tuple", b_tuple)
    reg("list", lambda ex, a, kw: list(BI.iterate(W, ex, a[0])) if a else [])

    def b_set(ex, a, kw, frozen=False):
        if not a:
            return SetVal(frozen=frozen)
        v = a[0]
        if isinstance(v, BI.Generator):
            v = v.items(ex)
        if is_zset(v):
            return v
        if isinstance(v, QVars):
            return S.qvset(v.n)
        if isinstance(v, ZSetTuple):
            return v.zset
        if isinstance(v, (set, frozenset)):
            return frozenset(v) if frozen else set(v)
        if isinstance(v, SetVal):
            return SetVal(v.items, frozen)
        return BI.make_set(W, ex, BI.iterate(W, ex, v), frozen)
    def b_set_mutable(ex, a, kw):
        r = b_set(ex, a, kw, False)
        if is_zset(r):
            # symbolic sets are values; remember that this one was built as a mutable set() (aliasing obligations, C14)
            ex.ghost.setdefault("mutable_zsets", set()).add(r.get_id())
        return r
    reg("set", b_set_mutable)
    reg("frozenset", lambda ex, a, kw: b_set(ex, a, kw, True))

    def b_dict(ex, a, kw):
        d = DictVal()
        if a:
            v = a[0]
            if isinstance(v, DictVal):
                for k, x in v.items:
                    d.items.append([k, x])
            elif isinstance(v, dict):
                for k, x in v.items():
                    BI.setitem(W, ex, d, k, x)
            else:
                for kv in BI.iterate(W, ex, v):
                    k, x = BI.iterate(W, ex, kv)
                    BI.setitem(W, ex, d, k, x)
        for k, x in kw.items():
            BI.setitem(W, ex, d, k, x)
        return d
    reg("dict", b_dict)

    def b_type(ex, a, kw):
        v = a[0]
        if isinstance(v, PayloadView):
            v = BI.resolve_payload(W, ex, v)
        k = BI.pykind(W, v)
        if k in ("int", "bool", "str", "float", "tuple", "list", "dict", "set", "frozenset"):
            return T[k]
        if k == "Fraction":
            return T["Fraction"]
        if k == "FNode":
            return ClassRef("pysmt.fnode.FNode")
        if isinstance(v, Obj):
            return ClassRef(v.cls)
        if k == "NoneType":
            return T["NoneType"]
        if k == "PySMTType":
            return ClassRef("pysmt.typing.PySMTType")
        return Opaque("type:" + k)
    reg("type", b_type)
    reg("NoneType", lambda ex, a, kw: None)

    def isinst(ex, v, c):
        if isinstance(v, PayloadView):
            v = BI.resolve_payload(W, ex, v)
        if isinstance(c, tuple):
            rs = [isinst(ex, v, x) for x in c]
            if any(r is True for r in rs):
                return True
            rs = [r for r in rs if r is not False]
            return z3.Or(rs) if rs else False
        k = BI.pykind(W, v)
        if isinstance(c, Builtin):
            n = c.name
            if n == "int":
                return k in ("int", "bool")
            if n == "Fraction":
                return k == "Fraction"
            if n in ("str", "bool", "float", "tuple", "list", "dict", "set", "frozenset"):
                return k == n
            if n == "Iterable":
                return k in ("tuple", "list", "dict", "set", "frozenset", "str") or isinstance(v, Generator)
            raise Unsupported("isinstance(.., %s)" % n)
        if isinstance(c, ClassRef):
            q = c.qual
            if q == "pysmt.fnode.FNode":
                return k == "FNode"
            if q.startswith("pysmt.typing."):
                nm = q.rsplit(".", 1)[1]
                if isinstance(v, Obj):
                    return q in W.repo.mro(v.cls)       # a type object executed from the source of pysmt/typing.py
                if k != "PySMTType":
                    return False
                if nm == "PySMTType":
                    return v != S.NoneT
                m = {"_BVType": Ty.is_BVT, "_ArrayType": Ty.is_ArrT, "_FunctionType": Ty.is_FunT,
                     "_BoolType": Ty.is_BoolT, "_IntType": Ty.is_IntT, "_RealType": Ty.is_RealT,
                     "_StringType": Ty.is_StrT}
                if nm in m:
                    return m[nm](v)
                if nm in ("_TypeDecl", "PartialType"):
                    return False
            if isinstance(v, Obj):
                return q in W.repo.mro(v.cls)
            return False
        if isinstance(c, ExcClass):
            if isinstance(v, ExcVal):
                return ex.exc_matches(v, c)
            return False
        raise Unsupported("isinstance against %r" % (c,))
    reg("isinstance", lambda ex, a, kw: isinst(ex, a[0], a[1]))
    reg("Iterable", lambda ex, a, kw: None)
    T["collections.abc.Iterable"] = T["Iterable"]
    T["collections.Iterable"] = T["Iterable"]
    T["typing.cast"] = reg("cast", lambda ex, a, kw: a[1])

    def b_hasattr(ex, a, kw):
        try:
            W.getattr(ex, a[0], a[1])
            return True
        except PyRaise as pr:
            if pr.exc.cls == "AttributeError":
                return False
            raise
    reg("hasattr", b_hasattr)

    def b_getattr(ex, a, kw):
        try:
            return W.getattr(ex, a[0], a[1])
        except PyRaise as pr:
            if pr.exc.cls == "AttributeError" and len(a) == 3:
                return a[2]
            raise
    reg("getattr", b_getattr)
    reg("setattr", lambda ex, a, kw: W.setattr(ex, a[0], a[1], a[2]))

    # ---- numeric -------------------------------------------------------------
    reg("len", lambda ex, a, kw: BI.length(W, ex, a[0]))

    def b_abs(ex, a, kw):
        v = a[0]
        if concrete(v):
            return abs(v)
        return z3.If(v >= 0, v, -v)
    reg("abs", b_abs)

    def b_minmax(ex, a, kw, ismin):
        items = list(a) if len(a) > 1 else BI.iterate(W, ex, a[0])
        if not items:
            if "default" in kw:
                return kw["default"]
            raise PyRaise(ExcVal("ValueError"))
        key = kw.get("key")
        best = items[0]
        bk = ex.call(key, [best], {}) if key else best
        for x in items[1:]:
            xk = ex.call(key, [x], {}) if key else x
            c = BI.compare(W, ex, "<" if ismin else ">", xk, bk)
            if ex.decide(c):
                best, bk = x, xk
        return best
    reg("min", lambda ex, a, kw: b_minmax(ex, a, kw, True))
    reg("max", lambda ex, a, kw: b_minmax(ex, a, kw, False))

    def b_sum(ex, a, kw):
        tot = a[1] if len(a) > 1 else 0
        for x in BI.iterate(W, ex, a[0]):
            tot = ex.binop("+", tot, x)
        return tot
    reg("sum", b_sum)

    def b_all(ex, a, kw):
        for x in BI.iterate(W, ex, a[0]):
            if not ex.decide(ex.truth(x)):
                return False
        return True
    reg("all", b_all)

    def b_any(ex, a, kw):
        for x in BI.iterate(W, ex, a[0]):
            if ex.decide(ex.truth(x)):
                return True
        return False
    reg("any", b_any)

    def b_range(ex, a, kw):
        vals = []
        for v in a:
            if not isinstance(v, int):
                vals = None
                break
            vals.append(v)
        if vals is not None:
            return range(*vals)
        # symbolic bounds: concretise the trip count
        if len(a) == 1:
            lo, hi = 0, a[0]
        elif len(a) == 2:
            lo, hi = a
        else:
            raise Unsupported("range with symbolic step")
        n = BI.concretize_int(W, ex, z3.If(to_int(hi) - to_int(lo) > 0, to_int(hi) - to_int(lo), z3.IntVal(0)),
                              0, ex.loop_bound, "range-bound")
        return [ex.binop("+", lo, i) for i in range(n)]
    reg("range", b_range)

    reg("enumerate", lambda ex, a, kw: Generator(lambda: [(i + kw.get("start", a[1] if len(a) > 1 else 0), x)
                                                          for i, x in enumerate(BI.iterate(W, ex, a[0]))]))
    reg("zip", lambda ex, a, kw: Generator(lambda: list(zip(*[BI.iterate(W, ex, x) for x in a]))))
    reg("map", lambda ex, a, kw: Generator(lambda: [ex.call(a[0], [x], {}) for x in BI.iterate(W, ex, a[1])]))
    reg("filter", lambda ex, a, kw: Generator(lambda: [x for x in BI.iterate(W, ex, a[1])
                                                       if ex.decide(ex.truth(ex.call(a[0], [x], {}) if a[0] is not None else x))]))
    reg("reversed", lambda ex, a, kw: list(reversed(BI.iterate(W, ex, a[0]))))
    reg("iter", lambda ex, a, kw: Generator(lambda: BI.iterate(W, ex, a[0])))

    def b_next(ex, a, kw):
        g = a[0]
        items = g.items(ex) if isinstance(g, Generator) else BI.iterate(W, ex, g)
        pos = getattr(g, "pos", 0)
        if pos >= len(items):
            if len(a) > 1:
                return a[1]
            raise PyRaise(ExcVal("StopIteration"))
        try:
            g.pos = pos + 1
        except AttributeError:
            pass
        return items[pos]
    reg("next", b_next)

    def b_sorted(ex, a, kw):
        items = BI.iterate(W, ex, a[0])
        key = kw.get("key")
        rev = kw.get("reverse", False)
        if any(isinstance(x, BI.ZSetSplat) for x in items):
            raise Unsupported("sorted() of a symbolic set (its elements are not enumerated)")
        keys = [ex.call(key, [x], {}) if key else x for x in items]

        def deep_concrete(k):
            if isinstance(k, (tuple, list)):
                return all(deep_concrete(x) for x in k)
            return concrete(k)
        if all(deep_concrete(k) for k in keys):
            order = sorted(range(len(items)), key=lambda i: keys[i], reverse=bool(rev))
            return [items[i] for i in order]
        used("sorted() = the sorted permutation (insertion by symbolic comparisons)")
        out = []   # insertion sort with forking comparisons (stable)
        for x, kx in zip(items, keys):
            pos = len(out)
            for j in range(len(out)):
                c = BI.compare(W, ex, "<" if not rev else ">", kx, out[j][1])
                if ex.decide(c):
                    pos = j
                    break
            out.insert(pos, (x, kx))
        return [x for x, _ in out]
    reg("sorted", b_sorted)

    def b_id(ex, a, kw):
        v = a[0]
        if is_node(v):
            used("id(node) = injective node identity (ordering abstracted by nid)")
            ids = ex.ghost.setdefault("ids", [])
            if not any(v.eq(m) for m in ids):
                for m in ids:
                    ex.assume((S.nid(v) == S.nid(m)) == (v == m))
                ids.append(v)
            return S.nid(v)
        raise Unsupported("id() of non-node")
    reg("id", b_id)
    _strhash = z3.Function("str_hash", z3.StringSort(), z3.IntSort())      # hash() of a string: a function of its value

    def b_hash(ex, a, kw):
        v = a[0]
        if is_node(v):
            return S.nid(v)
        if isinstance(v, str):
            return _strhash(z3.StringVal(v))
        if is_z3(v) and v.sort() == z3.StringSort():
            return _strhash(v)
        return Opaque("hash")
    reg("hash", b_hash)
    reg("print", lambda ex, a, kw: None)

    def b_floor(ex, a, kw, ceil=False):
        v = a[0]
        if isinstance(v, FloatVal) and v.r is not None:
            import math
            return math.ceil(v.r) if ceil else math.floor(v.r)
        r = BI.float_real(v)
        used("math.floor/ceil")
        if ceil:
            return -z3.ToInt(-r)
        return z3.ToInt(r)
    def re_fullmatch(ex, a, kw):
        pat, s = a[0], a[1]
        if isinstance(s, PayloadView):
            s = BI.resolve_payload(W, ex, s)
        used("re.fullmatch for the literal patterns listed in builtins_table.REGEXES")
        if pat not in REGEXES:
            raise Unsupported("regular expression %r" % (pat,))
        if isinstance(s, str):
            import re
            return re.fullmatch(pat, s) is not None
        if pat == "[0-9]+":
            # SMT-LIB: str.to_int(s) >= 0 exactly for the non-empty digit strings
            return z3.StrToInt(to_str(s)) >= 0
        return z3.InRe(to_str(s), REGEXES[pat])
    T["re.fullmatch"] = Builtin("re.fullmatch", re_fullmatch)

    T["math.floor"] = Builtin("math.floor", lambda ex, a, kw: b_floor(ex, a, kw, False))
    T["math.ceil"] = Builtin("math.ceil", lambda ex, a, kw: b_floor(ex, a, kw, True))
    T["warnings.warn"] = Builtin("warnings.warn", lambda ex, a, kw: None)
    reg("warn", lambda ex, a, kw: None)
    T["functools.wraps"] = Builtin("wraps", lambda ex, a, kw: Builtin("wraps-inner", lambda ex2, a2, kw2: a2[0]))
    T["wraps"] = T["functools.wraps"]

    def it_chain(ex, a, kw):
        out = []
        for x in a:
            out.extend(BI.iterate(W, ex, x))
        return out
    T["itertools.chain"] = Builtin("chain", it_chain)
    T["chain"] = T["itertools.chain"]

    def it_product(ex, a, kw):
        import itertools
        return [tuple(t) for t in itertools.product(*[BI.iterate(W, ex, x) for x in a])]
    T["itertools.product"] = Builtin("product", it_product)

    def it_combinations(ex, a, kw):
        import itertools
        return [tuple(t) for t in itertools.combinations(BI.iterate(W, ex, a[0]), a[1])]
    T["itertools.combinations"] = Builtin("combinations", it_combinations)

    # ---- decorators of pysmt/decorators.py with a modelled meaning -------------------
    def dec_infix(ex, a, kw):
        env = ex.ghost.get("env")
        if env is not None and not ex.decide(ex.truth(env.fields.get("enable_infix_notation", True))):
            raise PyRaise(ExcVal("PysmtModeError", ("Infix notation is not enabled",)))
        return NotImplemented
    T["decorator:assert_infix_enabled"] = Builtin("assert_infix_enabled", dec_infix)

    def dec_clear_pending_pop(ex, a, kw):
        # real body of decorators.clear_pending_pop_wrap
        selfv = a[1]
        if ex.decide(ex.truth(W.getattr(ex, selfv, "pending_pop"))):
            W.setattr(ex, selfv, "pending_pop", False)
            ex.call(W.getattr(ex, selfv, "pop"), [], {})
        return NotImplemented
    T["decorator:clear_pending_pop"] = Builtin("clear_pending_pop", dec_clear_pending_pop)

    # ---- methods of builtin types -------------------------------------------
    def meth(tname, name, fn):
        T["method:%s.%s" % (tname, name)] = Builtin("%s.%s" % (tname, name), fn)

    # list
    meth("list", "append", lambda ex, a, kw: a[0].append(a[1]))
    meth("list", "extend", lambda ex, a, kw: a[0].extend(BI.iterate(W, ex, a[1])))
    meth("list", "insert", lambda ex, a, kw: a[0].insert(a[1], a[2]))
    meth("list", "reverse", lambda ex, a, kw: a[0].reverse())
    meth("list", "copy", lambda ex, a, kw: list(a[0]))
    meth("list", "clear", lambda ex, a, kw: a[0].clear())

    def list_pop(ex, a, kw):
        if not a[0]:
            raise PyRaise(ExcVal("IndexError"))
        return a[0].pop(*a[1:])
    meth("list", "pop", list_pop)

    def list_index(ex, a, kw):
        for i, x in enumerate(a[0]):
            if ex.decide(BI._eq(W, ex, x, a[1])):
                return i
        raise PyRaise(ExcVal("ValueError"))
    meth("list", "index", list_index)
    meth("tuple", "index", list_index)

    def list_sort(ex, a, kw):
        a[0][:] = b_sorted(ex, [a[0]], kw)
    meth("list", "sort", list_sort)

    # symbolic-length lists
    def sl_append(ex, a, kw):
        a[0].expr = z3.Concat(a[0].expr, z3.Unit(a[1]))

    def sl_pop(ex, a, kw):
        s = a[0]
        if len(a) > 1:
            raise Unsupported("pop(i) on a symbolic list")
        n = z3.Length(s.expr)
        if ex.decide(n == 0):
            raise PyRaise(ExcVal("IndexError", ("pop from empty list",)))
        x = s.expr[n - 1]
        s.expr = z3.Extract(s.expr, 0, n - 1)
        return x

    def sl_extend(ex, a, kw):
        o = a[1]
        if isinstance(o, SeqList):
            a[0].expr = z3.Concat(a[0].expr, o.expr)
        else:
            for x in BI.iterate(W, ex, o):
                a[0].expr = z3.Concat(a[0].expr, z3.Unit(x))

    def sl_clear(ex, a, kw):
        a[0].expr = z3.Empty(a[0].expr.sort())
    meth("SeqList", "append", sl_append)
    meth("SeqList", "pop", sl_pop)
    meth("SeqList", "extend", sl_extend)
    meth("SeqList", "clear", sl_clear)
    meth("SeqList", "copy", lambda ex, a, kw: SeqList(a[0].expr))

    def pl_pop(ex, a, kw):
        l = a[0]
        if len(a) > 1:
            raise Unsupported("pop(i) on a prefix list")
        if l.items:
            return l.items.pop()
        if is_z3(l.prefix_len) or l.prefix_len > 0:
            ex.notes.append("prefix-depth-bound")
            raise PathAbort("prefix-depth-bound")
        raise PyRaise(ExcVal("IndexError", ("pop from empty list",)))
    meth("PrefList", "append", lambda ex, a, kw: a[0].items.append(a[1]))
    meth("PrefList", "extend", lambda ex, a, kw: a[0].items.extend(BI.iterate(W, ex, a[1])))
    meth("PrefList", "pop", pl_pop)

    # dict (concrete python dict and DictVal)
    def d_get(ex, a, kw):
        d, k = a[0], a[1]
        dflt = a[2] if len(a) > 2 else None
        try:
            return BI.getitem(W, ex, d, k)
        except PyRaise as pr:
            if pr.exc.cls == "KeyError":
                return dflt
            raise
    for tn in ("dict", "DictVal"):
        meth(tn, "get", d_get)
        meth(tn, "items", lambda ex, a, kw: [(k, v) for k, v in (a[0].items if isinstance(a[0], DictVal) else a[0].items())])
        meth(tn, "keys", lambda ex, a, kw: [k for k, v in (a[0].items if isinstance(a[0], DictVal) else a[0].items())])
        meth(tn, "values", lambda ex, a, kw: [v for k, v in (a[0].items if isinstance(a[0], DictVal) else a[0].items())])

        def d_setdefault(ex, a, kw):
            c = BI.contains(W, ex, a[0], a[1])
            if ex.decide(c):
                return BI.getitem(W, ex, a[0], a[1])
            BI.setitem(W, ex, a[0], a[1], a[2] if len(a) > 2 else None)
            return a[2] if len(a) > 2 else None
        meth(tn, "setdefault", d_setdefault)

        def d_pop(ex, a, kw):
            c = BI.contains(W, ex, a[0], a[1])
            if ex.decide(c):
                v = BI.getitem(W, ex, a[0], a[1])
                BI.delitem(W, ex, a[0], a[1])
                return v
            if len(a) > 2:
                return a[2]
            raise PyRaise(ExcVal("KeyError"))
        meth(tn, "pop", d_pop)

        def d_clear(ex, a, kw):
            if isinstance(a[0], DictVal):
                a[0].items[:] = []
            else:
                a[0].clear()
        meth(tn, "clear", d_clear)

        def d_update(ex, a, kw):
            o = a[1]
            pairs = o.items if isinstance(o, DictVal) else (list(o.items()) if isinstance(o, dict) else
                                                            [tuple(BI.iterate(W, ex, kv)) for kv in BI.iterate(W, ex, o)])
            for k, v in pairs:
                BI.setitem(W, ex, a[0], k, v)
        meth(tn, "update", d_update)

        def d_copy(ex, a, kw):
            if isinstance(a[0], DictVal):
                return DictVal(a[0].items)
            return dict(a[0])
        meth(tn, "copy", d_copy)

    # sets
    for tn in ("set", "frozenset", "SetVal", "zset"):
        meth(tn, "add", lambda ex, a, kw: BI.set_add(W, ex, a[0], a[1]))
        for nm in ("union", "intersection", "difference"):
            meth(tn, nm, (lambda nm: lambda ex, a, kw: _set_nary(ex, nm, a))(nm))
        meth(tn, "issubset", lambda ex, a, kw: BI.compare(W, ex, "<=", a[0], _as_set(ex, a[1])))
        meth(tn, "issuperset", lambda ex, a, kw: BI.compare(W, ex, ">=", a[0], _as_set(ex, a[1])))
        meth(tn, "copy", lambda ex, a, kw: a[0].copy() if not is_zset(a[0]) else a[0])

        def s_update(ex, a, kw):
            if is_zset(a[1]) and isinstance(a[0], SetVal):
                a[0].zextra.append(a[1])
                return
            for x in BI.iterate(W, ex, a[1]):
                BI.set_add(W, ex, a[0], x)
        meth(tn, "update", s_update)

        def s_discard(ex, a, kw):
            s = a[0]
            if isinstance(s, SetVal):
                for i, x in enumerate(s.items):
                    if ex.decide(BI._eq(W, ex, x, a[1])):
                        del s.items[i]
                        return
                return
            s.discard(a[1])
        meth(tn, "discard", s_discard)

    def _as_set(ex, v):
        if isinstance(v, (SetVal, set, frozenset)) or is_zset(v):
            return v
        return b_set(ex, [v], {}, True)

    def _set_nary(ex, nm, a):
        cur = a[0]
        for o in a[1:]:
            cur = BI.set_op(W, ex, nm, cur, _as_set(ex, o))
        return cur

    # str
    def s_startswith(ex, a, kw):
        used("str.startswith")
        if isinstance(a[0], BI.BitStr):
            p = a[1]
            if not isinstance(p, str):
                raise Unsupported("startswith with symbolic prefix")
            if len(p) > len(a[0].chars):
                return False
            return BI.bitstr_eq(BI.BitStr(a[0].chars[:len(p)]), p)
        if concrete(a[0]) and concrete(a[1]):
            return a[0].startswith(a[1])
        return z3.PrefixOf(to_str(a[1]), to_str(a[0]))

    def s_endswith(ex, a, kw):
        used("str.endswith")
        if concrete(a[0]) and concrete(a[1]):
            return a[0].endswith(a[1])
        return z3.SuffixOf(to_str(a[1]), to_str(a[0]))

    def s_find(ex, a, kw):
        used("str.find")
        s, t = a[0], a[1]
        if all(concrete(x) for x in a):
            return s.find(*a[1:])
        zs, zt = to_str(s), to_str(t)
        n = z3.Length(zs)
        if len(a) > 2:
            st = to_int(a[2])
            st = z3.If(st < 0, z3.If(st + n < 0, z3.IntVal(0), st + n), st)
            # Python: start > len -> -1 (even for the empty needle)
            return z3.If(st > n, z3.IntVal(-1), z3.IndexOf(zs, zt, st))
        return z3.IndexOf(zs, zt, z3.IntVal(0))

    def s_replace(ex, a, kw):
        used("str.replace")
        if all(concrete(x) for x in a):
            return a[0].replace(*a[1:])
        if len(a) == 4 and a[3] == 1:
            return z3.Replace(to_str(a[0]), to_str(a[1]), to_str(a[2]))
        if len(a) == 3:
            raise Unsupported("str.replace all occurrences on symbolic strings")
        raise Unsupported("str.replace count")

    def s_join(ex, a, kw):
        used("str.join")
        parts = BI.iterate(W, ex, a[1])
        out = []
        for i, p in enumerate(parts):
            if i:
                out.append(a[0])
            out.append(p)
        return BI.str_concat(W, ex, out)

    def s_format(ex, a, kw):
        return str_dot_format(ex, a[0], a[1:], kw)

    meth("BitStr", "startswith", s_startswith)
    for tn in ("str",):
        meth(tn, "startswith", s_startswith)
        meth(tn, "endswith", s_endswith)
        meth(tn, "find", s_find)
        meth(tn, "replace", s_replace)
        meth(tn, "join", s_join)
        meth(tn, "format", s_format)
        meth(tn, "lower", lambda ex, a, kw: a[0].lower() if concrete(a[0]) else Opaque("lower"))
        meth(tn, "upper", lambda ex, a, kw: a[0].upper() if concrete(a[0]) else Opaque("upper"))
        meth(tn, "strip", lambda ex, a, kw: a[0].strip(*a[1:]) if concrete(a[0]) else Opaque("strip"))
        meth(tn, "split", lambda ex, a, kw: a[0].split(*a[1:]) if concrete(a[0]) else Opaque("split"))
    T["method:Opaque.format"] = Builtin("Opaque.format", lambda ex, a, kw: Opaque("format"))

    def str_dot_format(ex, fmt, args, kw):
        used("str.format ('{}', '{0:0Nb}', '{0:0Nx}')")
        if isinstance(fmt, Opaque):
            return fmt
        if not isinstance(fmt, str):
            raise Unsupported("symbolic format string")
        import re
        m = re.fullmatch(r"\{0?:0(\d+)([bx])\}", fmt)
        if m:
            width, kind = int(m.group(1)), m.group(2)
            v = args[0]
            if isinstance(v, PayloadView):
                v = BI.resolve_payload(W, ex, v)
            if isinstance(v, int):
                return fmt.format(v)
            if kind != "b":
                raise Unsupported("hex format of symbolic int")
            v = to_int(v)
            # binary digits, zero padded to `width`; value range decides the length
            if not ex.decide(z3.And(v >= 0, v < (1 << width))):
                raise Unsupported("binary format: value wider than the pad width")
            if width == 0:
                return z3.IntToStr(v)      # width 0: plain '{:b}' of 0 is '0'
            return BI.BitStr([S.pymod(S.pydiv(v, z3.IntVal(1 << i)), z3.IntVal(2)) == 1
                              for i in reversed(range(width))])
        if fmt == "{}":
            return BI.to_str_value(W, ex, args[0])
        return Opaque("format")

    # ---- PySMTType (assumed contract of pysmt/typing.py type objects) ----------
    def tmeth(name, fn, prop=False):
        b = Builtin("Ty." + name, fn)
        b.is_property = prop
        T["method:Ty." + name] = b

    tmeth("is_bool_type", lambda ex, a, kw: a[0] == S.BoolT)
    tmeth("is_int_type", lambda ex, a, kw: a[0] == S.IntT)
    tmeth("is_real_type", lambda ex, a, kw: a[0] == S.RealT)
    tmeth("is_string_type", lambda ex, a, kw: a[0] == S.StrT)
    tmeth("is_array_type", lambda ex, a, kw: Ty.is_ArrT(a[0]))
    tmeth("is_function_type", lambda ex, a, kw: Ty.is_FunT(a[0]))
    tmeth("is_custom_type", lambda ex, a, kw: Ty.is_CustomT(a[0]))

    def t_is_bv(ex, a, kw):
        t = a[0]
        if ex.decide(t == S.NoneT):
            raise PyRaise(ExcVal("AttributeError", ("NoneType has no is_bv_type",)))
        w = a[1] if len(a) > 1 else kw.get("width")
        if w is None:
            return Ty.is_BVT(t)
        # `if width:` in the real code: width 0 means "any"
        return z3.And(Ty.is_BVT(t), z3.Or(to_int(w) == 0, Ty.bvw(t) == to_int(w)))
    tmeth("is_bv_type", t_is_bv)

    def t_none_guard(name, pred, proj):
        def f(ex, a, kw):
            t = a[0]
            if not ex.decide(pred(t)):
                raise PyRaise(ExcVal("AttributeError", (name,)))
            return proj(t)
        return f
    tmeth("width", t_none_guard("width", Ty.is_BVT, Ty.bvw), prop=True)
    tmeth("index_type", t_none_guard("index_type", Ty.is_ArrT, Ty.aidx), prop=True)
    tmeth("elem_type", t_none_guard("elem_type", Ty.is_ArrT, Ty.aelem), prop=True)
    tmeth("return_type", t_none_guard("return_type", Ty.is_FunT, lambda t: S.fun_ret(Ty.fid(t))), prop=True)

    def t_as_smtlib(ex, a, kw):
        h = W.config.get("ty_as_smtlib")
        if h is None:
            return Opaque("as_smtlib")
        fs = a[1] if len(a) > 1 else kw.get("funstyle", True)
        return h(ex, a[0], bool(fs))
    tmeth("as_smtlib", t_as_smtlib)

    # the declaration object of a custom sort: several instances of a parametric sort share one
    tmeth("decl", t_none_guard("decl", Ty.is_CustomT, S.ty_decl), prop=True)

    def t_arity(ex, a, kw):
        t = a[0]
        ex.assume(S.cust_arity(Ty.cid(t)) >= 0)
        ex.assume(S.fun_arity(Ty.fid(t)) >= 1)
        return S.ty_arity(t)
    tmeth("arity", t_arity, prop=True)

    class TyArgs:
        def __init__(self, t):
            self.t = t
    W.TyArgs = TyArgs
    tmeth("args", lambda ex, a, kw: TyArgs(a[0]), prop=True)

    class ParamTypes:
        def __init__(self, t):
            self.t = t
    W.ParamTypes = ParamTypes
    tmeth("param_types", t_none_guard("param_types", Ty.is_FunT, lambda t: ParamTypes(t)), prop=True)

    old_len = W.config.get("length")

    def cfg_length(ex, v):
        if isinstance(v, ParamTypes):
            return S.fun_arity(Ty.fid(v.t))
        return NotImplemented
    W.config["length"] = cfg_length

    def cfg_iterate(ex, v):
        if isinstance(v, TyArgs):
            ex.assume(S.cust_arity(Ty.cid(v.t)) >= 0)
            ex.assume(S.fun_arity(Ty.fid(v.t)) >= 1)
            n = BI.concretize_int(W, ex, S.ty_arity(v.t), 0, 3, "type-arity-bound")
            return [S.ty_arg(v.t, i) for i in range(n)]
        if isinstance(v, ParamTypes):
            f = Ty.fid(v.t)
            n = BI.concretize_int(W, ex, S.fun_arity(f), 1, ex.max_arity, "fun-arity-bound")
            return [S.fun_param(f, S.K(i)) for i in range(n)]
        return NotImplemented
    W.config["iterate"] = cfg_iterate

    def cfg_getitem(ex, o, k):
        if isinstance(o, ParamTypes):
            f = Ty.fid(o.t)
            if isinstance(k, int) and k >= 0:
                if not ex.decide(S.fun_arity(f) > k):
                    raise PyRaise(ExcVal("IndexError"))
                return S.fun_param(f, S.K(k))
        return NotImplemented
    W.config["getitem"] = cfg_getitem

    # typing factories (assumed contract: interned structural types)
    def bvtype(ex, a, kw):
        w = a[0] if a else kw.get("width", 32)
        return S.BVT(to_int(w))
    T["ctor:BVType"] = Builtin("BVType", bvtype)

    def arrtype(ex, a, kw):
        i = a[0] if a else kw["index_type"]
        e = a[1] if len(a) > 1 else kw["elem_type"]
        return S.ArrT(i, e)
    T["ctor:ArrayType"] = Builtin("ArrayType", arrtype)
    W.custom_globals[("pysmt.typing", "BVType")] = T["ctor:BVType"]
    W.custom_globals[("pysmt.typing", "ArrayType")] = T["ctor:ArrayType"]

    # ---- pysmt.constants helpers (inlined from source would need type();
    #      given their documented meaning; gmpy absent in this interpreter) -----
    def kind_is(*kinds):
        def f(ex, a, kw):
            v = a[0]
            if isinstance(v, PayloadView):
                v = BI.resolve_payload(W, ex, v)
            return BI.pykind(W, v) in kinds
        return f
    CG = W.custom_globals
    CG[("pysmt.constants", "mpz_type")] = None
    CG[("pysmt.constants", "mpq_type")] = None
    CG[("pysmt.constants", "FractionClass")] = T["Fraction"]
    CG[("pysmt.constants", "IntegerClass")] = T["int"]
    CG[("pysmt.constants", "Fraction")] = T["Fraction"]
    CG[("pysmt.constants", "pyFraction")] = T["Fraction"]
    CG[("pysmt.constants", "Integer")] = T["int"]
    CG[("pysmt.formula", "CollectionsIterable")] = T["Iterable"]
    CG[("pysmt.walkers.generic", "CollectionsIterable")] = T["Iterable"]
