"""Index of the REAL source under /repo (re-read on every run) and the native
probe of the live classes (MRO, walker dispatch tables, module constants)."""
import ast
import hashlib
import json
import os
import subprocess
import sys

REPO = os.environ.get("PYVC_REPO", "/repo")
NATIVE_PY = os.environ.get("PYVC_NATIVE_PY", "/venv/bin/python")
HERE = os.path.dirname(os.path.abspath(__file__))


class FuncInfo:
    def __init__(self, module, qualname, node, cls, source):
        self.module = module          # 'pysmt.simplifier'
        self.qualname = qualname      # 'pysmt.simplifier.Simplifier.walk_and'
        self.node = node              # ast.FunctionDef
        self.cls = cls                # class name or None
        self.sha = hashlib.sha256(source.encode()).hexdigest()[:16]
        self.source = source
        self.decorators = [ast.unparse(d) for d in node.decorator_list]

    @property
    def name(self):
        return self.node.name


class ModInfo:
    def __init__(self, name, path, tree, text):
        self.name, self.path, self.tree, self.text = name, path, tree, text
        self.functions = {}     # name -> FuncInfo (module level)
        self.classes = {}       # name -> {'bases': [...], 'methods': {name: FuncInfo}, 'attrs': {name: ast expr}}
        self.imports = {}       # local name -> ('module', modname) | ('from', modname, attr)
        self.assigns = {}       # module-level NAME = <expr>


class Repo:
    def __init__(self, root=None):
        self.root = root or REPO
        self.mods = {}
        self._probe = None

    # ------------------------------------------------------------------
    def module(self, name):
        if name in self.mods:
            return self.mods[name]
        rel = name.replace(".", "/")
        for cand in (rel + ".py", rel + "/__init__.py"):
            p = os.path.join(self.root, cand)
            if os.path.exists(p):
                break
        else:
            self.mods[name] = None
            return None
        text = open(p).read()
        tree = ast.parse(text)
        mi = ModInfo(name, p, tree, text)
        mi.lines = text.split("\n")
        self.mods[name] = mi
        pkg = name if p.endswith("__init__.py") else name.rsplit(".", 1)[0]
        self._index(mi, tree.body, pkg)
        return mi

    def load_module_file(self, name, path):
        """index a module that lives outside the repository root (pyvc's own self-test sources)"""
        text = open(path).read()
        tree = ast.parse(text)
        mi = ModInfo(name, path, tree, text)
        mi.lines = text.split("\n")
        self.mods[name] = mi
        self._index(mi, tree.body, name.rsplit(".", 1)[0])
        return mi

    def _index(self, mi, body, pkg):
        for st in body:
            if isinstance(st, ast.FunctionDef):
                src = "\n".join(mi.lines[st.lineno - 1:st.end_lineno])
                mi.functions[st.name] = FuncInfo(mi.name, mi.name + "." + st.name, st, None, src)
            elif isinstance(st, ast.ClassDef):
                ci = {"bases": [ast.unparse(b) for b in st.bases], "methods": {}, "attrs": {}, "node": st}
                for s2 in st.body:
                    if isinstance(s2, ast.FunctionDef):
                        src = "\n".join(mi.lines[s2.lineno - 1:s2.end_lineno])
                        fi = FuncInfo(mi.name, "%s.%s.%s" % (mi.name, st.name, s2.name), s2, st.name, src)
                        # property setters share the name: keep the getter
                        if s2.name in ci["methods"] and any("setter" in d for d in fi.decorators):
                            continue
                        ci["methods"][s2.name] = fi
                    elif isinstance(s2, ast.Assign) and len(s2.targets) == 1 and isinstance(s2.targets[0], ast.Name):
                        ci["attrs"][s2.targets[0].id] = s2.value
                    elif isinstance(s2, ast.AnnAssign) and isinstance(s2.target, ast.Name) and s2.value is not None:
                        ci["attrs"][s2.target.id] = s2.value
                    elif isinstance(s2, ast.Assign) and len(s2.targets) == 1 and isinstance(s2.targets[0], ast.Tuple) \
                            and all(isinstance(t, ast.Name) for t in s2.targets[0].elts):
                        # (A, B, ...) = expr  : A is list(expr)[0], B is list(expr)[1], ...
                        for i_, t_ in enumerate(s2.targets[0].elts):
                            e_ = ast.parse("list(X)[%d]" % i_, mode="eval").body
                            e_.value.args[0] = s2.value
                            ci["attrs"][t_.id] = ast.fix_missing_locations(ast.copy_location(e_, s2))
                mi.classes[st.name] = ci
            elif isinstance(st, ast.Import):
                for a in st.names:
                    if a.asname:
                        mi.imports[a.asname] = ("module", a.name)
                    else:
                        top = a.name.split(".")[0]
                        mi.imports[top] = ("module", top)
            elif isinstance(st, ast.ImportFrom):
                modname = st.module or ""
                if st.level:
                    base = pkg.split(".")
                    base = base[: len(base) - (st.level - 1)]
                    modname = ".".join(base + ([st.module] if st.module else []))
                for a in st.names:
                    mi.imports[a.asname or a.name] = ("from", modname, a.name)
            elif isinstance(st, ast.Assign):
                for t in st.targets:
                    if isinstance(t, ast.Name):
                        mi.assigns[t.id] = st.value
                    elif isinstance(t, ast.Tuple) and all(isinstance(e, ast.Name) for e in t.elts):
                        for e in t.elts:
                            mi.assigns[e.id] = ("tuple-part", st.value)
            elif isinstance(st, ast.AnnAssign) and isinstance(st.target, ast.Name) and st.value is not None:
                mi.assigns[st.target.id] = st.value
            elif isinstance(st, (ast.If, ast.Try)):
                # conditional imports / definitions: index every branch (later wins)
                for blk in ("body", "orelse", "finalbody"):
                    self._index(mi, getattr(st, blk, []) or [], pkg)
                for h in getattr(st, "handlers", []) or []:
                    self._index(mi, h.body, pkg)

    # ------------------------------------------------------------------
    def func(self, qualname):
        """'pysmt.mod.func' or 'pysmt.mod.Class.method' -> FuncInfo or None"""
        parts = qualname.split(".")
        for cut in range(len(parts) - 1, 0, -1):
            mi = self.module(".".join(parts[:cut]))
            if mi is None:
                continue
            rest = parts[cut:]
            if len(rest) == 1:
                return mi.functions.get(rest[0])
            if len(rest) == 2 and rest[0] in mi.classes:
                return mi.classes[rest[0]]["methods"].get(rest[1])
            return None
        return None

    def find_class(self, clsqual):
        """'pysmt.mod.Class' -> (ModInfo, classinfo)"""
        modname, cname = clsqual.rsplit(".", 1)
        mi = self.module(modname)
        if mi is None or cname not in mi.classes:
            return None, None
        return mi, mi.classes[cname]

    def method(self, clsqual, name):
        """Resolve a method through the live MRO reported by the probe."""
        for c in self.mro(clsqual):
            mi, ci = self.find_class(c)
            if ci and name in ci["methods"]:
                return ci["methods"][name]
        return None

    def class_attr(self, clsqual, name):
        for c in self.mro(clsqual):
            mi, ci = self.find_class(c)
            if ci and name in ci["attrs"]:
                return mi, ci["attrs"][name]
        return None, None

    # ------------------------------------------------------------------
    @property
    def probe(self):
        if self._probe is None:
            env = dict(os.environ, PYTHONPATH=self.root)
            out = subprocess.run([NATIVE_PY, os.path.join(HERE, "native_probe.py")],
                                 env=env, capture_output=True, text=True, timeout=300)
            if out.returncode != 0:
                sys.stderr.write(out.stderr)
                raise RuntimeError("native probe failed")
            self._probe = json.loads(out.stdout)
        return self._probe

    def mro(self, clsqual):
        m = self.probe["mro"].get(clsqual)
        return m if m else [clsqual]

    def dispatch(self, clsqual):
        """op code -> 'module.Class.func' for a walker class"""
        return {int(k): v for k, v in self.probe["dispatch"].get(clsqual, {}).items()}

    def const(self, modname, attr):
        return self.probe["consts"].get(modname, {}).get(attr, KeyError)
