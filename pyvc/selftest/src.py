"""Small pure functions exercising the Python constructs that pyvc interprets in /repo.
Executed both by CPython and by pyvc (symbolically, integer arguments in a small range);
pyvc/selftest/run.py proves that the symbolic result equals CPython's on every input."""


def floordiv_mod(a, b):
    if b == 0:
        return (0, 0)
    return (a // b, a % b)


def power_shift(a, b):
    if b < 0:
        return -1
    return (a << b) + (abs(a) >> b) + 2 ** b


def chained_compare(a, b):
    return 1 if -2 <= a < b <= 3 else 0


def bool_ops(a, b):
    x = a > 0 and b > 0
    y = a > 0 or b > 0
    z = not (a == b)
    return (x, y, z, (a or b), (a and b))


def ternary_min_max(a, b):
    return (a if a < b else b, max(a, b, 0), min(a, b, 1), abs(a - b))


def tuple_index_slice(a, b):
    t = (a, b, a + b, a - b, a * b)
    return (t[0], t[-1], t[1:3], t[::-1][0], len(t[2:]), t[-2])


def list_ops(a, b):
    l = [a, b]
    l.append(a + b)
    l.insert(0, 7)
    l.extend([b, a])
    x = l.pop()
    y = l.pop(0)
    l[1] = 42
    l2 = l[:]
    l2.reverse()
    return (l, l2, x, y, len(l), a in l, l.index(42))


def dict_ops(a, b):
    d = {}
    d[a] = 1
    d[b] = d.get(b, 0) + 2
    e = d.setdefault(a + b, 5)
    has = (a in d, 99 in d)
    n = len(d)
    total = 0
    for k in d:
        total += d[k]
    if a in d:
        del d[a]
    return (e, has, n, total, len(d), sorted(d.items()))


def set_ops(a, b):
    s = set()
    s.add(a)
    s.add(b)
    s.add(a)
    t = {a, 3}
    return (len(s), len(s | t), len(s & t), len(s - t), a in s, 5 in s, len(s ^ t))


def str_ops(a, b):
    s = "x%d_%s" % (a, b)
    t = "-".join(["p", str(a), str(b)])
    u = "{}:{}".format(a, b)
    return (s, t, s.startswith("x"), str(a) + str(b), "ab" * 2)


def loops(a, b):
    total = 0
    i = 0
    while i < 5:
        i += 1
        if i == a:
            continue
        if i == b + 3:
            break
        total += i
    else:
        total += 100
    for j in range(3):
        if j == a:
            break
    else:
        total += 1000
    return total


def comprehension_any_all(a, b):
    xs = [i * a for i in range(4) if i != b]
    ys = {i: i + a for i in range(3)}
    zs = {i % 2 for i in range(b if b > 0 else 0)}
    return (xs, sorted(ys.items()), sorted(zs), any(x > 2 for x in xs), all(x >= 0 for x in xs), sum(xs))


def enumerate_zip_reversed(a, b):
    out = []
    for i, x in enumerate([a, b, a + b]):
        out.append(i * x)
    for x, y in zip([a, b], (b, a, 9)):
        out.append(x - y)
    for x in reversed([a, b]):
        out.append(x)
    return out


def sorted_key(a, b):
    l = [(a, 1), (b, 2), (a + b, 3), (0, 4)]
    return (sorted(l), sorted(l, key=lambda p: -p[0]), sorted([a, b, 0], reverse=True))


def try_except_finally(a, b):
    log = []
    try:
        log.append("try")
        if a == 0:
            raise ValueError("zero")
        x = b // a
        log.append(x)
    except ValueError:
        log.append("value")
        x = -1
    except ZeroDivisionError:
        log.append("zero-div")
        x = -2
    finally:
        log.append("finally")
    return (x, log)


def closures(a, b):
    def adder(n):
        def add(m):
            return n + m + a
        return add
    f = adder(b)
    g = lambda x, y=2: x * y + b
    return (f(1), g(a), g(a, y=3), (lambda: a)())


def star_args(a, b):
    def f(x, *rest, k=1, **kw):
        return (x, len(rest), k, sorted(kw.items()))
    return (f(a), f(a, b, 3), f(a, k=b), f(a, b, z=1, k=2))


def generator_fn(a, b):
    def gen(n):
        i = 0
        while i < n:
            yield i + a
            i += 1
    out = []
    for x in gen(3):
        if x == b:
            break
        out.append(x)
    return (out, list(gen(2)), sum(gen(3)))


class Acc:
    scale = 2

    def __init__(self, start):
        self.value = start

    def add(self, n):
        self.value += n * self.scale
        return self

    @property
    def double(self):
        return self.value * 2

    @staticmethod
    def helper(n):
        return n + 1


def objects(a, b):
    o = Acc(a)
    o.add(b).add(1)
    return (o.value, o.double, Acc.helper(b), isinstance(o, Acc), hasattr(o, "value"), getattr(o, "missing", 7))


def nested_data(a, b):
    d = {"k": [a, (b, {"z": a + b})]}
    d["k"][1][1]["z"] += 1
    x, (y, z) = d["k"][0], d["k"][1]
    return (x, y, z["z"], len(d["k"]))


def int_str_conversions(a, b):
    return (int(str(a)), str(a * b), bool(a), int(b > 0), a, "%03d" % abs(a))


def augmented(a, b):
    x = a
    x += b
    x -= 1
    x *= 2
    x //= 3
    x %= 5
    y = [1]
    y += [a]
    y *= 2
    return (x, y)


def identity_and_none(a, b):
    x = None
    if a > 0:
        x = [b]
    y = x
    return (x is None, x is y, x is not None and y == [b], (x or "empty"))
