"""CPython cross-check of pyvc's interpreter: every function of pyvc/selftest/src.py is executed
symbolically with integer arguments in [-3, 3]; on each path, for every concrete argument pair the path
admits, CPython's result must be admitted by the symbolic result (soundness of the interpreter model;
abstracted values such as set cardinalities need not be determined).  usage: python3-vt -m pyvc.selftest.run"""
import ast
import importlib.util
import itertools
import json
import os
import sys
import time

import z3

HERE = os.path.dirname(os.path.abspath(__file__))
ROOT = os.path.dirname(os.path.dirname(HERE))
sys.path.insert(0, ROOT)
RANGE = range(-3, 4)


def to_py(v, model):
    """engine value -> python value under a model"""
    from pyvc.symex import SetVal, DictVal, is_z3, Obj
    if is_z3(v):
        r = model.eval(v, model_completion=True)
        if z3.is_int_value(r):
            return r.as_long()
        if z3.is_true(r):
            return True
        if z3.is_false(r):
            return False
        if z3.is_string_value(r):
            return r.as_string()
        return str(r)
    if isinstance(v, tuple):
        return tuple(to_py(x, model) for x in v)
    if isinstance(v, list):
        return [to_py(x, model) for x in v]
    if isinstance(v, SetVal):
        return set(to_py(x, model) for x in v.items)
    if isinstance(v, DictVal):
        return {to_py(k, model): to_py(x, model) for k, x in v.items}
    if isinstance(v, dict):
        return {to_py(k, model): to_py(x, model) for k, x in v.items()}
    return v


def eq_constraint(v, want):
    """z3 constraint (or python bool): the engine value v denotes the python value `want`"""
    from pyvc.symex import SetVal, DictVal, is_z3, Opaque
    if isinstance(v, Opaque):
        return True          # not interpreted: nothing is claimed about it
    if is_z3(v):
        if isinstance(want, bool):
            return (v == z3.BoolVal(want)) if z3.is_bool(v) else (v == (1 if want else 0))
        if isinstance(want, int):
            return v == want if not z3.is_bool(v) else z3.BoolVal(False)
        if isinstance(want, str):
            return v == z3.StringVal(want)
        return False
    if isinstance(v, (tuple, list)):
        if not isinstance(want, (tuple, list)) or len(v) != len(want) or isinstance(v, tuple) != isinstance(want, tuple):
            return False
        cs = [eq_constraint(x, y) for x, y in zip(v, want)]
        if any(c is False for c in cs):
            return False
        cs = [c for c in cs if c is not True]
        return z3.And(cs) if cs else True
    if isinstance(v, SetVal):
        return isinstance(want, (set, frozenset)) and len(v.items) == len(want)
    if isinstance(v, (DictVal, dict)):
        items = v.items if isinstance(v, DictVal) else list(v.items())
        if not isinstance(want, dict) or len(items) != len(want):
            return False
        cs = []
        for (k, x), (k2, y) in zip(items, want.items()):
            cs += [eq_constraint(k, k2), eq_constraint(x, y)]
        if any(c is False for c in cs):
            return False
        cs = [c for c in cs if c is not True]
        return z3.And(cs) if cs else True
    return v == want


def main():
    from pyvc.repo import Repo, FuncInfo
    from pyvc.symex import Exec, PyRaise, PathAbort, Unsupported, FuncVal
    from contracts import core
    spec = importlib.util.spec_from_file_location("selftest_src", os.path.join(HERE, "src.py"))
    native = importlib.util.module_from_spec(spec)
    spec.loader.exec_module(native)
    repo = Repo()
    W = core.make_world(repo)
    mi = repo.load_module_file("pyvc.selftest.src", os.path.join(HERE, "src.py"))
    results = []
    bad = 0
    t0 = time.time()
    for name, fi in sorted(mi.functions.items()):
        a, b = z3.Int("a"), z3.Int("b")
        ex = Exec(repo, W)
        ex.max_arity = 8
        ex.loop_bound = 12
        checked = paths = 0
        admitted, rejected = set(), {}
        status = "ok"
        detail = None
        while True:
            ex.reset_path()
            try:
                ex.assume(z3.And(a >= RANGE[0], a <= RANGE[-1], b >= RANGE[0], b <= RANGE[-1]))
                fn = W.wrap_func(fi, fi.module)
                try:
                    r = ("return", ex.call(fn, [a, b], {}))
                except PyRaise as pr:
                    r = ("raise", pr.exc.cls)
                paths += 1
                # every concrete argument pair admitted by this path
                for ca, cb in itertools.product(RANGE, RANGE):
                    ex.solver.push()
                    ex.solver.add(a == ca, b == cb)
                    if ex.solver.check() == z3.sat:
                        m = ex.solver.model()
                        try:
                            want = ("return", getattr(native, name)(ca, cb))
                        except Exception as e:
                            want = ("raise", type(e).__name__)
                        checked += 1
                        # soundness: CPython's actual result must be admitted by the symbolic result
                        if r[0] != want[0]:
                            ok = False
                        elif r[0] == "raise":
                            ok = r[1] == want[1]
                        else:
                            c = eq_constraint(r[1], want[1])
                            if c is True or c is False:
                                ok = c
                            else:
                                ex.solver.push()
                                ex.solver.add(c)
                                ok = ex.solver.check() == z3.sat
                                ex.solver.pop()
                        if ok:
                            admitted.add((ca, cb))
                        else:
                            got = (r[0], to_py(r[1], m)) if r[0] == "return" else r
                            rejected.setdefault((ca, cb), {"args": (ca, cb), "pyvc": repr(got), "cpython": repr(want)})
                    ex.solver.pop()
            except PathAbort as pa:
                pass
            except Unsupported as u:
                status, detail = "unsupported", str(u)
            except Exception as e:
                import traceback
                status, detail = "engine-error", traceback.format_exc()[-400:]
            if status != "ok" or not ex.next_path():
                break
        # soundness: for every input some path admits CPython's result (other paths for the same input are
        # over-approximations of a conservative contract: imprecise, not unsound)
        missing = [k for k in rejected if k not in admitted]
        if status == "ok" and missing:
            status, detail = "MISMATCH", rejected[missing[0]]
        elif status == "ok" and len(admitted) < len(RANGE) ** 2:
            status, detail = "incomplete", "only %d of %d argument pairs admitted" % (len(admitted), len(RANGE) ** 2)
        elif status == "ok" and rejected:
            detail = "%d spurious (over-approximating) path outcomes" % len(rejected)
        results.append({"function": name, "status": status, "paths": paths, "inputs_checked": checked, "detail": detail})
        if status != "ok":
            bad += 1
        print("%-28s %-12s paths=%-4d inputs=%-3d %s" % (name, status, paths, checked, "" if detail is None else str(detail)[:200]))
    out = {"functions": len(results), "not_ok": bad, "seconds": round(time.time() - t0, 1), "results": results}
    json.dump(out, open(os.path.join(ROOT, "tools", "selftest_report.json"), "w"), indent=1, default=repr)
    print("selftest: %d functions, %d not ok" % (len(results), bad))
    return 1 if any(r["status"] == "MISMATCH" for r in results) else 0


if __name__ == "__main__":
    sys.exit(main())
