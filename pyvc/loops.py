"""Loop contracts: an inductive invariant replaces the unrolling of a loop, so the
obligations hold for every number of iterations.

    world.loop_contracts[(function qualname, loop ordinal in source order)] = LoopInvariant(...)

Encoding (standard): (1) the invariant is an obligation on entry; (2) everything the
loop may modify is havocked and the invariant assumed; (3) if the loop condition
holds, the body runs once, the invariant is an obligation again (and the variant
must have decreased, when one is given) and the path ends; otherwise execution
continues after the loop.  A `return` or `break` inside the body leaves from an
arbitrary iteration, which is what the code does.  Termination is only proved when
a variant is given."""
import ast

import z3

from .symex import PathAbort, _Break, _Continue


class LoopInvariant:
    def __init__(self, havoc, invariant, variant=None, name="loop"):
        """havoc(ex, fr): assign fresh symbolic values to every local / field the loop may modify
        invariant(ex, fr) -> [(name, z3 Bool)]
        variant(ex, fr) -> z3 Int (optional): non-negative, strictly decreasing"""
        self.havoc, self.invariant, self.variant, self.name = havoc, invariant, variant, name

    def run(self, ex, st, fr):
        if not isinstance(st, ast.While):
            raise NotImplementedError("loop contracts on for-loops")
        for nm, c in self.invariant(ex, fr):
            ex.oblige("%s:invariant-on-entry:%s" % (self.name, nm), c)
        self.havoc(ex, fr)
        for nm, c in self.invariant(ex, fr):
            ex.assume(c)
        ex.ghost["loop_contracts_used"] = ex.ghost.get("loop_contracts_used", 0) + 1
        c = ex.truth(ex.eval(st.test, fr))
        if ex.decide(c):
            v0 = self.variant(ex, fr) if self.variant else None
            try:
                ex.exec_block(st.body, fr)
            except _Break:
                return
            except _Continue:
                pass
            for nm, c in self.invariant(ex, fr):
                ex.oblige("%s:invariant-preserved:%s" % (self.name, nm), c)
            if v0 is not None:
                v1 = self.variant(ex, fr)
                if isinstance(v0, tuple):
                    # (guard, measure): whenever the guard holds before the iteration it holds after it and the
                    # measure has decreased (a measure that only exists from some point on, e.g. once both bounds are known)
                    (g0, m0), (g1, m1) = v0, v1
                    ex.oblige("%s:variant-decreases" % self.name, z3.Implies(g0, z3.And(g1, m0 >= 0, m1 < m0)))
                else:
                    ex.oblige("%s:variant-decreases" % self.name, z3.And(v0 >= 0, v1 < v0))
            raise PathAbort("loop-step-verified")
        ex.exec_block(st.orelse, fr)


class ForStep:
    """`for x in xs: body` over a list of unknown length, as a fold: the state after the loop is
    the fold of a specification step over the elements.  Checked by induction on the list:
        * the representation invariant holds on entry (empty prefix),
        * from ANY state satisfying the invariant and ANY element, the body establishes the invariant
          again and the relation `step_ok` between the state before, the element and the state after;
    after the loop the state is an arbitrary one satisfying the invariant whose ghost component is by
    construction the fold of the specification step.  (Partial correctness; `break` is not supported.)"""
    def __init__(self, havoc, pick, invariant, snapshot, step_ok, name="fold"):
        self.havoc, self.pick, self.invariant, self.snapshot, self.step_ok, self.name = havoc, pick, invariant, snapshot, step_ok, name

    def run(self, ex, st, fr):
        if not isinstance(st, ast.For):
            raise NotImplementedError("ForStep on a while loop")
        for nm, c in self.invariant(ex, fr):
            ex.oblige("%s:invariant-on-entry:%s" % (self.name, nm), c)
        self.havoc(ex, fr)
        for nm, c in self.invariant(ex, fr):
            ex.assume(c)
        ex.ghost["loop_contracts_used"] = ex.ghost.get("loop_contracts_used", 0) + 1
        if ex.decide(ex.fresh("one_more_element", z3.BoolSort())):
            x = self.pick(ex, fr)
            ex.assign(st.target, x, fr)
            before = self.snapshot(ex, fr)
            try:
                ex.exec_block(st.body, fr)
            except _Continue:
                pass
            except _Break:
                raise NotImplementedError("break inside a ForStep loop")
            for nm, c in self.step_ok(ex, fr, before, x):
                ex.oblige("%s:step:%s" % (self.name, nm), c)
            for nm, c in self.invariant(ex, fr):
                ex.oblige("%s:invariant-preserved:%s" % (self.name, nm), c)
            raise PathAbort("loop-step-verified")
        ex.exec_block(st.orelse, fr)


# ---- roles of locals, read from the loop itself (a loop contract should survive a renamed local) --------------------
def loop_node(repo, qualname, ordinal=0):
    fi = repo.func(qualname)
    loops = [n for n in ast.walk(fi.node) if isinstance(n, (ast.For, ast.While))]
    loops.sort(key=lambda n: (n.lineno, n.col_offset))
    return loops[ordinal]


def stored_names(node):
    """locals assigned inside the loop body, in source order"""
    out = []
    for n in ast.walk(node):
        if isinstance(n, ast.Name) and isinstance(n.ctx, ast.Store) and n.id not in out:
            out.append(n.id)
    return out


def test_names(node):
    """locals read by the loop condition"""
    return [n.id for n in ast.walk(node.test) if isinstance(n, ast.Name)] if isinstance(node, ast.While) else []


def membership_names(node):
    """locals on the right of `in` / `not in` inside the loop"""
    out = []
    for n in ast.walk(node):
        if isinstance(n, ast.Compare):
            for o, c in zip(n.ops, n.comparators):
                if isinstance(o, (ast.In, ast.NotIn)) and isinstance(c, ast.Name) and c.id not in out:
                    out.append(c.id)
    return out
