"""Runs variants (function x input shape) through the symbolic executor and
discharges the resulting obligations."""
import hashlib
import json
import os
import subprocess
import tempfile
import time
import traceback

import z3

from . import sorts as S
from . import spec
from .symex import Exec, PathAbort, PyRaise, Unsupported


class Variant:
    """One verification task: a function of /repo executed on one input shape."""
    prop_ids = ()
    name = "variant"
    qualname = None
    max_arity = 3
    loop_bound = 12
    bounded = None           # None | 'arity' | 'width' : family label

    def setup(self, ex):
        """-> (callable value, args, kwargs); assumes the pre-condition"""
        raise NotImplementedError

    def check(self, ex, outcome):
        """outcome = ('return', value) | ('raise', ExcVal) -> [(name, goal z3 Bool)]"""
        raise NotImplementedError

    def witness(self, model, ex):
        """optional: JSON-able description of the inputs in a counter-model"""
        return None

    def known_class(self, clause):
        """-> (finding id, z3 predicate over the inputs) when known_findings.json
        lists a finding for this function and clause, else None"""
        return None


class ObligationResult:
    __slots__ = ("name", "status", "backend", "rlimit", "time", "model", "path", "smt2", "extra")

    def __init__(self, name, status, backend=None, rlimit=0, time=0.0, model=None, path=None, smt2=None, extra=None):
        self.name, self.status, self.backend, self.rlimit, self.time = name, status, backend, rlimit, time
        self.model, self.path, self.smt2, self.extra = model, path, smt2, extra

    def to_json(self):
        return {k: getattr(self, k) for k in self.__slots__}


RLIMIT = int(os.environ.get("PYVC_RLIMIT", "40000000"))
WALL_MS = int(os.environ.get("PYVC_WALL_MS", "60000"))
CVC5 = os.environ.get("PYVC_CVC5", "/usr/bin/cvc5")


def try_cvc5(smt2):
    if not os.path.exists(CVC5):
        return None
    if "(_ map" in smt2 or "seq." in smt2:
        return None
    with tempfile.NamedTemporaryFile("w", suffix=".smt2", delete=False) as f:
        f.write("(set-logic ALL)\n" + smt2)
        path = f.name
    try:
        out = subprocess.run([CVC5, "--strings-exp", "--tlimit=30000", path], capture_output=True, text=True, timeout=40)
        ans = out.stdout.strip().split("\n")[0] if out.stdout.strip() else ""
        return ans if ans in ("sat", "unsat") else None
    except Exception:
        return None
    finally:
        os.unlink(path)


def finish(variant, ex, r, pid, outcome):
    """post-process one proof result of the executor into a JSON-able record"""
    o = {"name": "%s/%s/%s" % (variant.name, pid, r["name"]), "status": r["status"], "backend": r["backend"],
         "time": r["time"]}
    if r.get("known_id"):
        o["known_id"] = r["known_id"]
    if r["status"] == "undecided" and r.get("smt2"):
        if try_cvc5(r["smt2"]) == "unsat":
            o["status"], o["backend"] = "proved", "cvc5"
    if o["status"] != "proved":
        o["smt2"] = r.get("smt2")
        o["pc"] = r.get("pc")
        o["reason"] = r.get("reason")
        o["outcome"] = outcome[0] if outcome[0] == "return" else repr(outcome[1])
        o["model"] = r.get("model")
    return o


def run_variant(repo, world, variant, deadline_s=None):
    """Symbolically execute every path of the variant and discharge all
    obligations.  -> dict (JSON-able)."""
    t0 = time.time()
    # variants register contracts / hooks on the shared world in setup(): start each from the same baseline
    base = getattr(world, "_baseline", None)
    if base is None:
        world._baseline = base = {k: dict(getattr(world, k)) for k in ("config", "contracts", "loop_contracts", "custom_globals")
                                  if isinstance(getattr(world, k, None), dict)}
    for k, v in base.items():
        d = getattr(world, k)
        d.clear()
        d.update(v)
    ex = Exec(repo, world)
    ex.max_arity = variant.max_arity
    ex.loop_bound = variant.loop_bound
    world.verifying = variant.qualname
    ex.witness_fn = lambda m: variant.witness(m, ex)
    res = {"variant": variant.name, "qualname": variant.qualname, "props": list(variant.prop_ids),
           "paths": 0, "aborted": {}, "unsupported": None, "obligations": [], "bounded": variant.bounded,
           "inlined": set(), "contracts_used": set(), "notes": set(), "replay_kind": getattr(variant, "replay_kind", None)}
    npaths = 0
    while True:
        ex.reset_path()
        try:
            f, args, kwargs = variant.setup(ex)
            try:
                v = ex.call(f, args, kwargs)
                outcome = ("return", v)
            except PyRaise as pr:
                outcome = ("raise", pr.exc)
            goals = variant.check(ex, outcome)
            npaths += 1
            pid = "p%d" % npaths
            for (n, g) in goals:
                r = ex.prove(n, g)
                kc = variant.known_class(n) if r["status"] == "refuted" else None
                if kc is not None:
                    # a listed finding: everything outside its witness class must still be proved
                    kid, cls = kc
                    r2 = ex.prove(n, z3.Or(g, cls))
                    if r2["status"] == "proved":
                        r["status"], r["known_id"] = "known", kid
                ex.results.append(r)
            for r in ex.results:
                res["obligations"].append(finish(variant, ex, r, pid, outcome))
            res["inlined"] |= ex.inlined
            res["contracts_used"] |= ex.used_contracts
            res["notes"] |= set(ex.notes)
        except PathAbort as pa:
            res["aborted"][pa.why] = res["aborted"].get(pa.why, 0) + 1
            res["notes"] |= set(ex.notes)
            # obligations raised before the cut still count
            for r in ex.results:
                res["obligations"].append(finish(variant, ex, r, "cut", ("return", None)))
        except Unsupported as u:
            res["unsupported"] = str(u)
            break
        except PyRaise as pr:
            # the variant's own set-up (building the pre-state through real constructors) or its check raised: the
            # function under contract was not reached on this path - out of reach, never a verdict by itself
            res["unsupported"] = "set-up / check raised %r" % (pr.exc,)
            break
        except RecursionError:
            res["unsupported"] = "python recursion limit in the executor"
            break
        except (z3.Z3Exception, TypeError, AttributeError, KeyError, IndexError, ValueError, AssertionError) as e:
            # a defect of the engine on this function: reported as out of reach, never as a verdict
            tb = traceback.format_exc().strip().split("\n")
            res["unsupported"] = "engine error: %r at %s" % (e, " | ".join(x.strip() for x in tb[-4:-1]))
            break
        if not ex.next_path():
            break
        if npaths > 20000:
            res["unsupported"] = "path explosion (>20000)"
            break
        if deadline_s is not None and time.time() - t0 > deadline_s:
            res["unsupported"] = "time budget of %ds exceeded after %d paths" % (deadline_s, npaths)
            break
    if npaths == 0 and not res["unsupported"] and not res["obligations"]:
        # vacuity guard per variant: no path reached the check (every path was cut or infeasible) - nothing was decided
        res["unsupported"] = "no feasible path reached the function under contract (cut: %s)" % (dict(res["aborted"]) or "none")
    res["paths"] = npaths
    res["seconds"] = round(time.time() - t0, 3)
    for k in ("inlined", "contracts_used", "notes"):
        res[k] = sorted(res[k])
    return res
