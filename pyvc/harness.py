"""Runs variants (function x input shape) through the symbolic executor and
discharges the resulting obligations."""
import hashlib
import json
import os
import subprocess
import tempfile
import time
import traceback

import z3

from . import sorts as S
from . import spec
from .symex import Exec, PathAbort, PyRaise, Unsupported


class Variant:
    """One verification task: a function of /repo executed on one input shape."""
    prop_ids = ()
    name = "variant"
    qualname = None
    max_arity = 3
    loop_bound = 12
    bounded = None           # None | 'arity' | 'width' : family label

    def setup(self, ex):
        """-> (callable value, args, kwargs); assumes the pre-condition"""
        raise NotImplementedError

    def check(self, ex, outcome):
        """outcome = ('return', value) | ('raise', ExcVal) -> [(name, goal z3 Bool)]"""
        raise NotImplementedError

    def witness(self, model, ex):
        """optional: JSON-able description of the inputs in a counter-model"""
        return None


class ObligationResult:
    __slots__ = ("name", "status", "backend", "rlimit", "time", "model", "path", "smt2", "extra")

    def __init__(self, name, status, backend=None, rlimit=0, time=0.0, model=None, path=None, smt2=None, extra=None):
        self.name, self.status, self.backend, self.rlimit, self.time = name, status, backend, rlimit, time
        self.model, self.path, self.smt2, self.extra = model, path, smt2, extra

    def to_json(self):
        return {k: getattr(self, k) for k in self.__slots__}


RLIMIT = int(os.environ.get("PYVC_RLIMIT", "40000000"))
WALL_MS = int(os.environ.get("PYVC_WALL_MS", "60000"))
CVC5 = os.environ.get("PYVC_CVC5", "/usr/bin/cvc5")


def path_lemmas():
    lem = spec.arith_lemmas()
    lem += spec.array_axioms()
    return lem


def discharge(hyps, goal, lem, rlimit=RLIMIT, want_model=True):
    """-> (status, backend, rlimit_used, seconds, model or None, smt2 text on failure)"""
    t0 = time.time()
    base = list(hyps)
    neg = z3.Not(goal)
    s = z3.Solver()
    s.set("rlimit", rlimit)
    s.set("timeout", WALL_MS)
    for h in base:
        s.add(h)
    for l in lem:
        s.add(l)
    s.add(neg)
    r = s.check()
    used = 0
    try:
        st = s.statistics()
        for k in st.keys():
            if k == "rlimit count":
                used = int(st.get_key_value(k))
    except Exception:
        pass
    dt = time.time() - t0
    if r == z3.unsat:
        return "proved", "z3", used, dt, None, None
    if r == z3.sat:
        return "refuted", "z3", used, dt, s.model() if want_model else None, s.to_smt2()
    # unknown: second opinion
    smt2 = s.to_smt2()
    st2 = try_cvc5(smt2)
    dt = time.time() - t0
    if st2 == "unsat":
        return "proved", "cvc5", used, dt, None, None
    return "undecided", "z3+cvc5" if st2 else "z3", used, dt, None, smt2


def try_cvc5(smt2):
    if not os.path.exists(CVC5):
        return None
    if "(_ map" in smt2 or "seq." in smt2:
        return None
    with tempfile.NamedTemporaryFile("w", suffix=".smt2", delete=False) as f:
        f.write("(set-logic ALL)\n" + smt2)
        path = f.name
    try:
        out = subprocess.run([CVC5, "--strings-exp", "--tlimit=30000", path], capture_output=True, text=True, timeout=40)
        ans = out.stdout.strip().split("\n")[0] if out.stdout.strip() else ""
        return ans if ans in ("sat", "unsat") else None
    except Exception:
        return None
    finally:
        os.unlink(path)


def run_variant(repo, world, variant, want_paths=False):
    """Symbolically execute every path of the variant and discharge all
    obligations.  -> dict (JSON-able)."""
    t0 = time.time()
    ex = Exec(repo, world)
    ex.max_arity = variant.max_arity
    ex.loop_bound = variant.loop_bound
    world.verifying = variant.qualname
    res = {"variant": variant.name, "qualname": variant.qualname, "props": list(variant.prop_ids),
           "paths": 0, "aborted": {}, "unsupported": None, "obligations": [], "bounded": variant.bounded,
           "inlined": set(), "contracts_used": set(), "notes": set()}
    npaths = 0
    while True:
        ex.reset_path()
        try:
            f, args, kwargs = variant.setup(ex)
            try:
                v = ex.call(f, args, kwargs)
                outcome = ("return", v)
            except PyRaise as pr:
                outcome = ("raise", pr.exc)
            goals = variant.check(ex, outcome)
            npaths += 1
            pid = "p%d" % npaths
            hyps = list(ex.hyps)
            allob = [(n, g, k) for (n, g, k) in ex.obls] + [(n, g, len(hyps)) for (n, g) in goals]
            lem = path_lemmas()
            for (n, g, k) in allob:
                status, backend, used, dt, model, smt2 = discharge(hyps[:k], g, lem)
                o = ObligationResult("%s/%s/%s" % (variant.name, pid, n), status, backend, used, round(dt, 4))
                if status != "proved":
                    o.smt2 = smt2
                    o.path = [str(c) for c in ex.pc][:60]
                    if model is not None:
                        try:
                            o.model = variant.witness(model, ex)
                        except Exception as e:  # witness extraction must never hide the failure
                            o.model = {"witness-error": repr(e)}
                    o.extra = {"outcome": outcome[0] if outcome[0] == "return" else repr(outcome[1])}
                res["obligations"].append(o.to_json())
            res["inlined"] |= ex.inlined
            res["contracts_used"] |= ex.used_contracts
            res["notes"] |= set(ex.notes)
        except PathAbort as pa:
            res["aborted"][pa.why] = res["aborted"].get(pa.why, 0) + 1
            res["notes"] |= set(ex.notes)
        except Unsupported as u:
            res["unsupported"] = str(u)
            break
        except RecursionError:
            res["unsupported"] = "python recursion limit in the executor"
            break
        if not ex.next_path():
            break
        if npaths > 20000:
            res["unsupported"] = "path explosion (>20000)"
            break
    res["paths"] = npaths
    res["seconds"] = round(time.time() - t0, 3)
    for k in ("inlined", "contracts_used", "notes"):
        res[k] = sorted(res[k])
    return res
