"""Semantic model used by the symbolic executor: name resolution against the
real modules, the meaning of Python builtins/operators on symbolic values, the
FNode / PySMTType object model, modular calls through contracts, and on-demand
unfolding of the specification at nodes whose operator becomes known."""
import ast
from fractions import Fraction

import z3

from . import sorts as S
from . import spec
from .sorts import Node, Ty, I, B, R
from .symex import (Unsupported, PathAbort, PyRaise, ExcVal, ExcClass, Obj, ClassRef, ModuleRef,
                    FuncVal, Builtin, ContentView, PayloadView, ArgsView, QVars, ZSetTuple,
                    SetVal, DictVal, Opaque, FloatVal, EXC_PARENTS, Frame,
                    is_z3, is_node, is_ty, is_sym_int, is_sym_bool, is_sym_real, is_sym_str,
                    is_zset, to_int, to_real, to_bool, to_str, is_numeric, is_boolish,
                    is_realish, is_intish, is_strish, concrete, z3const)

PY_BUILTIN_EXC = set(EXC_PARENTS)


class Contract:
    """Modular summary of a repository function.

    `apply(ex, args, kwargs)` is used at call sites: it may record
    callee-requires obligations (ex.oblige), fork (ex.decide), raise PyRaise and
    returns the symbolic result after assuming the post-condition.
    `when(ex, args, kwargs)` -> bool: whether the summary is used for this call
    shape (otherwise the body is inlined)."""
    qualname = None
    assumed = None          # reason string when the contract is NOT verified against the body

    def when(self, ex, args, kwargs):
        return True

    def apply(self, ex, args, kwargs):
        raise NotImplementedError


class World:
    def __init__(self, repo):
        self.repo = repo
        self.contracts = {}           # qualname -> Contract
        self.loop_contracts = {}      # (qualname, ordinal) -> loop contract object
        self.builtins = {}
        self.env_obj = None           # the global Environment object (set by harness)
        self.verifying = None         # qualname of the function being verified
        self.no_inline = set()
        self.mk_decls = {}
        self.type_consts = {}
        self.exc_classes = {}
        self.custom_globals = {}      # (modname, name) -> value
        self.config = {}
        self._fact_cache = {}
        from . import builtins_impl
        builtins_impl.install(self)

    # ------------------------------------------------------------------
    # exception hierarchy (builtins + pysmt.exceptions parsed from source)
    # ------------------------------------------------------------------
    def exc_parent(self, name):
        if name in EXC_PARENTS:
            return EXC_PARENTS[name]
        mi = self.repo.module("pysmt.exceptions")
        ci = mi.classes.get(name) if mi else None
        if ci and ci["bases"]:
            return ci["bases"][0].split(".")[-1]
        return "Exception"

    def is_exc_class(self, name):
        if name in EXC_PARENTS:
            return True
        mi = self.repo.module("pysmt.exceptions")
        return bool(mi and name in mi.classes)

    # ------------------------------------------------------------------
    # name resolution
    # ------------------------------------------------------------------
    def global_name(self, ex, modname, name):
        if (modname, name) in self.custom_globals:
            return self.custom_globals[(modname, name)]
        mi = self.repo.module(modname) if modname else None
        if mi is not None:
            if name in mi.functions:
                return self.wrap_func(mi.functions[name], modname)
            if name in mi.classes:
                return self.class_value(modname + "." + name)
            if name in mi.imports:
                imp = mi.imports[name]
                if imp[0] == "module":
                    return ModuleRef(imp[1])
                return self.module_attr(ex, imp[1], imp[2])
            if name in mi.assigns:
                v = self.module_const(ex, modname, name)
                if v is not KeyError:
                    return v
        if name in self.builtins:
            return self.builtins[name]
        if name in PY_BUILTIN_EXC:
            return ExcClass(name)
        raise Unsupported("unresolved name %s in %s" % (name, modname))

    def class_value(self, qual):
        name = qual.rsplit(".", 1)[1]
        if qual.startswith("pysmt.exceptions.") or self._is_exc_subclass(qual):
            return ExcClass(name)
        return ClassRef(qual)

    def _is_exc_subclass(self, qual):
        for c in self.repo.mro(qual):
            if c.startswith("builtins.") and c.split(".")[1] in EXC_PARENTS:
                return True
            if c.startswith("pysmt.exceptions."):
                return True
        return False

    def module_const(self, ex, modname, name):
        v = self.repo.const(modname, name)
        if v is KeyError:
            # type singletons etc.
            sv = self.special_module_value(modname, name)
            return sv
        return self._dec(v)

    def _dec(self, v):
        if isinstance(v, dict):
            if "__set__" in v:
                return frozenset(v["__set__"])
            if "__list__" in v:
                return [self._dec(x) for x in v["__list__"]]
            if "__tuple__" in v:
                return tuple(self._dec(x) for x in v["__tuple__"])
        return v

    def special_module_value(self, modname, name):
        if modname == "pysmt.typing":
            m = {"BOOL": S.BoolT, "INT": S.IntT, "REAL": S.RealT, "STRING": S.StrT,
                 "BV1": S.BVT(1), "BV8": S.BVT(8), "BV16": S.BVT(16), "BV32": S.BVT(32),
                 "BV64": S.BVT(64), "BV128": S.BVT(128)}
            if name in m:
                return m[name]
        return KeyError

    def module_attr(self, ex, modname, attr):
        if (modname, attr) in self.custom_globals:
            return self.custom_globals[(modname, attr)]
        if modname and modname.startswith("pysmt"):
            mi = self.repo.module(modname)
            if mi is None:
                raise Unsupported("module %s not found" % modname)
            # sub-module?
            if self.repo.module(modname + "." + attr) is not None and attr not in mi.functions \
                    and attr not in mi.classes and attr not in mi.assigns:
                return ModuleRef(modname + "." + attr)
            return self.global_name(ex, modname, attr)
        key = "%s.%s" % (modname, attr)
        if key in self.builtins:
            return self.builtins[key]
        raise Unsupported("external name %s" % key)

    def wrap_func(self, fi, modname, bound=None, owner=None):
        fv = FuncVal(fi, modname, None, bound, fi.node, owner)
        return fv

    # ------------------------------------------------------------------
    # attribute access
    # ------------------------------------------------------------------
    def getattr(self, ex, o, attr):
        if isinstance(o, ModuleRef):
            return self.module_attr(ex, o.name, attr)
        if is_node(o):
            return self.node_attr(ex, o, attr)
        if is_ty(o):
            return self.ty_attr(ex, o, attr)
        if isinstance(o, ContentView):
            if attr == "node_type":
                return S.op(o.n)
            if attr == "args":
                return ArgsView(o.n)
            if attr == "payload":
                return PayloadView(o.n)
        if isinstance(o, Obj):
            return self.obj_attr(ex, o, attr)
        if isinstance(o, ClassRef):
            fi = self.repo.method(o.qual, attr)
            if fi is not None:
                if any(d == "classmethod" for d in fi.decorators):
                    return self.wrap_func(fi, fi.module, bound=o, owner=o.qual)
                return self.wrap_func(fi, fi.module, owner=o.qual)
            mi, e = self.repo.class_attr(o.qual, attr)
            if e is not None:
                return ex.eval(e, Frame(None, {}, mi.name))
            raise Unsupported("class attribute %s.%s" % (o.qual, attr))
        if isinstance(o, ExcVal):
            if attr in o.kwargs:
                return o.kwargs[attr]
            if attr == "args":
                return o.args
            if attr == "message":
                return o.args[0] if o.args else Opaque("message")
            return Opaque("exc-attr")
        if attr == "limit_denominator" and (is_sym_real(o) or is_sym_int(o) or isinstance(o, (int, Fraction))):
            # Fraction.limit_denominator(max_denominator=10**6): SOME fraction with a denominator of at most the bound, the
            # number itself when it is an integer (an over-approximation: which fraction is not modelled)
            def limit(exx, a, kw, o=o):
                from . import builtins_impl as BI
                bound = a[0] if a else kw.get("max_denominator", 1000000)
                x = BI.to_real(o)
                r = exx.fresh("limited", z3.RealSort())
                d = exx.fresh("limited_den", I)
                n_ = exx.fresh("limited_num", I)
                exx.assume(z3.And(d >= 1, d <= BI.to_int(bound), z3.ToReal(n_) == r * z3.ToReal(d)))
                exx.assume(z3.Implies(z3.IsInt(x), r == x))
                return r
            return Builtin("limit_denominator", limit)
        if attr in ("denominator", "numerator") and (is_sym_real(o) or is_sym_int(o) or
                                                     isinstance(o, (int, Fraction))):
            if isinstance(o, (int, Fraction)):
                return getattr(Fraction(o), attr)
            if is_sym_int(o):
                return 1 if attr == "denominator" else o
            d = ex.fresh("den", I)
            ex.assume(d >= 1)
            ex.assume((d == 1) == z3.IsInt(o))
            if attr == "denominator":
                return d
            n = ex.fresh("num", I)
            ex.assume(z3.ToReal(n) == o * z3.ToReal(d))
            return n
        key = (type(o).__name__, attr)
        m = self.builtins.get("method:%s.%s" % key)
        if m is None:
            if isinstance(o, z3.SeqRef) and o.sort() == S.S:
                m = self.builtins.get("method:str.%s" % attr)
            elif is_zset(o):
                m = self.builtins.get("method:zset.%s" % attr)
        if m is not None:
            return Builtin(m.name, m.fn, bound=o)
        if isinstance(o, FuncVal) and attr in ("__name__",):
            return o.fi.name
        if isinstance(o, FuncVal) and attr == "nodetypes":
            raise PyRaise(ExcVal("AttributeError"))
        if isinstance(o, FloatVal) and attr == "is_integer":
            raise Unsupported("float.is_integer")
        raise Unsupported("attribute %s of %r" % (attr, type(o).__name__))

    def obj_attr(self, ex, o, attr):
        if attr in o.fields:
            return o.fields[attr]
        if attr == "__class__":
            return ClassRef(o.cls)
        fi = self.repo.method(o.cls, attr)
        if fi is not None:
            owner = fi.qualname.rsplit(".", 1)[0]
            if "property" in fi.decorators:
                return self.call(ex, self.wrap_func(fi, fi.module, bound=o, owner=owner), [], {}, None)
            if "staticmethod" in fi.decorators:
                return self.wrap_func(fi, fi.module, owner=owner)
            if "classmethod" in fi.decorators:
                return self.wrap_func(fi, fi.module, bound=ClassRef(o.cls), owner=owner)
            return self.wrap_func(fi, fi.module, bound=o, owner=owner)
        mi, e = self.repo.class_attr(o.cls, attr)
        if e is not None:
            return ex.eval(e, Frame(None, {}, mi.name))
        hook = self.config.get("missing_attr")
        if hook:
            v = hook(ex, o, attr)
            if v is not KeyError:
                return v
        # the object was put together by a contract, not by its constructor: an attribute that the class itself sets is
        # missing from the model, not from the program - initialise it as the constructor does when that is a literal,
        # otherwise the variant cannot judge this code (out of reach, never an AttributeError that reads as a violation)
        init = self._class_attr_initialiser(o.cls, attr)
        if init is not None:
            kind, node = init
            if kind == "literal":
                v = self._literal_value(node)
                if v is not KeyError:
                    o.fields[attr] = v
                    ex.ghost.setdefault("lazy_fields", []).append((o, attr))
                    return v
            raise Unsupported("attribute %s of %s is set by the class but not modelled by this contract" % (attr, o.cls))
        raise PyRaise(ExcVal("AttributeError", (attr,)))

    def _class_attr_initialiser(self, cls, attr):
        """-> None if no class of the MRO assigns self.<attr>; ("literal", ast) for a literal initialiser in an __init__;
        ("other", None) otherwise"""
        cache = self.__dict__.setdefault("_attr_init_cache", {})
        key = (cls, attr)
        if key in cache:
            return cache[key]
        res = None
        try:
            mro = self.repo.mro(cls)
        except Exception:
            mro = []
        for c in mro:
            mi, ci = self.repo.find_class(c)
            if not ci:
                continue
            for mname, fi in ci["methods"].items():
                for n in ast.walk(fi.node):
                    tgt, val = None, None
                    if isinstance(n, ast.Assign) and len(n.targets) == 1:
                        tgt, val = n.targets[0], n.value
                    elif isinstance(n, ast.AnnAssign):
                        tgt, val = n.target, n.value
                    if isinstance(tgt, ast.Attribute) and isinstance(tgt.value, ast.Name) and tgt.value.id == "self" and tgt.attr == attr:
                        if mname == "__init__" and val is not None and self._literal_value(val) is not KeyError:
                            res = ("literal", val)
                            break
                        if res is None:
                            res = ("other", None)
                if res is not None and res[0] == "literal":
                    break
            if res is not None and res[0] == "literal":
                break
        cache[key] = res
        return res

    def _literal_value(self, node):
        from .symex import SetVal, DictVal
        if isinstance(node, ast.Constant):
            return node.value
        if isinstance(node, ast.Dict) and not node.keys:
            return DictVal()
        if isinstance(node, ast.List) and not node.elts:
            return []
        if isinstance(node, ast.Tuple) and not node.elts:
            return ()
        if isinstance(node, ast.Call) and not node.args and not node.keywords and isinstance(node.func, ast.Name):
            if node.func.id == "dict":
                return DictVal()
            if node.func.id == "list":
                return []
            if node.func.id == "set":
                return SetVal()
        return KeyError

    def node_attr(self, ex, n, attr):
        if attr == "_content":
            return ContentView(n)
        if attr == "_node_id":
            return S.nid(n)
        fi = self.repo.method("pysmt.fnode.FNode", attr)
        if fi is None:
            raise PyRaise(ExcVal("AttributeError", (attr,)))
        return self.wrap_func(fi, "pysmt.fnode", bound=n, owner="pysmt.fnode.FNode")

    def ty_attr(self, ex, t, attr):
        b = self.builtins.get("method:Ty." + attr)
        if b is None:
            raise Unsupported("type attribute " + attr)
        if getattr(b, "is_property", False):
            return b.fn(ex, [t], {})
        return Builtin(b.name, b.fn, bound=t)

    def setattr(self, ex, o, attr, v):
        if isinstance(o, Obj):
            hook = self.config.get("on_setattr")
            if hook:
                hook(ex, o, attr, v)
            o.fields[attr] = v
            return
        raise Unsupported("setattr on %r" % (o,))

    # ------------------------------------------------------------------
    # calls
    # ------------------------------------------------------------------
    def call(self, ex, f, args, kwargs, site):
        if isinstance(f, Builtin):
            a = ([f.bound] + list(args)) if f.bound is not None else list(args)
            return f.fn(ex, a, kwargs)
        if isinstance(f, FuncVal):
            q = f.qualname
            c = self.contracts.get(q)
            if isinstance(f.bound, Obj) and f.fi is not None:
                # contract attached to the receiver's class for an inherited method
                c2 = self.contracts.get("%s::%s" % (f.bound.cls, f.fi.name))
                if c2 is not None:
                    c, q = c2, c2.qualname
            full = ([f.bound] + list(args)) if f.bound is not None else list(args)
            if c is not None and c.when(ex, full, kwargs) and not self._is_entry(ex, q):
                ex.used_contracts.add(q)
                return c.apply(ex, full, kwargs)
            if f.fi is not None and getattr(f.fi, "decorators", None):
                f2 = self.undecorate(ex, f, full, kwargs)
                if f2 is not f:
                    return f2
            if q in self.no_inline:
                raise Unsupported("call to %s: no contract and not inlinable" % q)
            ex.inlined.add(q)
            return ex.run_function(f, args, kwargs)
        if isinstance(f, ClassRef):
            return self.instantiate(ex, f, args, kwargs)
        if isinstance(f, ExcClass):
            return ExcVal(f.name, args, kwargs)
        if isinstance(f, Obj):
            fi = self.repo.method(f.cls, "__call__")
            if fi is not None:
                return self.call(ex, self.wrap_func(fi, fi.module, bound=f), args, kwargs, site)
        if is_node(f):
            return self.node_dunder(ex, f, "__call__", args)
        if f is None or isinstance(f, (int, str, bool, tuple, list)):
            raise PyRaise(ExcVal("TypeError", ("object is not callable",)))
        raise Unsupported("call of %r" % (f,))

    def _is_entry(self, ex, q):
        """the function being verified is executed, not summarised, at depth 0"""
        return ex.depth == 0 and q == self.verifying

    def undecorate(self, ex, f, full, kwargs):
        """Decorators are applied from their real source (pysmt/decorators.py): the wrapper
        they return is what gets called.  property/staticmethod/classmethod/@handles only
        affect binding and dispatch; @deprecated only warns."""
        if getattr(f, "raw", False):
            return f
        decs = []
        for dn in f.fi.node.decorator_list:
            d = ast.unparse(dn)
            if d in ("property", "staticmethod", "classmethod") or d.startswith("handles(") or \
                    d.startswith("walkers.handles(") or d.startswith("pysmt.walkers.handles(") or \
                    d.startswith("deprecated(") or ".setter" in d:
                continue
            decs.append(dn)
        if not decs:
            return f
        cur = FuncVal(f.fi, f.modname, f.closure, None, f.node, f.owner)
        cur.raw = True
        for dn in reversed(decs):
            dv = ex.eval(dn, Frame(None, {}, f.modname))
            cur = self.call(ex, dv, [cur], {}, None)
        return self.call(ex, cur, full, kwargs, None)

    def instantiate(self, ex, cref, args, kwargs):
        b = self.builtins.get("new:" + cref.qual)
        if b is not None:
            return b.fn(ex, list(args), kwargs)
        c = self.contracts.get("new:" + cref.qual)
        if c is not None:
            return c.apply(ex, list(args), kwargs)
        o = Obj(cref.qual)
        hook = self.config.get("on_new")
        if hook:
            hook(ex, o)
        fi = self.repo.method(cref.qual, "__init__")
        if fi is not None:
            self.call(ex, self.wrap_func(fi, fi.module, bound=o, owner=fi.qualname.rsplit(".", 1)[0]), args, kwargs, None)
        return o

    def node_dunder(self, ex, n, name, args):
        fi = self.repo.method("pysmt.fnode.FNode", name)
        if fi is None:
            raise PyRaise(ExcVal("TypeError", ("unsupported operand",)))
        return self.call(ex, self.wrap_func(fi, "pysmt.fnode", bound=n, owner="pysmt.fnode.FNode"), list(args), {}, None)

    # ------------------------------------------------------------------
    # loops
    # ------------------------------------------------------------------
    def loop_contract(self, ex, fr, st):
        if fr.fn is None or not self.loop_contracts:
            return None
        q = fr.fn.qualname
        loops = [n for n in ast.walk(fr.fn.node) if isinstance(n, (ast.For, ast.While))]
        loops.sort(key=lambda n: (n.lineno, n.col_offset))
        try:
            idx = loops.index(st)
        except ValueError:
            return None
        return self.loop_contracts.get((q, idx))

    # ------------------------------------------------------------------
    # generators / yields: recorded as events (printers); set by harnesses
    # ------------------------------------------------------------------
    def make_generator(self, ex, fv, fr):
        h = self.config.get("generator")
        if h is None:
            raise Unsupported("generator function %s" % fv.qualname)
        return h(ex, fv, fr)

    def on_yield(self, ex, fr, v):
        h = self.config.get("yield")
        if h is None:
            raise Unsupported("yield")
        return h(ex, fr, v)

    # ------------------------------------------------------------------
    # spec unfolding
    # ------------------------------------------------------------------
    def on_literal(self, ex, c, choice):
        """c is a simplified z3 Bool just decided with value `choice`."""
        while z3.is_not(c):
            c = c.arg(0)
            choice = not choice
        if not choice:
            return
        self.scan_literal(ex, c)

    def touch(self, ex, t):
        """First contact with a node term on this path: node-invariant facts
        that need neither operator nor arity."""
        seen = ex.ghost.setdefault("touched", {})
        k = t.get_id()
        if k in seen:
            return t
        seen[k] = t
        for f in self.cached_facts(("shallow", k, t), lambda: spec.shallow_facts(t)):
            ex.assume(f)
        return t

    def scan_literal(self, ex, c):
        if z3.is_and(c):
            for x in c.children():
                self.scan_literal(ex, x)
            return
        if z3.is_eq(c):
            a, b = c.children()
            if z3.is_int_value(a):
                a, b = b, a
            if z3.is_int_value(b) and z3.is_app(a):
                d = a.decl()
                if d.eq(S.op):
                    self.learn(ex, a.arg(0), op=b.as_long())
                elif d.eq(S.nargs):
                    self.learn(ex, a.arg(0), k=b.as_long())

    def learn(self, ex, t, op=None, k=None, raw=False):
        """raw=True: only record operator/arity (node under construction: the
        node invariant is what is being established, it must not be assumed)"""
        if raw:
            st = ex.ghost.setdefault("nodeinfo", {})
            info = st.setdefault(t.get_id(), {"t": t, "op": None, "k": None})
            if op is not None:
                info["op"] = op
            if k is not None:
                info["k"] = k
            ex.unfolded.add(t.get_id())
            return
        self.touch(ex, t)
        st = ex.ghost.setdefault("nodeinfo", {})
        key = t.get_id()
        info = st.setdefault(key, {"t": t, "op": None, "k": None})
        if op is not None:
            info["op"] = op
            if op in S.FIXED_ARITY:
                info["k"] = S.FIXED_ARITY[op]
        if k is not None:
            info["k"] = k
        if info["op"] is not None and info["k"] is not None and key not in ex.unfolded:
            ex.unfolded.add(key)
            self.unfold(ex, t, info["op"], info["k"])

    def known(self, ex, t):
        info = ex.ghost.get("nodeinfo", {}).get(t.get_id())
        if info is None:
            return None, None
        return info["op"], info["k"]

    def cached_facts(self, key, builder):
        """Facts are pure functions of the terms they mention: build once per
        run, replay (with their tracked lemma terms) on later paths."""
        c = self._fact_cache.get(key)
        if c is None:
            j0 = len(S.JOURNAL)
            facts = list(builder())
            c = (facts, list(S.JOURNAL[j0:]))
            self._fact_cache[key] = c
        else:
            S.replay_tracking(c[1])
        return c[0]

    def unfold(self, ex, t, Kop, k):
        if Kop not in S.FIXED_ARITY and Kop not in S.NARY_OPS:
            return

        def build():
            fs = list(spec.unfold(t, Kop, k))
            fs.append(S.op(t) == Kop)
            # hash-consing: a node is determined by its content (C04 contract)
            m = self.mk_term(Kop, [S.arg(t, S.K(i)) for i in range(k)], self.payload_terms(Kop, t))
            if not m.eq(t):
                fs.append(t == m)
            return fs
        for f in self.cached_facts(("unfold", t.get_id(), Kop, k, t), build):
            ex.assume(f)

    # ---- content -> node function symbols ------------------------------------
    def payload_terms(self, Kop, t):
        if Kop == S.INT_CONSTANT:
            return [S.pl_int(t)]
        if Kop == S.REAL_CONSTANT:
            return [S.pl_real(t)]
        if Kop == S.BOOL_CONSTANT:
            return [S.pl_bool(t)]
        if Kop == S.STR_CONSTANT:
            return [S.pl_str(t)]
        if Kop == S.ALGEBRAIC_CONSTANT:
            return [S.pl_alg(t)]
        if Kop == S.BV_CONSTANT:
            return [S.pl_int(t), S.pl_w(t)]
        if Kop == S.SYMBOL:
            return [S.pl_str(t), S.pl_ty(t)]
        if Kop == S.FUNCTION:
            return [S.pl_node(t)]
        if Kop in S.QUANT_OPS:
            return [S.qvset(t), S.pl_alg(t)]
        if Kop == S.ARRAY_VALUE:
            return [S.pl_ty(t)]
        if Kop == S.BV_EXTRACT:
            return [S.pl_w(t), S.pl_i1(t), S.pl_i2(t)]
        if Kop in (S.BV_ROL, S.BV_ROR, S.BV_ZEXT, S.BV_SEXT):
            return [S.pl_w(t), S.pl_i1(t)]
        if Kop in S.BV_W_OPS:
            return [S.pl_w(t)]
        return []

    def payload_projs(self, Kop):
        d = z3.Const("d", Node)
        return [p.decl() for p in self.payload_terms(Kop, d)]

    def mk_term(self, Kop, args, payload):
        key = (Kop, len(args))
        if key not in self.mk_decls:
            sig = [Node] * len(args) + [p.sort() for p in payload] + [Node]
            self.mk_decls[key] = z3.Function("mk_%s_%d" % (S.OPNAMES[Kop], len(args)), *sig)
        f = self.mk_decls[key]
        allargs = list(args) + list(payload)
        if not allargs:
            return z3.Const("mk_%s_0c" % S.OPNAMES[Kop], Node)
        return f(*allargs)

    def new_node(self, ex, Kop, args, payload, check=True):
        """create_node summary: the node with this content; raises the typing
        error when the typing rules reject it (check=True)."""
        m = self.mk_term(Kop, args, payload)

        def build():
            fs = [S.op(m) == Kop, S.nargs(m) == len(args)]
            for i, a in enumerate(args):
                fs.append(S.arg(m, S.K(i)) == a)
            for proj, p in zip(self.payload_projs(Kop), payload):
                fs.append(proj(m) == p)
            return fs
        for f in self.cached_facts(("new", m.get_id(), m), build):
            ex.assume(f)
        if check:
            ok, _ = spec.type_rule(Kop, m, [S.type_of(a) for a in args])
            if not ex.decide(ok):
                raise PyRaise(ExcVal("PysmtTypeError", ("ill-typed node",)))
        self.learn(ex, m, op=Kop, k=len(args))
        return m

    # ------------------------------------------------------------------
    # operators on symbolic values
    # ------------------------------------------------------------------
    def binop(self, ex, opname, a, b):
        from . import builtins_impl
        return builtins_impl.binop(self, ex, opname, a, b)

    def compare(self, ex, opname, a, b):
        from . import builtins_impl
        return builtins_impl.compare(self, ex, opname, a, b)

    def length(self, ex, v):
        from . import builtins_impl
        return builtins_impl.length(self, ex, v)

    def iterate(self, ex, v):
        from . import builtins_impl
        return builtins_impl.iterate(self, ex, v)

    def getitem(self, ex, o, k):
        from . import builtins_impl
        return builtins_impl.getitem(self, ex, o, k)

    def setitem(self, ex, o, k, v):
        from . import builtins_impl
        return builtins_impl.setitem(self, ex, o, k, v)

    def delitem(self, ex, o, k):
        from . import builtins_impl
        return builtins_impl.delitem(self, ex, o, k)

    def make_set(self, ex, items, frozen=False):
        from . import builtins_impl
        return builtins_impl.make_set(self, ex, items, frozen)

    def make_dict(self, ex, items):
        from . import builtins_impl
        return builtins_impl.make_dict(self, ex, items)

    def to_str(self, ex, v):
        from . import builtins_impl
        return builtins_impl.to_str_value(self, ex, v)

    def str_concat(self, ex, parts):
        from . import builtins_impl
        return builtins_impl.str_concat(self, ex, parts)

    def str_format(self, ex, fmt, args):
        from . import builtins_impl
        return builtins_impl.str_format(self, ex, fmt, args)
