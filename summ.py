import json, sys, collections
rs = json.load(open(sys.argv[1]))
for r in sorted(rs, key=lambda r: r.get('variant','')):
    if 'crash' in r: print('CRASH', r['crash'][-300:]); continue
    st = collections.Counter(o['status'] for o in r['obligations'])
    cl = collections.Counter(o['name'].rsplit('/',1)[1] for o in r['obligations'] if o['status']!='proved')
    flag = '' if not r['unsupported'] and st.get('proved',0)==len(r['obligations']) else ' <<<'
    print('%-40s paths=%-5d %s aborted=%s %ss%s' % (r['variant'], r['paths'], dict(st), r['aborted'], r['seconds'], flag))
    if r['unsupported']: print('      UNSUPPORTED:', r['unsupported'][:300])
    if cl: print('      failing clauses:', dict(cl))
