"""Native replays for the obligation kinds that had none (rewriter, cnf, oracle, walker, sort-identity, parser-reset): the
refuted obligation names the function and clause; the replay looks for a failing input of the real code with the bounded
check of that function family and reports the first one (exit 1) or that none was found."""


def _search(checks, seeds=(0, 1, 2), tier="quick", ignore=()):
    for seed in seeds:
        for chk in checks:
            r = chk(tier, seed)
            vs = [v for v in r.get("violations", []) if v.get("key") not in ignore]
            if vs:
                return True, {"mode": r.get("rule", "")[:300], "failure": vs[0]}
    return False, {"mode": "bounded search of the function family: nothing found"}


def dispatch(rep):
    kind = rep.get("kind")
    variant = rep.get("variant") or ""
    if kind == "oracle":
        from native import bounded_round3
        return _search([bounded_round3.oracles_check], seeds=(0, 1, 2, 3))
    if kind == "rewriter":
        from native import bounded_round3, bounded_more
        if variant.startswith("partition:"):
            ok, d = _search([bounded_round3.partitions_work], seeds=(0,))
            if ok:
                return ok, d
        return _search([bounded_more.rewriters_check])
    if kind == "cnf":
        from native import bounded_more
        return _search([bounded_more.cnf_check])
    if kind == "walker":
        from native import bounded_work
        return _search([bounded_work.failure_check, bounded_work.history_check], seeds=(0, 1), ignore=("simplifier-flattening",))
    if kind == "walker-keys":
        from native import bounded_round3
        return _search([bounded_round3.cross_env_keys], seeds=(0,))
    if kind == "annotations":
        from native import bounded_round3
        return _search([bounded_round3.annotations_check], seeds=(0,))
    if kind == "factory":
        from native import bounded_round3
        return _search([bounded_round3.factory_check], seeds=(0,))
    if kind == "sort-identity":
        from native import bounded_round3
        return _search([bounded_round3.sorts_check], seeds=(0,))
    if kind == "parser-reset":
        from native import bounded_round3
        return _search([bounded_round3.parser_reset_check], seeds=(0,))
    if kind == "parser-declare":
        from native import bounded_round3
        return _search([bounded_round3.declarations_check], seeds=(0,))
    if kind == "factory-registration":
        from native import bounded_round3
        return _search([bounded_round3.registration_check], seeds=(0,))
    if kind == "model-plural":
        from native import bounded_round3
        return _search([bounded_round3.plural_model_check], seeds=(0,))
    return False, {"mode": "no native replay handler for kind %r" % kind}
