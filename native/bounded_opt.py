"""C18 bounded stand-in: the generic optimisation loops of pysmt/optimization/optimizer.py
(both mixins, both strategies, all four modes) driven by an exhaustive-enumeration
satisfiability oracle and compared with the optimum computed by enumeration with the
independent evaluator native/refeval.py.  Labelled bounded, never counted as proved."""
import itertools
import random
from fractions import Fraction
import warnings

from pysmt.typing import BOOL, INT, BVType
from pysmt.logics import QF_BV, QF_LIA, Logic
from pysmt.solvers.solver import IncrementalTrackingSolver, Model
from pysmt.solvers.options import SolverOptions
from pysmt.optimization.optimizer import SUAOptimizerMixin, IncrementalOptimizerMixin
from pysmt.optimization.goal import MaximizationGoal, MinimizationGoal, MinMaxGoal, MaxMinGoal, MaxSMTGoal

from native import refeval

INT_DOMAIN = list(range(-3, 5))


def value_to_const(m, v, ty):
    if ty.is_bool_type():
        return m.Bool(bool(v))
    if ty.is_int_type():
        return m.Int(v)
    if ty.is_real_type():
        return m.Real(v)
    return m.BV(v, ty.width)


class RefModel(Model):
    """model = one interpretation; values by the reference evaluator (not by pysmt's simplifier)"""

    def __init__(self, env, interp):
        Model.__init__(self, env)
        self.interp = dict(interp)

    def get_value(self, formula, model_completion=True):
        I = dict(self.interp)
        for s in formula.get_free_variables():
            if s not in I:
                t = s.symbol_type()
                I[s] = False if t.is_bool_type() else 0
        v = refeval.evaluate(formula, refeval.Interp(I))
        return value_to_const(self.environment.formula_manager, v, refeval.type_of(formula))

    def iterator_over(self, language):
        for x in language:
            yield x, self.get_value(x)

    def __iter__(self):
        m = self.environment.formula_manager
        return iter((s, value_to_const(m, v, s.symbol_type())) for s, v in self.interp.items())

    def __contains__(self, x):
        return x in self.interp


class BruteSolver(IncrementalTrackingSolver):
    """exhaustive enumerator over a fixed universe of symbols; counts the levels of the
    'real' solver behind the tracking layer"""
    LOGICS = [QF_BV, QF_LIA]
    OptionsClass = SolverOptions

    def __init__(self, env, universe, order):
        IncrementalTrackingSolver.__init__(self, env, QF_LIA)
        self.universe = list(universe)
        self.order = order          # 'asc' | 'desc' | random.Random
        self.levels = 0
        self.illegal = None
        self._model = None
        self.queries = 0

    def _reset_assertions(self):
        self.levels = 0

    def _add_assertion(self, formula, named=None):
        return formula

    def _push(self, levels=1):
        self.levels += levels

    def _pop(self, levels=1):
        if levels > self.levels:
            self.illegal = "pop(%d) with %d levels" % (levels, self.levels)
        self.levels -= levels

    def _exit(self):
        pass

    def _domain(self, s):
        t = s.symbol_type()
        if t.is_bool_type():
            d = [False, True]
        elif t.is_int_type():
            d = list(INT_DOMAIN)
        else:
            d = list(range(1 << t.width))
        if self.order == "desc":
            d.reverse()
        elif self.order != "asc":
            self.order.shuffle(d)
        return d

    def _solve(self, assumptions=None):
        fs = list(self.assertions) + list(assumptions or [])
        self.queries += 1
        self._model = None
        for vals in itertools.product(*[self._domain(s) for s in self.universe]):
            I = dict(zip(self.universe, vals))
            memo = {}
            if all(refeval.evaluate(f, refeval.Interp(I), memo) is True for f in fs):
                self._model = RefModel(self.environment, I)
                return True
        return False

    def get_model(self):
        assert self._model is not None, "get_model without a sat answer"
        return self._model

    def get_value(self, formula, model_completion=True):
        return self.get_model().get_value(formula)


class SUABrute(SUAOptimizerMixin, BruteSolver):
    pass


class IncrBrute(IncrementalOptimizerMixin, BruteSolver):
    pass


def goal_value(goal, term, I):
    v = refeval.evaluate(term, refeval.Interp(I))
    t = refeval.type_of(term)
    if t.is_bv_type() and goal.signed:
        v = refeval.signed(v, t.width)
    return v


def cost_key(goal, v):
    """smaller is better"""
    return v if goal.is_minimization_goal() else -v


def ref_term(m, goal):
    """the objective as the property describes it, built independently of goal.term() where that is an encoding"""
    return goal.term()


def ref_goal_value(m, goal, I):
    """value of the objective under I from the goal's *description* (not from its encoding term)"""
    if goal.is_maxsmt_goal():
        tot = 0
        for c, w in goal.soft:
            if refeval.evaluate(c, refeval.Interp(I)) is True:
                tot += w.constant_value()
        return tot
    if goal.is_minmax_goal() or goal.is_maxmin_goal():
        vs = []
        for t in goal.terms:
            v = refeval.evaluate(t, refeval.Interp(I))
            ty = refeval.type_of(t)
            if ty.is_bv_type() and goal.signed:
                v = refeval.signed(v, ty.width)
            vs.append(v)
        return max(vs) if goal.is_minmax_goal() else min(vs)
    return goal_value(goal, goal.term(), I)


def const_value(goal, c):
    if c.is_bv_constant():
        return c.bv_signed_value() if goal.signed else c.constant_value()
    return c.constant_value()


class Problem:
    def __init__(self, env, rng, kind):
        self.env, self.rng = env, rng
        m = self.m = env.formula_manager
        self.kind = kind
        w = self.w = rng.choice([2, 3])
        self.a, self.b = m.Symbol("a", BOOL), m.Symbol("b", BOOL)
        if kind == "bv":
            self.x, self.y = m.Symbol("x%d" % w, BVType(w)), m.Symbol("y%d" % w, BVType(w))
            self.universe = [self.a, self.b, self.x, self.y]
        else:
            self.x, self.y = m.Symbol("i", INT), m.Symbol("j", INT)
            self.universe = [self.a, self.b, self.x, self.y]

    def term(self, depth=2):
        m, rng = self.m, self.rng
        if depth == 0 or rng.random() < 0.3:
            r = rng.random()
            if r < 0.4:
                return self.x
            if r < 0.8:
                return self.y
            if self.kind == "bv":
                return m.BV(rng.randrange(1 << self.w), self.w)
            return m.Int(rng.randint(-3, 3))
        l, r = self.term(depth - 1), self.term(depth - 1)
        if self.kind == "bv":
            op = rng.choice(["add", "sub", "and", "or", "xor", "neg", "not", "ite", "mul"])
            if op == "neg":
                return m.BVNeg(l)
            if op == "not":
                return m.BVNot(l)
            if op == "ite":
                return m.Ite(self.atom(0), l, r)
            return {"add": m.BVAdd, "sub": m.BVSub, "and": m.BVAnd, "or": m.BVOr, "xor": m.BVXor, "mul": m.BVMul}[op](l, r)
        op = rng.choice(["plus", "minus", "ite", "times"])
        if op == "ite":
            return m.Ite(self.atom(0), l, r)
        if op == "times":
            return m.Times(m.Int(rng.randint(-2, 2)), l)
        return {"plus": m.Plus, "minus": m.Minus}[op](l, r)

    def atom(self, depth=1):
        m, rng = self.m, self.rng
        r = rng.random()
        if r < 0.2 or depth == 0 and r < 0.5:
            return rng.choice([self.a, self.b, m.Not(self.a)])
        l, rr = self.term(depth), self.term(depth)
        if self.kind == "bv":
            return rng.choice([m.BVULT, m.BVULE, m.BVSLT, m.BVSLE, m.Equals, m.NotEquals, m.BVUGT, m.BVSGE])(l, rr)
        return rng.choice([m.LT, m.LE, m.Equals, m.NotEquals, m.GT, m.GE])(l, rr)

    def formula(self, depth=2):
        m, rng = self.m, self.rng
        if depth == 0 or rng.random() < 0.35:
            return self.atom()
        op = rng.choice(["and", "or", "not", "implies", "iff"])
        if op == "not":
            return m.Not(self.formula(depth - 1))
        l, r = self.formula(depth - 1), self.formula(depth - 1)
        return {"and": m.And, "or": m.Or, "implies": m.Implies, "iff": m.Iff}[op](l, r)

    def goal(self, allow_maxsmt=True, integer_weights=True):
        rng = self.rng
        signed = self.kind == "bv" and rng.random() < 0.5
        r = rng.random()
        if r < 0.3:
            return MinimizationGoal(self.term(), signed) if self.kind == "bv" else MinimizationGoal(self.term())
        if r < 0.6:
            return MaximizationGoal(self.term(), signed) if self.kind == "bv" else MaximizationGoal(self.term())
        if r < 0.72:
            return MinMaxGoal([self.term(1) for _ in range(rng.randint(1, 3))], signed)
        if r < 0.84:
            return MaxMinGoal([self.term(1) for _ in range(rng.randint(1, 3))], signed)
        if not allow_maxsmt:
            return self.goal(False)
        g = MaxSMTGoal(real_weights=not integer_weights)
        for _ in range(rng.randint(1, 4)):
            w = rng.randint(1, 4)
            g.add_soft_clause(self.formula(1), w if integer_weights else Fraction(w, rng.choice([1, 2, 3])))
        return g


def pareto_front(points):
    pts = set(points)
    return set(p for p in pts if not any(q != p and all(a <= b for a, b in zip(q, p)) for q in pts))


def snapshot(s):
    return (list(s.assertions), list(s._backtrack_points), s.levels, bool(s.pending_pop))


def run_one(env, rng, trial):
    """-> (label, violation or None, nontrivial)"""
    from pysmt.environment import push_env
    kind = rng.choice(["bv", "int"])
    P = Problem(env, rng, kind)
    m = P.m
    cls = rng.choice([SUABrute, IncrBrute])
    strategy = rng.choice(["linear", "binary"])
    mode = rng.choice(["single", "single", "boxed", "lexicographic", "pareto"])
    order = rng.choice(["asc", "desc", "rnd"])
    s = cls(env, P.universe, order if order != "rnd" else random.Random(trial))
    # history before the call: some assertions, maybe inside pushed levels
    asserts = []
    nlev = rng.choice([0, 0, 1, 2])
    for i in range(rng.randint(0, 3)):
        if nlev and rng.random() < 0.5:
            s.push()
            nlev -= 1
        f = P.formula()
        s.add_assertion(f)
        asserts.append(f)
    if rng.random() < 0.15:
        # make it unsatisfiable
        f = m.And(P.a, m.Not(P.a))
        s.add_assertion(f)
        asserts.append(f)
    ngoals = 1 if mode == "single" else rng.randint(1, 3)
    maxsmt_ok = mode in ("single", "boxed")
    # real-valued weights only with linear search (bisection over real-valued objectives is outside the property)
    goals = [P.goal(maxsmt_ok, integer_weights=not (strategy == "linear" and rng.random() < 0.5)) for _ in range(ngoals)]
    label = "%s/%s/%s/%s/%s goals=%s asserts=%s" % (cls.__name__, strategy, mode, kind, order, goals,
                                                    [f.serialize() for f in asserts])
    # ---- reference ------------------------------------------------------------
    doms = []
    for sy in P.universe:
        t = sy.symbol_type()
        doms.append([False, True] if t.is_bool_type() else INT_DOMAIN if t.is_int_type() else list(range(1 << t.width)))
    feas = []
    for vals in itertools.product(*doms):
        I = dict(zip(P.universe, vals))
        memo = {}
        if all(refeval.evaluate(f, refeval.Interp(I), memo) is True for f in asserts):
            feas.append(I)
    before = snapshot(s)

    def bad(msg, **kw):
        d = {"key": msg, "case": label}
        d.update(kw)
        return label, d, bool(feas)

    def check_model(model, goal, cost):
        for f in asserts:
            if model.get_value(f) is not m.TRUE():
                return "model violates assertion %s" % f.serialize()
        I = dict(model.interp)
        if const_value(goal, cost) != ref_goal_value(m, goal, I):
            return "reported cost %s is not the objective's value %s in the returned model" % (cost, ref_goal_value(m, goal, I))
        return None

    try:
        with warnings.catch_warnings():
            warnings.simplefilter("ignore")
            if mode == "single":
                g = goals[0]
                r = s.optimize(g, strategy=strategy)
                if (r is None) != (not feas):
                    return bad("no-solution-iff-unsat", got=str(r), feasible=len(feas))
                if r is not None:
                    model, cost = r
                    e = check_model(model, g, cost)
                    if e:
                        return bad("model", detail=e)
                    best = min(cost_key(g, ref_goal_value(m, g, I)) for I in feas)
                    if cost_key(g, const_value(g, cost)) != best:
                        return bad("optimum", got=str(cost), optimum=best if g.is_minimization_goal() else -best)
            elif mode == "boxed":
                r = s.boxed_optimize(goals, strategy=strategy)
                if (r is None) != (not feas):
                    return bad("no-solution-iff-unsat", got=str(r), feasible=len(feas))
                if r is not None:
                    for g in goals:
                        if g not in r:
                            return bad("boxed-missing-goal", goal=str(g))
                        model, cost = r[g]
                        e = check_model(model, g, cost)
                        if e:
                            return bad("model", detail=e)
                        best = min(cost_key(g, ref_goal_value(m, g, I)) for I in feas)
                        if cost_key(g, const_value(g, cost)) != best:
                            return bad("optimum", goal=str(g), got=str(cost), optimum=best if g.is_minimization_goal() else -best)
            elif mode == "lexicographic":
                r = s.lexicographic_optimize(goals, strategy=strategy)
                if (r is None) != (not feas):
                    return bad("no-solution-iff-unsat", got=str(r), feasible=len(feas))
                if r is not None:
                    model, costs = r
                    if len(costs) != len(goals):
                        return bad("lexicographic-arity", got=str(costs))
                    for g, c in zip(goals, costs):
                        e = check_model(model, g, c)
                        if e:
                            return bad("model", detail=e)
                    best = min(tuple(cost_key(g, ref_goal_value(m, g, I)) for g in goals) for I in feas)
                    got = tuple(cost_key(g, const_value(g, c)) for g, c in zip(goals, costs))
                    if got != best:
                        return bad("lexicographic-optimum", got=str(got), optimum=str(best))
            else:
                got = []
                for model, costs in s.pareto_optimize(goals):
                    for g, c in zip(goals, costs):
                        e = check_model(model, g, c)
                        if e:
                            return bad("model", detail=e)
                    got.append(tuple(cost_key(g, const_value(g, c)) for g, c in zip(goals, costs)))
                    if len(got) > 300:
                        return bad("pareto-does-not-terminate")
                want = pareto_front([tuple(cost_key(g, ref_goal_value(m, g, I)) for g in goals) for I in feas])
                if len(got) != len(set(got)) or set(got) != want:
                    return bad("pareto-front", got=str(sorted(got)), front=str(sorted(want)))
    except Exception as e:      # an exception on a legal call is a violation of 'returns ...'
        import traceback
        return bad("exception", error=repr(e)[:300], where=traceback.format_exc()[-600:])
    if s.illegal:
        return bad("illegal-pop", detail=s.illegal)
    after = snapshot(s)
    if after != before:
        return bad("stack-restored", before=str(before), after=str(after))
    # the solver still answers as before
    if s.solve() != bool(feas):
        return bad("solver-usable-afterwards")
    return label, None, bool(feas)


def optimizer_check(tier, seed):
    from native.bounded import fresh_env
    env = fresh_env()
    rng = random.Random(seed)
    trials = 500 if tier == "quick" else 6000
    n = nontriv = 0
    viol, samples = [], []
    combos = set()
    import signal

    class _Timeout(BaseException):
        pass

    def _alarm(*a):
        raise _Timeout()
    signal.signal(signal.SIGPROF, _alarm)        # CPU time, not wall time
    for t in range(trials):
        signal.setitimer(signal.ITIMER_PROF, 60)
        try:
            label, v, nt = run_one(env, rng, t)
        except _Timeout:
            label, v, nt = "trial %d" % t, {"key": "does-not-terminate", "trial": t, "seed": seed,
                                            "note": "an optimisation call on a finite-domain problem did not return within 60 s"}, True
        finally:
            signal.setitimer(signal.ITIMER_PROF, 0)
        n += 1
        nontriv += 1 if nt else 0
        combos.add(tuple(label.split(" ")[0].split("/")[:3]))
        if v:
            viol.append(v)
            break
        if len(samples) < 3:
            samples.append(label[:300])
    return {"name": "optimizer", "bounded": True, "evaluations": n, "distinct_nontrivial": nontriv,
            "rule": "%d random problems over 2 Bool + 2 BV(2|3) or 2 Int in [-3,4] symbols, assertions at up to 2 pushed levels, "
                    "objectives Int / signed / unsigned BV terms, min-max / max-min over 1-3 terms, soft clauses with integer weights (rational weights too under linear search); "
                    "{assumption-based, incremental} x {linear, binary} x {single, boxed, lexicographic, Pareto} (%d of 16 "
                    "combinations reached); oracle = exhaustive enumeration in ascending / descending / random order; result "
                    "compared with the optimum by enumeration, stack / levels / pending flag compared before and after"
                    % (trials, len(combos)),
            "samples": samples, "violations": viol}


CHECKS = {"optimizer": optimizer_check}
