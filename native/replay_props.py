"""Replay handlers of the remaining properties."""
import json


def replay_logic(rep):
    """C13 obligations are confirmed on the named logics / generated formulas (exhaustive native check)"""
    from native import bounded_more
    r = bounded_more.logics_check("quick", int(rep.get("seed", 0)))
    if r["violations"]:
        return True, {"mode": "exhaustive over named logics + generated formulas", "failure": r["violations"][0]}
    return False, {"mode": "exhaustive over named logics + generated formulas: nothing found"}


def replay_tracking(rep):
    from native import bounded_more
    r = bounded_more.tracking_sequences("quick", 0)
    if r["violations"]:
        return True, {"mode": "all legal command sequences of length <= 4 on a stub solver", "failure": r["violations"][0]}
    return False, {"mode": "all legal command sequences of length <= 4: nothing found"}


def replay_model(rep):
    from native import bounded_more
    r = bounded_more.model_eval("quick", int(rep.get("seed", 0)))
    if r["violations"]:
        return True, {"mode": "exhaustive BV operands + generated formulas vs reference evaluator", "failure": r["violations"][0]}
    return False, {"mode": "exhaustive BV operands + generated formulas: nothing found"}


def replay_substitution(rep):
    from native import bounded_more
    for seed in (int(rep.get("seed", 0)), 1, 2):
        r = bounded_more.substitution_check("quick", seed)
        if r["violations"]:
            return True, {"mode": "generated formulas x sub-term maps vs recursive definition / substitution lemma", "failure": r["violations"][0]}
    return False, {"mode": "generated formulas x sub-term maps: nothing found"}


def dispatch(rep):
    kind = rep.get("kind")
    if kind == "substitution":
        return replay_substitution(rep)
    if kind == "model":
        return replay_model(rep)
    if kind == "tracking":
        return replay_tracking(rep)
    if kind == "logic":
        return replay_logic(rep)
    return False, {"mode": "no native replay handler for kind %r" % kind}
