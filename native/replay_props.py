"""Replay handlers of the remaining properties (filled in as they are built)."""


def dispatch(rep):
    return False, {"mode": "no native replay handler for kind %r" % rep.get("kind")}
