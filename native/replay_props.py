"""Replay handlers of the remaining properties."""
import json


def replay_logic(rep):
    """C13 obligations are confirmed on the named logics / generated formulas (exhaustive native check)"""
    from native import bounded_more
    r = bounded_more.logics_check("quick", int(rep.get("seed", 0)))
    if r["violations"]:
        return True, {"mode": "exhaustive over named logics + generated formulas", "failure": r["violations"][0]}
    return False, {"mode": "exhaustive over named logics + generated formulas: nothing found"}


def replay_tracking(rep):
    from native import bounded_more
    r = bounded_more.tracking_sequences("quick", 0)
    if r["violations"]:
        return True, {"mode": "all legal command sequences of length <= 4 on a stub solver", "failure": r["violations"][0]}
    return False, {"mode": "all legal command sequences of length <= 4: nothing found"}


def replay_model(rep):
    from native import bounded_more
    r = bounded_more.model_eval("quick", int(rep.get("seed", 0)))
    if r["violations"]:
        return True, {"mode": "exhaustive BV operands + generated formulas vs reference evaluator", "failure": r["violations"][0]}
    return False, {"mode": "exhaustive BV operands + generated formulas: nothing found"}


def replay_substitution(rep):
    from native import bounded_more
    for seed in (int(rep.get("seed", 0)), 1, 2):
        r = bounded_more.substitution_check("quick", seed)
        if r["violations"]:
            return True, {"mode": "generated formulas x sub-term maps vs recursive definition / substitution lemma", "failure": r["violations"][0]}
    from native import bounded_round3
    r = bounded_round3.interpretations_check("quick", 0)
    if r["violations"]:
        return True, {"mode": "formulas with interpreted functions evaluated against the functions read as given", "failure": r["violations"][0]}
    return False, {"mode": "generated formulas x sub-term maps, interpreted functions: nothing found"}


def replay_optimizer(rep):
    """the interval / comparison-table witness evaluated on the real classes"""
    import warnings
    warnings.simplefilter("ignore")
    from pysmt.environment import Environment, push_env
    from pysmt.typing import INT, BVType
    from pysmt.optimization.optimizer import OptSearchInterval, OptPareto
    from pysmt.optimization.goal import MinimizationGoal, MaximizationGoal
    from native import refeval
    w = rep.get("witness") or {}

    def num(k):
        v = w.get(k)
        return None if v in (None, "None") else int(v)
    env = Environment()
    push_env(env)
    m = env.formula_manager
    kind, d, meth, shape = w.get("kind"), w.get("direction"), w.get("method"), w.get("shape") or ""
    width = num("width")
    signed = kind == "sbv"
    x = m.Symbol("objective", INT if kind == "int" else BVType(width))
    goal = (MinimizationGoal if d == "min" else MaximizationGoal)(x, signed)
    V = num("objective_value")
    raw = V if kind == "int" else V % (1 << width)

    def better(a, b, strict=True):
        if d == "min":
            return a < b if strict else a <= b
        return a > b if strict else a >= b

    def holds(f):
        return refeval.evaluate(f, refeval.Interp({x: raw})) is True
    info = {"mode": "witness evaluated on the real OptSearchInterval / OptPareto", "witness": w}
    try:
        if meth == "get_constraint":
            o = OptPareto(goal, env)
            b = num("bound")
            o.val = m.Int(b) if kind == "int" else m.SBV(b, width) if signed else m.BV(b, width)
            strict = shape == "strict"
            got = holds(o.get_constraint(strict))
            info.update(got=got, want=better(V, b, strict))
            return got != better(V, b, strict), info
        o = OptSearchInterval(goal, env, [])
        if meth == "__init__":
            lo_, hi_ = (0, (1 << width) - 1) if kind == "ubv" else (-(1 << (width - 1)), (1 << (width - 1)) - 1) if signed else (None, None)
            if kind == "int":
                return not (o._lower is None and o._upper is None), info
            ok = (o._lower <= lo_ and hi_ < o._upper) if d == "min" else (o._lower < lo_ and hi_ <= o._upper)
            info.update(lower=o._lower, upper=o._upper)
            return not ok, info
        o._lower = num("lo") if "l" in shape else None
        o._upper = num("up") if "u" in shape else None
        o._pivot = num("pv") if "p" in shape else None
        l0, u0, p0 = o._lower, o._upper, o._pivot
        if meth == "empty":
            got = o.empty()
            want = (u0 <= l0) if (l0 is not None and u0 is not None) else False
            info.update(got=got, want=want)
            return got != want, info
        if meth == "linear_search_cut":
            b = u0 if d == "min" else l0
            got = holds(o.linear_search_cut())
            info.update(got=got, want=better(V, b))
            return got != better(V, b) or (o._lower, o._upper) != (l0, u0), info
        if meth in ("binary_search_cut", "_compute_pivot"):
            if meth == "_compute_pivot":
                p = o._compute_pivot()
                bad = False
            else:
                f = o.binary_search_cut()
                p = o._pivot
                bad = holds(f) != better(V, p)
            if l0 is not None and u0 is not None and l0 < u0:
                bad = bad or not ((l0 < p <= u0) if d == "min" else (l0 <= p < u0))
            elif l0 is None and u0 is not None:
                bad = bad or not (p <= u0 if d == "min" else p < u0)
            elif u0 is None and l0 is not None:
                bad = bad or not (p > l0 if d == "min" else p >= l0)
            info.update(pivot=p)
            return bad, info
        if meth == "search_is_sat":
            mv = num("model_value")

            class M:
                def get_value(self, t, model_completion=True):
                    return m.Int(mv) if kind == "int" else m.SBV(mv, width) if signed else m.BV(mv, width)
            o.search_is_sat(M())
            if d == "min":
                want = mv if u0 is None else min(u0, mv)
                bad = o._upper != want or o._lower != l0
            else:
                want = mv if l0 is None else max(l0, mv)
                bad = o._lower != want or o._upper != u0
            info.update(lower=o._lower, upper=o._upper, want=want)
            return bad or o._pivot is not None, info
        if meth == "search_is_unsat":
            o.search_is_unsat()
            src = p0 if p0 is not None else (u0 if d == "min" else l0)
            bad = (o._lower != src or o._upper != u0) if d == "min" else (o._upper != src or o._lower != l0)
            info.update(lower=o._lower, upper=o._upper, want=src)
            return bad, info
    except Exception as e:
        info["exception"] = repr(e)
        return True, info
    return False, info


def replay_printer(rep):
    """C07: the export check (independent reader) on generated formulas: a printed text that is illegal
    or denotes something else is the failing input"""
    from native import bounded_smt
    for seed in (int(rep.get("seed", 0)), 1, 2, 3):
        for chk in (bounded_smt.export_check, bounded_smt.quote_check):
            r = chk("quick", seed)
            if r["violations"]:
                return True, {"mode": "generated formulas exported and read by the independent SMT-LIB reader",
                              "failure": r["violations"][0]}
    return False, {"mode": "generated formulas exported and read by the independent SMT-LIB reader: nothing found"}


def replay_parser(rep):
    """C08: scripts from the SMT-LIB grammar through the parser vs the independent reader"""
    from native import bounded_smt
    for seed in (int(rep.get("seed", 0)), 1, 2, 3):
        for chk in (bounded_smt.import_check, bounded_smt.malformed_check):
            r = chk("quick", seed)
            vs = [v for v in r["violations"] if v["key"] not in ("definition-capture", "unbound-token-as-string")]
            if vs:
                return True, {"mode": "generated SMT-LIB scripts read by pySMT and by the independent reader", "failure": vs[0]}
    return False, {"mode": "generated SMT-LIB scripts read by pySMT and by the independent reader: nothing found"}


def replay_roundtrip(rep):
    from native import bounded_smt
    for seed in (int(rep.get("seed", 0)), 1, 2, 3):
        r = bounded_smt.roundtrip_check("quick", seed)
        if r["violations"]:
            return True, {"mode": "generated formulas / scripts printed and parsed back", "failure": r["violations"][0]}
    return False, {"mode": "generated formulas / scripts printed and parsed back: nothing found"}


def replay_smtlib_solver(rep):
    from native import bounded_solver
    for seed in (int(rep.get("seed", 0)), 1, 2):
        r = bounded_solver.solver_check("quick", seed)
        if r["violations"]:
            return True, {"mode": "API call sequences on the real SmtLibSolver against the strict reference solver process",
                          "failure": r["violations"][0]}
    return False, {"mode": "API call sequences against the strict reference solver process: nothing found"}


def replay_hashcons(rep):
    from native import bounded_hashcons
    for seed in (int(rep.get("seed", 0)), 1, 2):
        r = bounded_hashcons.hashcons_check("quick", seed)
        if r["violations"]:
            return True, {"mode": "construction routes, constant arrays and cross-environment copies on the real library",
                          "failure": r["violations"][0]}
    return False, {"mode": "construction routes, constant arrays and cross-environment copies: nothing found"}


def replay_optimizer_loop(rep):
    from native import bounded_opt
    for seed in (int(rep.get("seed", 0)), 1, 2):
        r = bounded_opt.optimizer_check("quick", seed)
        if r["violations"]:
            return True, {"mode": "random finite-domain problems solved by the real optimisation routines with an exhaustive oracle",
                          "failure": r["violations"][0]}
    return False, {"mode": "random finite-domain problems with an exhaustive oracle: nothing found"}


def dispatch(rep):
    kind = rep.get("kind")
    if kind == "optimizer-loop":
        return replay_optimizer_loop(rep)
    if kind == "hashcons":
        return replay_hashcons(rep)
    if kind == "smtlib-solver":
        return replay_smtlib_solver(rep)
    if kind == "roundtrip":
        return replay_roundtrip(rep)
    if kind == "parser":
        return replay_parser(rep)
    if kind == "printer":
        return replay_printer(rep)
    if kind == "optimizer":
        return replay_optimizer(rep)
    if kind == "substitution":
        return replay_substitution(rep)
    if kind == "model":
        return replay_model(rep)
    if kind == "tracking":
        return replay_tracking(rep)
    if kind == "logic":
        return replay_logic(rep)
    from native import replay_round3
    return replay_round3.dispatch(rep)
