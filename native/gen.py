"""Random / enumerated well-typed pySMT formulas (native side: replays, bounded
stand-ins, neighbourhood search).  Seeded; uses only public constructors."""
import random
from fractions import Fraction

from pysmt.typing import BOOL, INT, REAL, STRING, BVType, ArrayType, FunctionType, Type

INTS = [0, 1, -1, 2, 3, -2, 5, 7, 10, -3, 255, 10 ** 17 + 1, 2 ** 53 + 1, -(10 ** 17) - 1]
REALS = [Fraction(0), Fraction(1), Fraction(-1), Fraction(1, 2), Fraction(-3, 2), Fraction(2), Fraction(7, 3)]
STRS = ["", "a", "b", "ab", "abc", "ba", "0", "12", "-5", " 5", "1_0", "007", "aab", "٣", "x\"y"]


class Gen:
    def __init__(self, env, seed=0, widths=(1, 2, 3, 4, 8), consts_bias=0.5):
        self.env = env
        self.m = env.formula_manager
        self.r = random.Random(seed)
        self.widths = widths
        self.consts_bias = consts_bias
        self.syms = {}

    def symbol(self, ty):
        pool = self.syms.setdefault(ty, [])
        if len(pool) < 2 or (len(pool) < 3 and self.r.random() < 0.2):
            s = self.m.Symbol("g%s_%d" % ("".join(c for c in str(ty) if c.isalnum()), len(pool)), ty)
            pool.append(s)
            return s
        return self.r.choice(pool)

    def const(self, ty):
        m, r = self.m, self.r
        if ty.is_bool_type():
            return m.Bool(r.random() < 0.5)
        if ty.is_int_type():
            return m.Int(r.choice(INTS) if r.random() < 0.6 else r.randint(-20, 20))
        if ty.is_real_type():
            return m.Real(r.choice(REALS))
        if ty.is_string_type():
            return m.String(r.choice(STRS))
        if ty.is_bv_type():
            w = ty.width
            v = r.choice([0, 1, (1 << w) - 1, 1 << (w - 1), (1 << (w - 1)) - 1]) % (1 << w) \
                if r.random() < 0.5 else r.randrange(1 << w)
            return m.BV(v, w)
        if ty.is_array_type():
            d = self.const(ty.elem_type)
            assign = {}
            for _ in range(r.randint(0, 2)):
                assign[self.const(ty.index_type)] = self.const(ty.elem_type)
            return m.Array(ty.index_type, d, assign)
        return None

    def leaf(self, ty, consts_only=False):
        c = self.const(ty)
        if c is not None and (consts_only or self.r.random() < self.consts_bias):
            return c
        return self.symbol(ty)

    def bvty(self):
        return BVType(self.r.choice(self.widths))

    def term(self, ty, depth, consts_only=False):
        m, r = self.m, self.r
        if depth <= 0 or r.random() < 0.15:
            return self.leaf(ty, consts_only)
        t = lambda ty2: self.term(ty2, depth - 1, consts_only)
        if ty.is_bool_type():
            k = r.randrange(16)
            if k == 0:
                return m.And([t(BOOL) for _ in range(r.randint(2, 3))])
            if k == 1:
                return m.Or([t(BOOL) for _ in range(r.randint(2, 3))])
            if k == 2:
                return m.Not(t(BOOL))
            if k == 3:
                return m.Implies(t(BOOL), t(BOOL))
            if k == 4:
                return m.Iff(t(BOOL), t(BOOL))
            if k == 5:
                ty2 = r.choice([INT, REAL])
                return r.choice([m.LE, m.LT, m.Equals])(t(ty2), t(ty2))
            if k == 6:
                b = self.bvty()
                return r.choice([m.BVULT, m.BVULE, m.BVSLT, m.BVSLE, m.Equals])(t(b), t(b))
            if k == 7:
                return r.choice([m.StrContains, m.StrPrefixOf, m.StrSuffixOf, m.Equals])(t(STRING), t(STRING))
            if k == 8:
                return m.Ite(t(BOOL), t(BOOL), t(BOOL))
            if k == 9:
                a = ArrayType(r.choice([INT, self.bvty()]), r.choice([INT, BOOL]))
                if a.elem_type.is_bool_type():
                    return m.Select(t(a), t(a.index_type))
                return m.Equals(t(a), t(a))
            if k == 10 and not consts_only:
                f = self.symbol(FunctionType(BOOL, [INT]))
                return m.Function(f, [t(INT)])
            return self.leaf(BOOL, consts_only)
        if ty.is_int_type():
            k = r.randrange(12)
            if k == 0:
                return m.Plus([t(INT) for _ in range(r.randint(2, 3))])
            if k == 1:
                return m.Minus(t(INT), t(INT))
            if k == 2:
                return m.Times([t(INT) for _ in range(r.randint(2, 3))])
            if k == 3:
                return m.Div(t(INT), t(INT))
            if k == 4:
                return m.Ite(t(BOOL), t(INT), t(INT))
            if k == 5:
                return m.StrLength(t(STRING))
            if k == 6:
                return m.StrToInt(t(STRING))
            if k == 7:
                return m.StrIndexOf(t(STRING), t(STRING), t(INT))
            if k == 8:
                return m.BVToNatural(t(self.bvty()))
            if k == 9:
                return m.Select(t(ArrayType(INT, INT)), t(INT))
            return self.leaf(INT, consts_only)
        if ty.is_real_type():
            k = r.randrange(8)
            if k == 0:
                return m.Plus([t(REAL) for _ in range(r.randint(2, 3))])
            if k == 1:
                return m.Minus(t(REAL), t(REAL))
            if k == 2:
                return m.Times([t(REAL), t(REAL)])
            if k == 3:
                return m.Div(t(REAL), t(REAL))
            if k == 4:
                return m.ToReal(t(INT))
            if k == 5:
                return m.Ite(t(BOOL), t(REAL), t(REAL))
            return self.leaf(REAL, consts_only)
        if ty.is_string_type():
            k = r.randrange(8)
            if k == 0:
                return m.StrConcat([t(STRING) for _ in range(r.randint(2, 3))])
            if k == 1:
                return m.StrCharAt(t(STRING), t(INT))
            if k == 2:
                return m.StrSubstr(t(STRING), t(INT), t(INT))
            if k == 3:
                return m.StrReplace(t(STRING), t(STRING), t(STRING))
            if k == 4:
                return m.IntToStr(t(INT))
            if k == 5:
                return m.Ite(t(BOOL), t(STRING), t(STRING))
            return self.leaf(STRING, consts_only)
        if ty.is_bv_type():
            w = ty.width
            k = r.randrange(26)
            bin_ = [m.BVAnd, m.BVOr, m.BVXor, m.BVAdd, m.BVSub, m.BVMul, m.BVUDiv, m.BVURem, m.BVLShl,
                    m.BVLShr, m.BVAShr, m.BVSDiv, m.BVSRem]
            if k < len(bin_):
                return bin_[k](t(ty), t(ty))
            if k == 13:
                return m.BVNot(t(ty))
            if k == 14:
                return m.BVNeg(t(ty))
            if k == 15:
                return m.BVRol(t(ty), r.randint(0, w))
            if k == 16:
                return m.BVRor(t(ty), r.randint(0, w))
            if k == 17 and w >= 2:
                w1 = r.randint(1, w - 1)
                return m.BVConcat(t(BVType(w1)), t(BVType(w - w1)))
            if k == 18:
                big = BVType(w + r.randint(0, 3))
                s = r.randint(0, big.width - w)
                return m.BVExtract(t(big), s, s + w - 1)
            if k == 19 and w >= 2:
                inc = r.randint(1, w - 1)
                return r.choice([m.BVZExt, m.BVSExt])(t(BVType(w - inc)), inc)
            if k == 20 and w == 1:
                b = self.bvty()
                return m.BVComp(t(b), t(b))
            if k == 21:
                return m.Ite(t(BOOL), t(ty), t(ty))
            return self.leaf(ty, consts_only)
        if ty.is_array_type():
            k = r.randrange(4)
            if k == 0:
                return m.Store(t(ty), t(ty.index_type), t(ty.elem_type))
            if k == 1:
                return m.Ite(t(BOOL), t(ty), t(ty))
            return self.leaf(ty, consts_only)
        return self.symbol(ty)

    def any_type(self):
        r = self.r
        return r.choice([BOOL, BOOL, INT, REAL, STRING, self.bvty(), self.bvty(),
                         ArrayType(INT, INT), ArrayType(self.bvty(), BOOL)])
