"""C17 bounded stand-in: SmtLibSolver (the real class, real pipes) driving the strict reference
solver process native/strict_solver.py through sequences of API calls; verdicts, models and the
legality of the command stream are checked against an own enumeration.  Labelled bounded."""
import itertools
import os
import random
import sys
import tempfile
import warnings
from fractions import Fraction

from pysmt.typing import BOOL, INT, BVType, Type
from pysmt.logics import QF_UFLIA, QF_AUFBVLIRA
from pysmt.smtlib.solver import SmtLibSolver
from pysmt.exceptions import SolverReturnedUnknownResultError, UnknownSolverAnswerError

from native import refeval

HERE = os.path.dirname(os.path.abspath(__file__))
INT_DOMAIN = list(range(-3, 5))


def carrier(t):
    if t.is_bool_type():
        return [False, True]
    if t.is_int_type():
        return INT_DOMAIN
    if t.is_bv_type():
        return list(range(1 << t.width))
    return [("U", str(t), k) for k in range(2)]


class Universe:
    def __init__(self, env, rng):
        m = self.m = env.formula_manager
        self.rng = rng
        S = Type("S")
        U = Type("U", 1)
        self.syms = {
            "a": m.Symbol("a", BOOL), "b": m.Symbol("b", BOOL), "i": m.Symbol("i", INT), "j": m.Symbol("j", INT),
            "v": m.Symbol("v", BVType(2)), "w": m.Symbol("w", BVType(2)), "s": m.Symbol("s", S), "t": m.Symbol("t", S),
            "p": m.Symbol("p", U(S)), "q": m.Symbol("q", U(S)), "r": m.Symbol("r", U(INT)), "r2": m.Symbol("r2", U(INT)),
            "x y": m.Symbol("x y", BOOL),
        }

    def atom(self):
        m, r, s = self.m, self.rng, self.syms
        k = r.randrange(12)
        if k == 0:
            return r.choice([s["a"], s["b"], s["x y"], m.Not(s["a"])])
        if k == 1:
            return r.choice([m.LT, m.LE, m.Equals])(s["i"], r.choice([s["j"], m.Int(r.randint(-3, 4)), m.Plus(s["j"], m.Int(1))]))
        if k == 2:
            return m.Equals(s["j"], m.Int(r.randint(-3, 4)))
        if k == 3:
            return r.choice([m.BVULT, m.BVULE, m.Equals])(s["v"], r.choice([s["w"], m.BV(r.randrange(4), 2)]))
        if k == 4:
            return r.choice([m.Equals(s["s"], s["t"]), m.Not(m.Equals(s["s"], s["t"]))])
        if k == 5:
            return m.Equals(s["p"], s["q"])
        if k == 6:
            return m.And(m.Equals(s["r"], s["r2"]), m.Not(m.Equals(s["p"], s["q"])))
        if k == 7:
            return m.Or(s["a"], m.And(s["b"], m.LT(s["i"], m.Int(0))))
        if k == 8:
            return m.Iff(s["a"], m.BVULT(s["v"], m.BV(2, 2)))
        if k == 9:
            return m.And(s["a"], m.Not(s["a"]))
        if k == 10:
            return m.Implies(s["x y"], m.Equals(s["w"], m.BV(3, 2)))
        return m.GT(m.Plus(s["i"], s["j"]), m.Int(r.randint(-2, 5)))

    def term(self):
        m, r, s = self.m, self.rng, self.syms
        return r.choice([s["a"], s["i"], s["v"], m.Plus(s["i"], m.Int(1)), s["j"], s["b"], s["w"]])


def models_of(assertions):
    syms = sorted(set().union(*[refeval.free_symbols(f) for f in assertions]) if assertions else [], key=lambda x: x.symbol_name())
    for vals in itertools.product(*[carrier(x.symbol_type()) for x in syms]):
        I = refeval.Interp(dict(zip(syms, vals)))
        try:
            if all(refeval.evaluate(f, I) is True for f in assertions):
                yield dict(zip(syms, vals))
        except refeval.DivByZero:
            continue


def is_sat(assertions):
    for _ in models_of(assertions):
        return True
    return False


def value_of_const(c):
    if c.is_bool_constant():
        return bool(c.constant_value())
    if c.is_bv_constant():
        return int(c.constant_value())
    if c.is_int_constant():
        return int(c.constant_value())
    if c.is_real_constant():
        return Fraction(c.constant_value())
    return None


def run_sequence(env, rng, idx, length, logdir):
    U = Universe(env, rng)
    log = os.path.join(logdir, "seq%d.log" % idx)
    os.environ["STRICT_SOLVER_LOG"] = log
    trace = []
    stack = [[]]          # reference assertion stack
    custom_declared = False
    last_sat = None       # True iff the last command was a check with answer sat and nothing changed since

    def live():
        return [f for lv in stack for f in lv]

    def bad(key, **kw):
        d = {"key": key, "calls": list(trace)}
        d.update(kw)
        try:
            d["stream"] = open(log).read()[-1500:]
        except Exception:
            pass
        return d
    # one sequence in three talks to a solver that answers `unsupported` to the declaration of one symbol: the failing
    # calls must leave no trace (every later call behaves as if they had not been made)
    rejected = rng.choice(["j", "v", "b", "i", None, None, None, None, None, None, None, None])
    os.environ["STRICT_SOLVER_REJECT"] = rejected or ""

    retry = None

    def hits_rejected(f):
        # (the wrapper sends the simplified formula: only its symbols are declared)
        return rejected is not None and any(x.symbol_name() == rejected for x in refeval.free_symbols(f.simplify()))
    try:
        s = SmtLibSolver([sys.executable, os.path.join(HERE, "strict_solver.py")], env, QF_AUFBVLIRA)
    except Exception as e:
        return bad("start", error=repr(e)[:300])
    try:
        for step in range(length):
            ops = ["add", "add", "add", "push", "solve", "solve", "is_sat", "is_valid", "is_unsat", "reset"]
            if len(stack) > 1:
                ops += ["pop", "pop"]
            if last_sat:
                ops += ["get_value", "get_value"]
                # pySMT has no constants of uninterpreted sorts: a model can only be fetched when none is declared
                if not custom_declared:
                    ops += ["get_model", "get_model"]
            o = rng.choice(ops)
            try:
                if o == "add":
                    f = U.atom()
                    if retry is not None and rng.random() < 0.5:
                        f = retry          # the same request again: must fail the same way
                    trace.append("add_assertion(%s)" % f.serialize())
                    if hits_rejected(f):
                        try:
                            s.add_assertion(f)
                            return bad("rejected-declaration-not-reported", call=trace[-1])
                        except UnknownSolverAnswerError as e:
                            if "unsupported" not in str(e):
                                return bad("failed-call-left-a-trace", call=trace[-1], error=str(e)[:300])
                        last_sat = None
                        trace[-1] += " -> rejected"
                        retry = f
                        continue
                    s.add_assertion(f)
                    stack[-1].append(f)
                    last_sat = None
                    if any(x.symbol_type().is_custom_type() for x in refeval.free_symbols(f)):
                        custom_declared = True
                elif o == "push":
                    n = rng.choice([1, 1, 2])
                    trace.append("push(%d)" % n)
                    s.push(n)
                    stack += [[] for _ in range(n)]
                    last_sat = None
                elif o == "pop":
                    n = rng.randint(1, min(2, len(stack) - 1))
                    trace.append("pop(%d)" % n)
                    s.pop(n)
                    del stack[-n:]
                    last_sat = None
                elif o == "reset":
                    trace.append("reset_assertions()")
                    s.reset_assertions()
                    stack = [[]]
                    last_sat = None
                elif o == "solve":
                    trace.append("solve()")
                    r = s.solve()
                    want = is_sat(live())
                    if r != want:
                        return bad("verdict", got=r, want=want, assertions=[f.serialize() for f in live()])
                    last_sat = r
                elif o in ("is_sat", "is_valid", "is_unsat"):
                    f = U.atom()
                    trace.append("%s(%s)" % (o, f.serialize()))
                    if any(x.symbol_type().is_custom_type() for x in refeval.free_symbols(f)):
                        custom_declared = True       # (conservative: the declaration is scoped to the query's level)
                    if hits_rejected(f):
                        try:
                            getattr(s, o)(f)
                            return bad("rejected-declaration-not-reported", call=trace[-1])
                        except UnknownSolverAnswerError as e:
                            if "unsupported" not in str(e):
                                return bad("failed-call-left-a-trace", call=trace[-1], error=str(e)[:300])
                        last_sat = None
                        trace[-1] += " -> rejected"
                        continue
                    r = getattr(s, o)(f)
                    if o == "is_sat":
                        want = is_sat(live() + [f])
                    elif o == "is_unsat":
                        want = not is_sat(live() + [f])
                    else:
                        want = not is_sat(live() + [U.m.Not(f)])
                    if r != want:
                        return bad("shortcut-verdict", call=trace[-1], got=r, want=want, assertions=[x.serialize() for x in live()])
                    last_sat = None
                elif o == "get_value":
                    t = U.term()
                    declared = set().union(*[refeval.free_symbols(f) for f in live()]) if live() else set()
                    if not refeval.free_symbols(t) <= declared:
                        continue        # a value can only be asked for declared symbols
                    trace.append("get_value(%s)" % t.serialize())
                    v = s.get_value(t)
                    if not v.is_constant() or v.get_type() != t.get_type():
                        return bad("value-reply", term=t.serialize(), got=str(v))
                    # some model of the live assertions gives the term this value
                    ok = False
                    for mdl in models_of(live()):
                        I = refeval.Interp(dict(mdl))
                        for x in refeval.free_symbols(t):
                            if x not in I.values:
                                I.values[x] = None
                        if any(val is None for val in I.values.values()):
                            ok = True          # the term mentions a symbol the assertions leave free: any value
                            break
                        if refeval.evaluate(t, I) == value_of_const(v):
                            ok = True
                            break
                    if not ok:
                        return bad("value-not-from-a-model", term=t.serialize(), got=str(v), assertions=[x.serialize() for x in live()])
                elif o == "get_model":
                    trace.append("get_model()")
                    mdl = s.get_model()
                    need = set().union(*[refeval.free_symbols(f) for f in live()]) if live() else set()
                    need = {x for x in need if not x.symbol_type().is_custom_type()}
                    asg = {}
                    for x in need:
                        if x not in mdl:
                            return bad("model-misses-symbol", symbol=x.symbol_name(), assertions=[f.serialize() for f in live()])
                        asg[x] = value_of_const(mdl.get_value(x))
                    rest = [f for f in live() if not any(y.symbol_type().is_custom_type() for y in refeval.free_symbols(f))]
                    I = refeval.Interp(asg)
                    for f in rest:
                        if refeval.evaluate(f, I) is not True:
                            return bad("model-violates-assertion", assertion=f.serialize(), model={k.symbol_name(): v for k, v in asg.items()})
            except SolverReturnedUnknownResultError:
                return bad("unknown-answer")
            except Exception as e:
                import traceback
                return bad("exception", call=trace[-1] if trace else None, error=repr(e)[:300], where=traceback.format_exc()[-500:])
    finally:
        try:
            s.exit()
        except Exception:
            pass
    # the whole stream must have been legal
    try:
        text = open(log).read()
    except Exception:
        text = ""
    return None


def solver_check(tier, seed):
    from native.bounded import fresh_env
    rng = random.Random(seed)
    trials = 60 if tier == "quick" else 600
    n = 0
    viol, samples = [], []
    ops = set()
    with tempfile.TemporaryDirectory() as logdir:
        for t in range(trials):
            env = fresh_env()
            with warnings.catch_warnings():
                warnings.simplefilter("ignore")
                v = run_sequence(env, random.Random(rng.random()), t, rng.randint(4, 12), logdir)
            n += 1
            if v:
                viol.append(v)
                break
    return {"name": "smtlib_solver", "bounded": True, "evaluations": n, "distinct_nontrivial": n,
            "rule": "%d random sequences of 4-12 API calls (add_assertion, push 1-2, pop 1-2, solve, get_value, get_model, "
                    "reset_assertions, is_sat / is_valid / is_unsat; in a third of the sequences the solver answers `unsupported` to the declaration of one symbol and the failing calls must leave no trace) on the real SmtLibSolver connected by real pipes to a strict "
                    "reference solver process that rejects every illegal command; formulas over Bool, Int in [-3,4], BV2, an "
                    "uninterpreted sort and two instances of a parametric sort, one symbol needing quotes; verdicts and models "
                    "checked against an own enumeration" % trials,
            "samples": samples, "violations": viol}


CHECKS = {"smtlib_solver": solver_check}
