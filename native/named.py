"""Executable twin of contracts/c06_constructors.py: what each constructor's
name says, as plain Python on values (bool / int / Fraction / str / ArrVal).
Used for native replays and the bounded cross-check of C03/C06."""
from fractions import Fraction

from native import refeval
from native.refeval import signed


def W(t):
    return t.width


def bvok(ts):
    return len(ts) >= 1 and ts[0].is_bv_type() and all(t == ts[0] for t in ts)


def arith(ts):
    return len(ts) >= 1 and (ts[0].is_int_type() or ts[0].is_real_type()) and all(t == ts[0] for t in ts)


def allbool(ts):
    return all(t.is_bool_type() for t in ts)


def allstr(ts):
    return all(t.is_string_type() for t in ts)


def smod(a, b, w):
    s, t = signed(a, w), signed(b, w)
    if t == 0:
        return a
    m = s % abs(t)
    r = m if (m == 0 or t > 0) else m + t
    return r % (1 << w)


def sdiv(a, b, w):
    s, t = signed(a, w), signed(b, w)
    if t == 0:
        return (1 << w) - 1 if s >= 0 else 1
    q = abs(s) // abs(t)
    return (q if (s < 0) == (t < 0) else -q) % (1 << w)


def srem(a, b, w):
    s, t = signed(a, w), signed(b, w)
    if t == 0:
        return a
    r = abs(s) % abs(t)
    return (r if s >= 0 else -r) % (1 << w)


def rot(a, k, w, left):
    k %= w
    if not left:
        k = (w - k) % w
    return ((a << k) | (a >> (w - k))) % (1 << w)


# name -> (applicable(types, ints), value(vals, types, ints))
T = {
    "GE": (lambda ts, i: len(ts) == 2 and arith(ts), lambda v, ts, i: v[0] >= v[1]),
    "GT": (lambda ts, i: arith(ts), lambda v, ts, i: v[0] > v[1]),
    "LE": (lambda ts, i: arith(ts), lambda v, ts, i: v[0] <= v[1]),
    "LT": (lambda ts, i: arith(ts), lambda v, ts, i: v[0] < v[1]),
    "Equals": (lambda ts, i: ts[0] == ts[1] and not ts[0].is_bool_type(), lambda v, ts, i: v[0] == v[1]),
    "NotEquals": (lambda ts, i: ts[0] == ts[1] and not ts[0].is_bool_type(), lambda v, ts, i: v[0] != v[1]),
    "EqualsOrIff": (lambda ts, i: ts[0] == ts[1], lambda v, ts, i: v[0] == v[1]),
    "Xor": (lambda ts, i: allbool(ts), lambda v, ts, i: bool(v[0]) != bool(v[1])),
    "Iff": (lambda ts, i: allbool(ts), lambda v, ts, i: bool(v[0]) == bool(v[1])),
    "Implies": (lambda ts, i: allbool(ts), lambda v, ts, i: (not v[0]) or v[1]),
    "Not": (lambda ts, i: allbool(ts), lambda v, ts, i: not v[0]),
    "Ite": (lambda ts, i: ts[0].is_bool_type() and ts[1] == ts[2], lambda v, ts, i: v[1] if v[0] else v[2]),
    "Minus": (lambda ts, i: arith(ts), lambda v, ts, i: v[0] - v[1]),
    "And": (lambda ts, i: allbool(ts), lambda v, ts, i: all(v)),
    "Or": (lambda ts, i: allbool(ts), lambda v, ts, i: any(v)),
    "Plus": (lambda ts, i: arith(ts), lambda v, ts, i: sum(v[1:], v[0])),
    "Times": (lambda ts, i: arith(ts), lambda v, ts, i: _prod(v)),
    "Min": (lambda ts, i: arith(ts), lambda v, ts, i: min(v)),
    "Max": (lambda ts, i: arith(ts), lambda v, ts, i: max(v)),
    "MinBV[unsigned]": (lambda ts, i: bvok(ts), lambda v, ts, i: min(v)),
    "MaxBV[unsigned]": (lambda ts, i: bvok(ts), lambda v, ts, i: max(v)),
    "MinBV[signed]": (lambda ts, i: bvok(ts), lambda v, ts, i: min(v, key=lambda x: signed(x, W(ts[0])))),
    "MaxBV[signed]": (lambda ts, i: bvok(ts), lambda v, ts, i: max(v, key=lambda x: signed(x, W(ts[0])))),
    "AtMostOne": (lambda ts, i: allbool(ts), lambda v, ts, i: sum(1 for x in v if x) <= 1),
    "ExactlyOne": (lambda ts, i: allbool(ts), lambda v, ts, i: sum(1 for x in v if x) == 1),
    "AllDifferent": (lambda ts, i: all(t == ts[0] for t in ts),
                     lambda v, ts, i: len({refeval.key(x) for x in v}) == len(v)),
    "ToReal": (lambda ts, i: ts[0].is_int_type() or ts[0].is_real_type(), lambda v, ts, i: Fraction(v[0])),
    "BVXor": (lambda ts, i: bvok(ts), lambda v, ts, i: v[0] ^ v[1]),
    "BVSub": (lambda ts, i: bvok(ts), lambda v, ts, i: (v[0] - v[1]) % (1 << W(ts[0]))),
    "BVUDiv": (lambda ts, i: bvok(ts), lambda v, ts, i: (1 << W(ts[0])) - 1 if v[1] == 0 else v[0] // v[1]),
    "BVURem": (lambda ts, i: bvok(ts), lambda v, ts, i: v[0] if v[1] == 0 else v[0] % v[1]),
    "BVLShl": (lambda ts, i: bvok(ts), lambda v, ts, i: 0 if v[1] >= W(ts[0]) else (v[0] << v[1]) % (1 << W(ts[0]))),
    "BVLShr": (lambda ts, i: bvok(ts), lambda v, ts, i: 0 if v[1] >= W(ts[0]) else v[0] >> v[1]),
    "BVAShr": (lambda ts, i: bvok(ts), lambda v, ts, i: (signed(v[0], W(ts[0])) >> min(v[1], W(ts[0]))) % (1 << W(ts[0]))),
    "BVSDiv": (lambda ts, i: bvok(ts), lambda v, ts, i: sdiv(v[0], v[1], W(ts[0]))),
    "BVSRem": (lambda ts, i: bvok(ts), lambda v, ts, i: srem(v[0], v[1], W(ts[0]))),
    "BVSMod": (lambda ts, i: bvok(ts), lambda v, ts, i: smod(v[0], v[1], W(ts[0]))),
    "BVAnd": (lambda ts, i: bvok(ts), lambda v, ts, i: _fold(v, lambda a, b: a & b)),
    "BVOr": (lambda ts, i: bvok(ts), lambda v, ts, i: _fold(v, lambda a, b: a | b)),
    "BVAdd": (lambda ts, i: bvok(ts), lambda v, ts, i: sum(v) % (1 << W(ts[0]))),
    "BVMul": (lambda ts, i: bvok(ts), lambda v, ts, i: _prod(v) % (1 << W(ts[0]))),
    "BVNot": (lambda ts, i: bvok(ts), lambda v, ts, i: (1 << W(ts[0])) - 1 - v[0]),
    "BVNeg": (lambda ts, i: bvok(ts), lambda v, ts, i: (-v[0]) % (1 << W(ts[0]))),
    "BVNand": (lambda ts, i: bvok(ts), lambda v, ts, i: (1 << W(ts[0])) - 1 - (v[0] & v[1])),
    "BVNor": (lambda ts, i: bvok(ts), lambda v, ts, i: (1 << W(ts[0])) - 1 - (v[0] | v[1])),
    "BVXnor": (lambda ts, i: bvok(ts), lambda v, ts, i: (1 << W(ts[0])) - 1 - (v[0] ^ v[1])),
    "BVULT": (lambda ts, i: bvok(ts), lambda v, ts, i: v[0] < v[1]),
    "BVULE": (lambda ts, i: bvok(ts), lambda v, ts, i: v[0] <= v[1]),
    "BVUGT": (lambda ts, i: bvok(ts), lambda v, ts, i: v[0] > v[1]),
    "BVUGE": (lambda ts, i: bvok(ts), lambda v, ts, i: v[0] >= v[1]),
    "BVSLT": (lambda ts, i: bvok(ts), lambda v, ts, i: signed(v[0], W(ts[0])) < signed(v[1], W(ts[0]))),
    "BVSLE": (lambda ts, i: bvok(ts), lambda v, ts, i: signed(v[0], W(ts[0])) <= signed(v[1], W(ts[0]))),
    "BVSGT": (lambda ts, i: bvok(ts), lambda v, ts, i: signed(v[0], W(ts[0])) > signed(v[1], W(ts[0]))),
    "BVSGE": (lambda ts, i: bvok(ts), lambda v, ts, i: signed(v[0], W(ts[0])) >= signed(v[1], W(ts[0]))),
    "BVComp": (lambda ts, i: bvok(ts), lambda v, ts, i: 1 if v[0] == v[1] else 0),
    "BVConcat": (lambda ts, i: len(ts) >= 2 and all(t.is_bv_type() for t in ts), lambda v, ts, i: _concat(v, ts)),
    "BVExtract": (lambda ts, i: ts[0].is_bv_type() and 0 <= i[0] <= i[1] < W(ts[0]),
                  lambda v, ts, i: (v[0] >> i[0]) & ((1 << (i[1] - i[0] + 1)) - 1)),
    "BVZExt": (lambda ts, i: ts[0].is_bv_type() and i[0] >= 0, lambda v, ts, i: v[0]),
    # i[0] >= 2 copies of a bit-vector; one copy is the term itself, of whatever type
    "BVRepeat": (lambda ts, i: i[0] == 1 or (ts[0].is_bv_type() and i[0] >= 1),
                 lambda v, ts, i: v[0] if i[0] == 1 else sum(v[0] << (j * W(ts[0])) for j in range(i[0]))),
    "BVSExt": (lambda ts, i: ts[0].is_bv_type() and i[0] >= 0,
               lambda v, ts, i: signed(v[0], W(ts[0])) % (1 << (W(ts[0]) + i[0]))),
    "BVRol": (lambda ts, i: ts[0].is_bv_type() and 0 <= i[0] <= W(ts[0]), lambda v, ts, i: rot(v[0], i[0], W(ts[0]), True)),
    "BVRor": (lambda ts, i: ts[0].is_bv_type() and 0 <= i[0] <= W(ts[0]), lambda v, ts, i: rot(v[0], i[0], W(ts[0]), False)),
    "BVLShl[int]": (lambda ts, i: ts[0].is_bv_type() and 0 <= i[0] < (1 << W(ts[0])),
                    lambda v, ts, i: 0 if i[0] >= W(ts[0]) else (v[0] << i[0]) % (1 << W(ts[0]))),
    "BVLShr[int]": (lambda ts, i: ts[0].is_bv_type() and 0 <= i[0] < (1 << W(ts[0])),
                    lambda v, ts, i: 0 if i[0] >= W(ts[0]) else v[0] >> i[0]),
    "BVAShr[int]": (lambda ts, i: ts[0].is_bv_type() and 0 <= i[0] < (1 << W(ts[0])),
                    lambda v, ts, i: (signed(v[0], W(ts[0])) >> min(i[0], W(ts[0]))) % (1 << W(ts[0]))),
    "BV": (lambda ts, i: i[1] >= 1 and 0 <= i[0] < (1 << i[1]), lambda v, ts, i: i[0]),
    "SBV": (lambda ts, i: i[1] >= 1 and -(1 << (i[1] - 1)) <= i[0] < (1 << (i[1] - 1)), lambda v, ts, i: i[0] % (1 << i[1])),
    "BVOne": (lambda ts, i: i[0] >= 1, lambda v, ts, i: 1),
    "BVZero": (lambda ts, i: i[0] >= 1, lambda v, ts, i: 0),
    "BVToNatural": (lambda ts, i: ts[0].is_bv_type(), lambda v, ts, i: v[0]),
    "StrLength": (lambda ts, i: allstr(ts), lambda v, ts, i: len(v[0])),
    "StrConcat": (lambda ts, i: len(ts) >= 2 and allstr(ts), lambda v, ts, i: "".join(v)),
    "StrContains": (lambda ts, i: allstr(ts), lambda v, ts, i: v[1] in v[0]),
    "StrIndexOf": (lambda ts, i: allstr(ts[:2]) and ts[2].is_int_type(), lambda v, ts, i: refeval.str_indexof(*v)),
    "StrReplace": (lambda ts, i: allstr(ts), lambda v, ts, i: refeval.str_replace(*v)),
    "StrSubstr": (lambda ts, i: ts[0].is_string_type() and ts[1].is_int_type() and ts[2].is_int_type(),
                  lambda v, ts, i: refeval.str_substr(*v)),
    "StrPrefixOf": (lambda ts, i: allstr(ts), lambda v, ts, i: v[1].startswith(v[0])),
    "StrSuffixOf": (lambda ts, i: allstr(ts), lambda v, ts, i: v[1].endswith(v[0])),
    "StrToInt": (lambda ts, i: allstr(ts), lambda v, ts, i: refeval.str_to_int(v[0])),
    "IntToStr": (lambda ts, i: ts[0].is_int_type(), lambda v, ts, i: str(v[0]) if v[0] >= 0 else ""),
    "StrCharAt": (lambda ts, i: ts[0].is_string_type() and ts[1].is_int_type(), lambda v, ts, i: refeval.str_substr(v[0], v[1], 1)),
    "Select": (lambda ts, i: ts[0].is_array_type() and ts[0].index_type == ts[1], lambda v, ts, i: v[0].get(v[1])),
    "Store": (lambda ts, i: ts[0].is_array_type() and ts[0].index_type == ts[1] and ts[0].elem_type == ts[2],
              lambda v, ts, i: v[0].store(v[1], v[2])),
}


def _prod(v):
    r = v[0]
    for x in v[1:]:
        r = r * x
    return r


def _fold(v, f):
    r = v[0]
    for x in v[1:]:
        r = f(r, x)
    return r


def _concat(v, ts):
    r = v[0]
    for x, t in zip(v[1:], ts[1:]):
        r = (r << t.width) | x
    return r


def check_constructor(env, name, method, prefix, nary, args, ints, trials=12, seed=0):
    """-> None or failure dict"""
    import random
    mgr = env.formula_manager
    app, fn = T[name]
    ts = [a.get_type() for a in args]
    try:
        ok = bool(app(ts, ints)) and not any(t.is_function_type() for t in ts)
    except Exception:
        ok = False
    call = list(prefix) + ([list(args)] if nary else list(args)) + list(ints)
    try:
        res = method(*call) if callable(method) else getattr(mgr, method)(*call)
    except Exception as e:
        if ok:
            return {"clause": "C03:raises-only-if-ill-formed", "exception": "%s: %s" % (type(e).__name__, str(e)[:120])}
        return None
    if not ok:
        if any(t.is_function_type() for t in ts):
            return None
        return {"clause": "C03:ill-formed-application-rejected", "result": str(res), "argtypes": [str(t) for t in ts]}
    rng = random.Random(seed)
    for _ in range(trials):
        I = refeval.Interp(rng=random.Random(rng.random()))
        try:
            vals = [refeval.evaluate(a, I) for a in args]
            got = refeval.evaluate(res, I)
            want = fn(vals, ts, ints)
        except (refeval.DivByZero, refeval.Unsupported):
            continue
        if isinstance(want, bool) or isinstance(got, bool):
            same = bool(want) == bool(got)
        else:
            same = want == got
        if not same:
            return {"clause": "C06:denotes-named-function", "args_values": [repr(x) for x in vals], "ints": ints,
                    "expected": repr(want), "got": repr(got), "result": str(res)}
    return None
