"""Bounded stand-ins for C14 (history independence), C15 (a failing call leaves no trace) and
C20 (work linear in the DAG, independent of depth) on the real library.  Labelled bounded."""
import io
import random
import sys
import time
import warnings

from pysmt.environment import Environment, push_env, pop_env
from pysmt.typing import BOOL, INT, REAL, BVType, ArrayType, FunctionType
from pysmt import operators as op
from pysmt.walkers.dag import DagWalker

from native import refeval
from native.gen import Gen


def fresh():
    env = Environment()
    env.enable_infix_notation = True
    push_env(env)
    return env


# ---------------------------------------------------------------------------
# C20
# ---------------------------------------------------------------------------
def families(m, depth, width):
    """(name, formula, number of distinct nodes): deep chains and DAGs with exponential tree size"""
    a, b = m.Symbol("a", BOOL), m.Symbol("b", BOOL)
    i, j = m.Symbol("i", INT), m.Symbol("j", INT)
    v, w = m.Symbol("v", BVType(8)), m.Symbol("w", BVType(8))
    arr = m.Symbol("arr", ArrayType(INT, INT))
    out = []
    # deep chains (depth >> recursion limit)
    t = a
    for k in range(depth):
        t = m.And(m.Or(t, b), a) if k % 2 else m.Not(m.And(t, b))
    out.append(("bool-chain", t))
    t = i
    for k in range(depth):
        t = m.Plus(t, j) if k % 2 else m.Minus(t, m.Int(1))
    out.append(("int-chain", m.LE(t, j)))
    t = v
    for k in range(depth):
        t = m.BVAdd(t, w) if k % 2 else m.BVXor(t, v)
    out.append(("bv-chain", m.BVULT(t, w)))
    t = i
    for k in range(depth):
        t = m.Ite(a if k % 2 else b, t, j)
    out.append(("int-ite-chain", m.LE(t, j)))
    t = v
    for k in range(depth):
        t = m.Ite(a, t, w) if k % 3 else m.Ite(b, w, t)
    out.append(("bv-ite-chain", m.Equals(m.BVAdd(t, w), v)))
    t = a
    for k in range(depth):
        t = m.Ite(b, t, a) if k % 2 else m.Ite(t, a, b)
    out.append(("bool-ite-chain", t))
    t = arr
    for k in range(depth):
        t = m.Store(t, m.Int(k % 7), m.Plus(i, m.Int(k % 5)))
    out.append(("store-chain", m.Equals(m.Select(t, i), j)))
    # sharing: tree size 2^width, DAG size ~ 3*width
    t = a
    for k in range(width):
        t = m.And(m.Or(t, b), m.Or(t, m.Not(b)))
    out.append(("bool-diamond", t))
    t = i
    for k in range(width):
        t = m.Plus(t, t, m.Int(k))
    out.append(("int-diamond", m.LT(t, j)))
    t = v
    for k in range(width):
        t = m.BVAdd(m.BVXor(t, w), m.BVAnd(t, v))
    out.append(("bv-diamond", m.Equals(t, w)))
    t = v
    for k in range(width):
        t = m.Ite(a, m.BVAdd(t, w), m.BVNot(t))
    out.append(("bv-ite-diamond", m.BVULE(t, w)))
    t = i
    for k in range(width):
        t = m.Ite(m.LT(t, j), t, m.Plus(t, m.Int(1)))
    out.append(("int-ite-diamond", m.LE(t, j)))
    # bit-vector ITEs nested directly in their then-branch (width accessors must not follow them by recursion)
    t = v
    for k in range(depth):
        t = m.Ite(a if k % 2 else b, t, w)
    out.append(("bv-ite-then-chain", m.BVULE(m.BVAdd(t, w), w)))
    # products whose factor shares its sub-terms (tree size 2^width)
    t = i
    for k in range(width):
        t = m.Times(m.Int(3), m.Ite(m.LT(t, j), t, m.Minus(t, j)))
    out.append(("times-ite-diamond", m.LE(t, j)))
    # deep nesting of products: t' = 3 * t + j  (logic detection asks for the free symbols of every factor: they must come from
    # the environment's memoising service, not from a walk of the factor per product)
    t = i
    for k in range(depth):
        t = m.Plus(m.Times(m.Int(3), t), j) if k % 2 else m.Minus(m.Times(t, m.Int(2)), i)
    out.append(("times-chain", m.LE(t, j)))
    # string operators sharing their arguments (tree size 3^width)
    from pysmt.typing import STRING
    s0 = m.Symbol("str_s", STRING)
    t = s0
    for k in range(width):
        t = m.StrReplace(t, m.StrSubstr(t, m.Int(0), m.StrLength(t)), t)
    out.append(("string-diamond", m.StrPrefixOf(s0, t)))
    return out


def dag_size(f):
    seen, st = set(), [f]
    while st:
        n = st.pop()
        if n in seen:
            continue
        seen.add(n)
        st.extend(n.args())
    return len(seen)


class Counter:
    """counts callback invocations of every DagWalker (instrumentation of the harness process only)"""
    def __init__(self):
        self.n = 0
        self.orig = DagWalker._compute_node_result
        self.orig_push = DagWalker._push_with_children_to_stack

    def __enter__(self):
        c = self

        def counted(walker, formula, **kwargs):
            key = walker._get_key(formula, **kwargs)
            if key not in walker.memoization:
                c.n += 1
            return c.orig(walker, formula, **kwargs)
        DagWalker._compute_node_result = counted
        return self

    def __exit__(self, *a):
        DagWalker._compute_node_result = self.orig


def work_check(tier, seed):
    from pysmt.smtlib.script import smtlibscript_from_formula
    from pysmt.smtlib.parser import SmtLibParser
    from pysmt.rewritings import nnf, cnf, prenex_normal_form, aig
    from pysmt.oracles import get_logic
    depth = 3000 if tier == "quick" else 10000
    width = 40 if tier == "quick" else 100
    viol, samples = [], []
    n = 0
    env = fresh()
    m = env.formula_manager
    sys.setrecursionlimit(1000)
    import signal
    # CPU seconds per operation: a guard against exponential behaviour (which never finishes), generous enough not to trip
    # on a busy machine; super-linear growth is measured separately below
    limit = 60 if tier == "quick" else 900

    class _Timeout(Exception):
        pass

    def _alarm(*a):
        raise _Timeout()
    # CPU time of this process, not wall time: the verdict must not depend on what else the machine is doing
    signal.signal(signal.SIGPROF, _alarm)
    t0 = time.time()
    try:
        fams = families(m, depth, width)
    except RecursionError as e:
        return {"name": "work", "bounded": True, "evaluations": 0, "distinct_nontrivial": 0, "rule": "construction",
                "samples": [], "violations": [{"key": "recursion-at-construction", "error": repr(e)[:200]}]}
    build_s = time.time() - t0
    for name, f in fams:
        size = dag_size(f)
        x, y = m.Symbol("i", INT), m.Symbol("a", BOOL)
        ops = [
            ("get_type", lambda: env.stc.get_type(f)),
            ("simplify", lambda: f.simplify()),
            ("substitute", lambda: f.substitute({m.Symbol("j", INT): m.Int(3), m.Symbol("b", BOOL): m.TRUE(), m.Symbol("w", BVType(8)): m.BV(1, 8)})),
            ("free-variables", lambda: f.get_free_variables()),
            ("atoms", lambda: f.get_atoms()),
            ("size", lambda: f.size()),
            ("is-quantifier-free", lambda: env.qfo.is_qf(f)),
            ("logic", lambda: get_logic(f)),
            ("types", lambda: env.typeso.get_types(f)),
            ("nnf", lambda: nnf(f, env)),
            ("aig", lambda: aig(f, env)),
            ("prenex", lambda: prenex_normal_form(f, env)),
            ("cnf", lambda: cnf(f, env)),
        ]

        def dagprint():
            buf = io.StringIO()
            with warnings.catch_warnings():
                warnings.simplefilter("ignore")
                smtlibscript_from_formula(f, logic="ALL").serialize(buf, daggify=True)
                back = SmtLibParser(env).get_script(io.StringIO(buf.getvalue())).get_strict_formula(m)
            if back is not f:
                raise AssertionError("re-parsed formula is a different object")
        ops.append(("dag-print-and-reparse", dagprint))

        def rejected():
            # an ill-typed construction on top of the DAG must be rejected in time linear in the DAG too (its error
            # message included)
            from pysmt.exceptions import PysmtTypeError
            t = f.get_type()
            attempts = [lambda: m.Plus(f, m.Int(1)), lambda: m.Equals(f, m.TRUE()), lambda: m.LT(f, f)] if t.is_bool_type() else \
                [lambda: m.And(f, m.TRUE()), lambda: m.Iff(f, f), lambda: m.Ite(f, f, f)]
            for a in attempts:
                try:
                    a()
                except (PysmtTypeError, AttributeError):
                    continue
                raise AssertionError("ill-typed construction accepted")
        ops.append(("ill-typed-construction-rejected", rejected))
        for oname, fn in ops:
            n += 1
            with Counter() as c:
                t1 = time.time()
                # (the recorded finding on int-diamond / simplify never finishes: a short limit is enough to see it)
                signal.setitimer(signal.ITIMER_PROF, 20 if (name == "int-diamond" and oname == "simplify") else limit)
                try:
                    with warnings.catch_warnings():
                        warnings.simplefilter("ignore")
                        fn()
                except _Timeout:
                    signal.setitimer(signal.ITIMER_PROF, 0)
                    key = "time-not-linear-in-dag"
                    if name == "int-diamond" and oname == "simplify":
                        key = "simplifier-flattening"       # recorded finding
                    viol.append({"key": key, "family": name, "operation": oname, "dag_size": size, "seconds": ">%d" % limit})
                    continue
                except RecursionError as e:
                    viol.append({"key": "recursion-over-nesting", "family": name, "operation": oname, "dag_size": size})
                    continue
                except Exception as e:
                    viol.append({"key": "operation-failed", "family": name, "operation": oname, "error": repr(e)[:200]})
                    continue
                finally:
                    signal.setitimer(signal.ITIMER_PROF, 0)
                dt = time.time() - t1
            # each distinct sub-formula is handled a bounded number of times: the callbacks run at most 8 times per node in
            # total (rewriters use helper walkers), and the wall time is proportional to the DAG, not to the tree
            if c.n > 25 * size + 2000:
                viol.append({"key": "work-not-linear-in-dag", "family": name, "operation": oname, "dag_size": size, "callbacks": c.n})
        if len(samples) < 3:
            samples.append("%s: %d distinct nodes" % (name, size))
    # growth: the same operation on the Boolean chain at depth d and 4d (CPU time); linear work gives a factor of about 4
    pop_env()
    d0 = 600 if tier == "quick" else 1500
    times = {}
    for d in (d0, 2 * d0, 4 * d0):
        e2 = fresh()
        m2 = e2.formula_manager
        f2 = families(m2, d, 4)[0][1]
        for oname, fn in (("cnf", lambda: cnf(f2, e2)), ("nnf", lambda: nnf(f2, e2)), ("simplify", lambda: f2.simplify()),
                          ("prenex", lambda: prenex_normal_form(f2, e2)), ("aig", lambda: aig(f2, e2))):
            with warnings.catch_warnings():
                warnings.simplefilter("ignore")
                best = None
                for _ in range(2):                     # the smaller of two runs: robust against a busy machine
                    if _ == 1:
                        # a second run needs an environment without the memoised results of the first
                        e3 = fresh()
                        f3 = families(e3.formula_manager, d, 4)[0][1]
                        fn = {"cnf": lambda: cnf(f3, e3), "nnf": lambda: nnf(f3, e3), "simplify": lambda: f3.simplify(),
                              "prenex": lambda: prenex_normal_form(f3, e3), "aig": lambda: aig(f3, e3)}[oname]
                    t1 = time.process_time()
                    fn()
                    dt = time.process_time() - t1
                    best = dt if best is None else min(best, dt)
                    if _ == 1:
                        pop_env()
                times.setdefault(oname, []).append(best)
        pop_env()
        n += 1
    # the same growth without a clock: the clause sets CNFizer stores per node (each one built by copying the children's)
    from pysmt.rewritings import CNFizer
    stored = []
    for d in (150, 300, 600):
        e4 = fresh()
        f4 = families(e4.formula_manager, d, 4)[0][1]
        cz = CNFizer(environment=e4)
        cz.convert(f4)
        stored.append(sum(len(v_[1]) for v_ in cz.memoization.values() if isinstance(v_, tuple) and len(v_) == 2 and hasattr(v_[1], "__len__")))
        pop_env()
        n += 1
    if stored[0] > 0 and stored[1] > 3.2 * stored[0] and stored[2] > 3.2 * stored[1] \
            and not any(oname == "cnf" and a_ >= 0.1 and b_ > 3.2 * a_ and c_ > 3.2 * b_ for oname, (a_, b_, c_) in times.items()):
        viol.append({"key": "cnf-time-quadratic-in-depth", "family": "bool-chain", "operation": "cnf",
                     "clause_set_elements_stored": {"depth 150": stored[0], "depth 300": stored[1], "depth 600": stored[2]}})
    for oname, (a_, b_, c_) in times.items():
        # doubling the depth doubles linear work and quadruples quadratic work: reported only when BOTH doublings more than
        # triple the time and the times are large enough to be measured
        if a_ >= 0.1 and b_ > 3.2 * a_ and c_ > 3.2 * b_:
            viol.append({"key": "%s-time-quadratic-in-depth" % oname, "family": "bool-chain", "operation": oname,
                         "cpu_seconds": {"depth %d" % d0: round(a_, 2), "depth %d" % (2 * d0): round(b_, 2), "depth %d" % (4 * d0): round(c_, 2)}})
    return {"name": "work", "bounded": True, "evaluations": n, "distinct_nontrivial": n,
            "rule": "16 formula families (chains of depth %d over Boolean / arithmetic / bit-vector operators, ITE of every sort, string operators and "
                    "array stores; diamonds of width %d whose tree expansion has 2^%d nodes) x 15 operations (type check, rejection of an ill-typed construction on top, simplify, "
                    "substitute, free symbols, atoms, size, quantifier-freeness, logic detection, sorts, NNF, AIG, prenex, CNF, "
                    "DAG print + re-parse) under the default recursion limit of 1000: no RecursionError, callbacks executed "
                    "<= 25 x distinct nodes, each within %d s of CPU time; growth of CNF / NNF / simplify / prenex / AIG on the Boolean chain at depths d, 2d, 4d measured in CPU time (reported when both doublings more than triple it)" % (depth, width, width, limit),
            "samples": samples, "violations": viol[:8]}


# ---------------------------------------------------------------------------
# C14
# ---------------------------------------------------------------------------
def observations(env, f, rng_seed):
    """results of a fixed list of queries / transformations on f, in a form comparable across environments"""
    from native.bounded_hashcons import skey as _skey
    from pysmt.rewritings import nnf, cnf, prenex_normal_form
    from pysmt.oracles import get_logic
    m = env.formula_manager
    out = {}
    skey = lambda x: _skey(x, commutative=True)        # results are compared up to the order of commutative arguments

    def put(k, fn):
        try:
            with warnings.catch_warnings():
                warnings.simplefilter("ignore")
                out[k] = fn()
        except Exception as e:
            out[k] = "raises " + type(e).__name__
    put("type", lambda: str(f.get_type()))
    put("simplify", lambda: skey(f.simplify()))
    put("free", lambda: sorted(s.symbol_name() for s in f.get_free_variables()))
    put("atoms", lambda: sorted(repr(skey(a)) for a in f.get_atoms()) if f.get_type().is_bool_type() else None)
    put("qf", lambda: env.qfo.is_qf(f))
    put("logic", lambda: str(get_logic(f, env)))
    put("types", lambda: sorted(str(t) for t in env.typeso.get_types(f)))
    for msr in range(6):
        put("size%d" % msr, lambda msr=msr: f.size(msr))
    put("nnf", lambda: skey(nnf(f, env)) if f.get_type().is_bool_type() else None)
    put("prenex", lambda: skey(prenex_normal_form(f, env)) if f.get_type().is_bool_type() else None)
    syms = sorted(f.get_free_variables(), key=lambda s: s.symbol_name())
    r = random.Random(rng_seed)
    if syms:
        s0 = syms[0]
        t = s0.symbol_type()
        val = m.TRUE() if t.is_bool_type() else m.Int(1) if t.is_int_type() else m.Real(1) if t.is_real_type() else \
            m.BV(1, t.width) if t.is_bv_type() else None
        if val is not None:
            put("substitute", lambda: skey(f.substitute({s0: val})))
    put("print", lambda: f.serialize())
    # a substitution under a binder with the SAME keys as one made earlier in the history but other values
    hx, hy = m.Symbol("hist_x", INT), m.Symbol("hist_y", INT)
    hq = m.And(m.ForAll([hx], m.LT(m.Int(0), m.Plus(hx, hy))), m.Exists([hx], m.LE(hy, hx)))
    put("substitute-under-binder", lambda: hq.substitute({hy: m.Int(2)}).serialize())
    # constructors with an argument of the wrong kind that equals (==) a value the constant caches may hold
    def _kind(fn):
        try:
            return "accepted: %s" % fn()
        except Exception as e:
            return "rejected: %s" % type(e).__name__
    # a formula that an earlier simplification RETURNED, met again inside a bigger one (simplification is not idempotent)
    hz = m.Symbol("hist_z", INT)
    ret = m.Times(m.Int(-1), m.Plus(hy, hx))
    put("simplify-around-an-earlier-result", lambda: [m.Plus(ret, hz).simplify().serialize(), m.Plus(m.Times(m.Int(-1), m.Plus(hx, hy)), hz).simplify().serialize()])
    put("refused-query-asked-twice", lambda: [_kind(lambda: env.sizeo.get_size(f, "no-such-measure")) for _ in range(2)])
    put("constant-of-wrong-kind", lambda: [_kind(lambda: m.Real(True)), _kind(lambda: m.Real(False)), _kind(lambda: m.Int(7.0)),
                                           _kind(lambda: m.Int(True)), _kind(lambda: m.String(7))])
    return out


def _history_substitutions(env):
    m = env.formula_manager
    hx, hy = m.Symbol("hist_x", INT), m.Symbol("hist_y", INT)
    hq = m.And(m.ForAll([hx], m.LT(m.Int(0), m.Plus(hx, hy))), m.Exists([hx], m.LE(hy, hx)))
    hq.substitute({hy: m.Int(1)})
    hq.substitute({hy: m.Plus(hy, m.Int(7))})
    m.Real(1), m.Real(0), m.Int(7), m.Int(1), m.Int(0)
    m.Plus(m.Times(hx, m.Int(-1)), m.Times(hy, m.Int(-1))).simplify()
    m.Plus(m.Times(hy, m.Int(-1)), m.Times(hx, m.Int(-1))).simplify()


def history_check(tier, seed):
    rng = random.Random(seed)
    trials = 60 if tier == "quick" else 800
    n = nontriv = 0
    viol, samples = [], []
    for t in range(trials):
        # a long-lived environment with a random history
        env = fresh()
        g = Gen(env, seed=seed * 1000 + t, widths=(1, 2, 3, 8), consts_bias=0.3)
        m = env.formula_manager
        hist = []
        for _ in range(rng.randint(3, 10)):
            try:
                hist.append(g.term(rng.choice([BOOL, BOOL, INT, REAL, BVType(3)]), rng.randint(1, 3)))
            except Exception:
                pass
        f = None
        for _ in range(5):
            try:
                f = g.term(BOOL, rng.randint(2, 4))
                break
            except Exception:
                continue
        if f is None:
            pop_env()
            continue
        # history: queries / transformations on other formulas that share sub-DAGs with f
        _history_substitutions(env)
        for h in hist + [x for x in list(f.args())[:2]]:
            try:
                with warnings.catch_warnings():
                    warnings.simplefilter("ignore")
                    observations(env, h, t)
                    if h.get_type().is_bool_type():
                        from pysmt.rewritings import prenex_normal_form, cnf
                        prenex_normal_form(h, env)
                        cnf(m.Not(h), env)
                    h.substitute({s: s for s in list(h.get_free_variables())[:1]})
            except Exception:
                pass
        o1 = observations(env, f, t)
        o1b = observations(env, f, t)
        pop_env()
        n += 1
        if f.args():
            nontriv += 1
        rq = o1.get("refused-query-asked-twice")
        if isinstance(rq, list) and len(rq) == 2 and rq[0] != rq[1]:
            # the answer to a query depends on the same query having been asked (and refused) just before
            viol.append({"key": "history-dependent-result", "query": "refused-query-asked-twice", "formula": f.serialize()[:200],
                         "first": rq[0], "second": rq[1]})
            break
        if o1 != o1b:
            k = [k for k in o1 if o1[k] != o1b.get(k)]
            viol.append({"key": "repeated-call-differs", "query": k[0], "formula": f.serialize()[:300]})
            break
        # the same formula in a fresh environment
        env2 = fresh()
        f2 = env2.formula_manager.normalize(f)
        o2 = observations(env2, f2, t)
        pop_env()
        diff = [k for k in o1 if o1[k] != o2.get(k)]
        if diff:
            viol.append({"key": "history-dependent-result", "query": diff[0], "formula": f.serialize()[:300],
                         "with_history": str(o1[diff[0]])[:300], "fresh": str(o2.get(diff[0]))[:300]})
            break
        if len(samples) < 3:
            samples.append(f.serialize()[:150])
    return {"name": "history", "bounded": True, "evaluations": n, "distinct_nontrivial": nontriv,
            "rule": "%d environments with a random history (3-10 other formulas sharing sub-DAGs with the probe, each put through type "
                    "query, simplify, free symbols, atoms, logic detection, sorts, all size measures, NNF, prenex, CNF, substitution, "
                    "printing); the same 18 observations of the probe formula must be equal when repeated and equal to those of "
                    "its copy in a fresh environment (structures compared up to the environment)" % trials,
            "samples": samples, "violations": viol}


# ---------------------------------------------------------------------------
# C15
# ---------------------------------------------------------------------------
def failure_check(tier, seed):
    from pysmt.smtlib.parser import SmtLibParser
    from pysmt.smtlib.script import smtlibscript_from_formula
    rng = random.Random(seed)
    trials = 60 if tier == "quick" else 800
    n = nfail = 0
    viol, samples = [], []
    for t in range(trials):
        envs = []
        obs = []
        for twin in (0, 1):
            env = fresh()
            g = Gen(env, seed=seed * 1000 + t, widths=(1, 2, 3, 8), consts_bias=0.3)
            m = env.formula_manager
            r = random.Random(seed * 77 + t)
            probes = []
            for _ in range(3):
                try:
                    probes.append(g.term(BOOL, r.randint(2, 3)))
                except Exception:
                    pass
            if not probes:
                pop_env()
                break
            failed = 0
            if twin == 1:
                # injected failing calls on the shared services, at several depths of a traversal
                f = probes[0]
                syms = sorted(f.get_free_variables(), key=lambda s: s.symbol_name())
                attempts = []
                for s in syms[:3]:
                    ty = s.symbol_type()
                    wrong = m.TRUE() if not ty.is_bool_type() else m.Int(1)
                    attempts.append(lambda s=s, wrong=wrong: f.substitute({s: wrong}))
                attempts.append(lambda: m.Plus(m.Int(1), m.TRUE()))
                attempts.append(lambda: m.And(m.Int(1), f))
                attempts.append(lambda: m.BVAdd(m.BV(1, 3), m.BV(1, 4)))
                attempts.append(lambda: m.Symbol(syms[0].symbol_name(), FunctionType(INT, [INT])) if syms else None)
                attempts.append(lambda: SmtLibParser(env).get_script(io.StringIO("(declare-fun zz () Int)(assert (and zz true))")))
                attempts.append(lambda: SmtLibParser(env).get_script(io.StringIO("(assert (frobnicate 1))")))
                attempts.append(lambda: env.simplifier.simplify(None))
                attempts.append(lambda: f.substitute({f: m.Int(3)}))
                attempts.append(lambda: env.stc.get_type(m.create_node(op.PLUS, (m.TRUE(), m.Int(1)))))
                # a walk that fails exactly at its root (the children are done, the work list is already empty)
                attempts.append(lambda: m.Plus(m.Symbol("root_a", INT), m.Symbol("root_b", INT)).substitute({m.Symbol("root_a", INT): m.Real(1)}))
                attempts.append(lambda: m.LT(m.Symbol("root_a", INT), m.Int(1)).substitute({m.Symbol("root_a", INT): m.TRUE()}))
                # a query the service refuses (unknown size measure), asked twice
                attempts.append(lambda: env.sizeo.get_size(f, "no-such-measure"))
                attempts.append(lambda: env.sizeo.get_size(f, "no-such-measure"))
                for a in attempts:
                    try:
                        with warnings.catch_warnings():
                            warnings.simplefilter("ignore")
                            a()
                    except Exception:
                        failed += 1
            o = []
            for p in probes:
                o.append(observations(env, p, t))
            ra, rb = m.Symbol("root_a", INT), m.Symbol("root_b", INT)
            def _obs(fn):
                try:
                    return str(fn())
                except Exception as e:
                    return "raises %s: %s" % (type(e).__name__, str(e)[:120])
            o.append([_obs(lambda: ra.substitute({rb: m.Int(5)})), _obs(lambda: m.LE(m.Plus(ra, m.Int(1)), rb).substitute({ra: m.Int(5)})),
                      _obs(lambda: m.Plus(ra, rb).substitute({rb: m.Int(2)})),
                      _obs(lambda: env.sizeo.get_size(m.Plus(ra, rb), "no-such-measure")), _obs(lambda: env.sizeo.get_size(m.Plus(ra, rb)))])
            # a refused query asked again at once must be refused again (the first refusal leaves no trace)
            again = [_obs(lambda: env.sizeo.get_size(m.Plus(ra, rb), "no-such-measure")) for _ in range(2)]
            if again[0] != again[1]:
                viol.append({"key": "failing-call-left-a-trace", "query": "the same refused size query asked twice", "first": again[0], "second": again[1]})
            # the parser object itself after a failing script
            p1 = SmtLibParser(env)
            if twin == 1:
                try:
                    p1.get_script(io.StringIO("(set-logic QF_LRA)(define-fun kk () Real 7.5)(declare-fun yy () Int)(assert (> yy kk kk))"))
                except Exception:
                    failed += 1
            try:
                with warnings.catch_warnings():
                    warnings.simplefilter("ignore")
                    sc = p1.get_script(io.StringIO("(declare-fun yy () Int)(assert (> (+ yy 2) 7))"))
                o.append([str(c.args) for c in sc.commands])
            except Exception as e:
                o.append("raises " + type(e).__name__)
            obs.append(o)
            nfail += failed
            pop_env()
        if len(obs) < 2:
            continue
        n += 1
        if obs[0] != obs[1]:
            idx = [i for i in range(len(obs[0])) if obs[0][i] != obs[1][i]][0]
            if isinstance(obs[0][idx], dict):
                k = [k for k in obs[0][idx] if obs[0][idx][k] != obs[1][idx].get(k)]
                viol.append({"key": "failing-call-left-a-trace", "query": k[0], "untouched": str(obs[0][idx][k[0]])[:300],
                             "after_failures": str(obs[1][idx].get(k[0]))[:300]})
            else:
                viol.append({"key": "failing-call-left-a-trace", "query": "parser" if idx == len(obs[0]) - 1 else "substitutions after a walk that failed at its root",
                             "untouched": str(obs[0][idx])[:300],
                             "after_failures": str(obs[1][idx])[:300]})
            break
    return {"name": "failure", "bounded": True, "evaluations": n, "distinct_nontrivial": nfail,
            "rule": "%d pairs of twin environments built identically; in one of them ~14 failing calls are injected (ill-typed "
                    "substitutions at several depths and exactly at the root, ill-typed constructions, symbol redefinition, malformed / ill-typed scripts, "
                    "bad arguments to services, a hand-made ill-typed node; %d raised in total); afterwards 18 observations of 3 "
                    "probe formulas and a parse on the used parser must be equal in both twins" % (trials, nfail),
            "samples": samples, "violations": viol}


CHECKS = {"work": work_check, "history": history_check, "failure": failure_check}
