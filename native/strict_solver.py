"""A strict reference SMT-LIB solver process for C17 (stdin -> stdout), built on the
independent reader native/smtlib_ref.py.  It rejects every illegal command with an
(error ...) reply - undeclared or doubly declared symbols / sorts, ill-sorted terms,
pop beyond the pushed levels, get-value when the last answer was not sat - and decides
satisfiability by enumeration over finite domains (Bool, bit-vectors up to 4 bits,
Int in [-3, 4], uninterpreted sorts with 2 elements).  Every command gets exactly one
reply (print-success is honoured)."""
import itertools
import os
import sys
from fractions import Fraction

sys.path.insert(0, os.path.dirname(os.path.dirname(os.path.abspath(__file__))))
from native import smtlib_ref as R          # noqa: E402

INT_DOMAIN = list(range(-3, 5))


def carrier(s):
    if s == R.BOOL:
        return [False, True]
    if s == R.INT:
        return INT_DOMAIN
    if s[0] == "BV":
        if s[1] > 4:
            raise R.SmtError("bit-vector too wide for the reference solver")
        return list(range(1 << s[1]))
    if s == R.REAL:
        return [Fraction(-1), Fraction(0), Fraction(1, 2), Fraction(2)]
    if s[0] == "U":
        return [("U", R.sort_name(s), k) for k in range(2)]
    raise R.SmtError("no finite carrier for %s" % (s,))


def show(s, v):
    if s == R.BOOL:
        return "true" if v else "false"
    if s == R.INT:
        return str(v) if v >= 0 else "(- %d)" % -v
    if s == R.REAL:
        n, d = abs(v.numerator), v.denominator
        t = "%d.0" % n if d == 1 else "(/ %d.0 %d.0)" % (n, d)
        return t if v >= 0 else "(- %s)" % t
    if s[0] == "BV":
        return "#b" + format(v, "0%db" % s[1])
    raise R.SmtError("cannot print a value of sort %s" % (s,))


class Solver:
    def __init__(self):
        self.sc = R.Script()
        self.print_success = False
        self.last = None          # 'sat' | 'unsat' | None (invalidated by any change of the assertion stack)
        self.model = None

    def reply(self, text):
        sys.stdout.write(text + "\n")
        sys.stdout.flush()

    def ok(self):
        if self.print_success:
            self.reply("success")

    def constants(self):
        out = []
        for lv in self.sc.sig.levels:
            for name, (params, ret) in lv["funs"].items():
                if params:
                    raise R.SmtError("uninterpreted functions are outside the reference solver")
                out.append((name, ret))
        return out

    def check_sat(self):
        consts = self.constants()
        live = self.sc.live()
        for vals in itertools.product(*[carrier(s) for _, s in consts]):
            m = R.Model({str(n): v for (n, _), v in zip(consts, vals)})
            try:
                if all(R.evaluate(t, self.sc.sig, m)[1] is True for t in live):
                    self.model = m
                    return "sat"
            except R.DivByZero:
                continue
        self.model = None
        return "unsat"

    def handle(self, cmd):
        name = str(cmd[0]) if cmd and isinstance(cmd[0], R.Sym) else None
        if name == "set-option":
            if len(cmd) >= 3 and cmd[1] == ":print-success":
                self.print_success = (cmd[2] == "true")
            self.ok()
            return True
        if name == "check-sat":
            self.last = self.check_sat()
            self.reply(self.last)
            return True
        if name == "get-value":
            if self.last != "sat":
                raise R.SmtError("get-value without a preceding sat answer")
            out = []
            for t in cmd[1]:
                s, v = R.evaluate(t, self.sc.sig, self.model)
                out.append("(%s %s)" % (text_of(t), show(s, v)))
            self.reply("(" + " ".join(out) + ")")
            return True
        if name == "exit":
            self.ok()
            return False
        if name in ("declare-fun", "declare-const") and len(cmd) > 1 and str(cmd[1]) == (os.environ.get("STRICT_SOLVER_REJECT") or None):
            # a solver that does not support this declaration: says so and its state is unchanged (SMT-LIB 2.6, 4.1.1)
            self.reply("unsupported")
            return True
        r = self.sc.run(cmd)
        if name in ("assert", "push", "pop", "reset-assertions", "declare-fun", "declare-const", "declare-sort", "define-fun"):
            self.last = None
        if r in ("get-model",):
            raise R.SmtError("get-model is not used by the wrapper")
        self.ok()
        return True


def text_of(sx):
    if isinstance(sx, list):
        return "(" + " ".join(text_of(x) for x in sx) + ")"
    if isinstance(sx, R.StrLit):
        return '"' + str(sx).replace('"', '""') + '"'
    if isinstance(sx, R.BvLit):
        return "#b" + format(sx[0], "0%db" % sx[1])
    if isinstance(sx, R.Sym):
        nm = str(sx)
        if nm and all(c in R.SIMPLE_CHARS for c in nm) and not nm[0].isdigit():
            return nm
        return "|%s|" % nm
    return str(sx)


def read_commands(stream):
    """yield the text of one balanced s-expression at a time"""
    buf, depth, in_str, in_bar = [], 0, False, False
    while True:
        c = stream.read(1)
        if c == "":
            return
        buf.append(c)
        if in_str:
            if c == '"':
                in_str = False
            continue
        if in_bar:
            if c == "|":
                in_bar = False
            continue
        if c == '"':
            in_str = True
        elif c == "|":
            in_bar = True
        elif c == "(":
            depth += 1
        elif c == ")":
            depth -= 1
            if depth == 0:
                yield "".join(buf)
                buf = []


def main():
    s = Solver()
    log = open(os.environ["STRICT_SOLVER_LOG"], "a") if os.environ.get("STRICT_SOLVER_LOG") else None
    for text in read_commands(sys.stdin):
        if log:
            log.write(text.strip() + "\n")
            log.flush()
        try:
            cmds = R.parse_all(text)
            if len(cmds) != 1:
                raise R.SmtError("expected one command")
            if not s.handle(cmds[0]):
                break
        except R.SmtError as e:
            s.reply('(error "%s")' % str(e).replace('"', "'"))
        except Exception as e:      # the reference solver itself must never die silently
            s.reply('(error "reference solver: %r")' % (e,))


if __name__ == "__main__":
    main()
