"""JSON description (pyvc.concretize) -> real FNode, using the real constructors."""
from fractions import Fraction

import pysmt.operators as op
from pysmt.typing import BOOL, INT, REAL, STRING, BVType, ArrayType, FunctionType, Type

OPS = {name: getattr(op, name) for name in dir(op) if name.isupper() and isinstance(getattr(op, name), int)}


class Builder:
    def __init__(self, env):
        self.env = env
        self.mgr = env.formula_manager
        self.cache = {}
        self.fresh = 0

    def ty(self, d):
        t = (d or {}).get("t")
        if t == "BoolT":
            return BOOL
        if t == "IntT":
            return INT
        if t == "RealT":
            return REAL
        if t == "StrT":
            return STRING
        if t == "BVT":
            w = d.get("w") or 1
            return BVType(max(1, min(int(w), 64)))
        if t == "ArrT":
            return ArrayType(self.ty(d.get("i")), self.ty(d.get("e")))
        if t == "FunT":
            return FunctionType(self.ty(d.get("ret")), [self.ty(p) for p in d.get("params", [])])
        if t == "CustomT":
            return Type("U%s" % d.get("id", 0))
        return BOOL

    def sym(self, ty, hint="v"):
        self.fresh += 1
        return self.mgr.Symbol("%s_%d" % (hint, self.fresh), ty)

    def node(self, d):
        k = d.get("id")
        if k in self.cache:
            return self.cache[k]
        try:
            n = self._node(d)
        except Exception:
            n = self.sym(self.ty(d.get("type")), "x")
        self.cache[k] = n
        return n

    def _node(self, d):
        m = self.mgr
        name = d.get("op")
        if name is None or d.get("args") is None and name not in ("SYMBOL",) and not name.endswith("CONSTANT"):
            return self.sym(self.ty(d.get("type")), "o")
        if name == "INT_CONSTANT":
            return m.Int(int(d["value"]))
        if name == "REAL_CONSTANT":
            return m.Real(Fraction(d["value"]))
        if name == "BOOL_CONSTANT":
            return m.Bool(bool(d["value"]))
        if name == "STR_CONSTANT":
            return m.String(d["value"] or "")
        if name == "BV_CONSTANT":
            w = max(1, min(int(d["width"]), 64))
            return m.BV(int(d["value"]) % (1 << w), w)
        if name == "SYMBOL":
            return self.sym(self.ty(d.get("stype")), "s")
        args = tuple(self.node(a) for a in d["args"])
        code = OPS[name]
        payload = None
        if name == "FUNCTION":
            fn = self.sym(FunctionType(self.ty(d.get("type")), [a.get_type() for a in args]), "f")
            return m.Function(fn, args)
        if name in ("FORALL", "EXISTS"):
            qv = [self.sym(self.ty(q.get("stype") or q.get("type")), "q") for q in d.get("qvars", [])]
            return m.create_node(code, args, tuple(qv))
        if name == "ARRAY_VALUE":
            assign = dict(zip(args[1::2], args[2::2]))
            return m.Array(self.ty(d.get("idx_type")), args[0], assign)
        if name == "BV_EXTRACT":
            return m.BVExtract(args[0], int(d["start"]), int(d["end"]))
        if name in ("BV_ROL", "BV_ROR", "BV_ZEXT", "BV_SEXT"):
            f = {"BV_ROL": m.BVRol, "BV_ROR": m.BVRor, "BV_ZEXT": m.BVZExt, "BV_SEXT": m.BVSExt}[name]
            return f(args[0], int(d["step"]))
        if "w" in d and d["w"] is not None:
            payload = (int(d["w"]),)
        return m.create_node(code, args, payload)
