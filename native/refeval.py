"""Reference evaluator for pySMT formulas (runs under the repository's own
interpreter).  Written from SMT-LIB 2.6, independently of pysmt/simplifier.py:
it only uses FNode's structural accessors (node_type, args, payload via the
public accessors) and Python integers / Fractions / strings.

values: bool | int (Int and BV as unsigned) | Fraction | str | ArrVal | ('U', name, k)
"""
import itertools
import random
from fractions import Fraction

import pysmt.operators as op


class DivByZero(Exception):
    """an Int/Real division by zero was evaluated (properties exclude it)"""


class Unsupported(Exception):
    pass


class ArrVal:
    """total function: default + finite overrides (canonical: no override == default)"""
    __slots__ = ("default", "m")

    def __init__(self, default, m=None):
        self.default = default
        self.m = {k: v for k, v in (m or {}).items() if v != default}

    def get(self, i):
        return self.m.get(key(i), (None, self.default))[1]

    def store(self, i, v):
        m = dict(self.m)
        m[key(i)] = (i, v)
        r = ArrVal(self.default)
        r.m = {k: iv for k, iv in m.items() if iv[1] != self.default}
        return r

    def __eq__(self, o):
        return isinstance(o, ArrVal) and self.default == o.default and \
            {k: v[1] for k, v in self.m.items()} == {k: v[1] for k, v in o.m.items()}

    def __ne__(self, o):
        return not self == o

    def __hash__(self):
        return hash((key(self.default), tuple(sorted((k, key(v[1])) for k, v in self.m.items()))))

    def __repr__(self):
        return "Arr(%r,%r)" % (self.default, {k: v[1] for k, v in self.m.items()})


def key(v):
    if isinstance(v, ArrVal):
        return ("A", hash(v))
    if isinstance(v, bool):
        return ("b", v)
    if isinstance(v, Fraction):
        return ("r", v.numerator, v.denominator)
    return (type(v).__name__, v)


def signed(v, w):
    return v - (1 << w) if v >= (1 << (w - 1)) else v


def smt_div(l, r):
    """SMT-LIB Ints: l = r*q + m with 0 <= m < |r|"""
    if r == 0:
        raise DivByZero()
    q = l // r            # floor: remainder has the sign of r
    if l - r * q < 0:     # only possible for r < 0
        q += 1
    assert 0 <= l - r * q < abs(r)
    return q


def str_to_int(s):
    if s and all(c in "0123456789" for c in s):
        return int(s)
    return -1


def str_indexof(s, t, i):
    if i < 0 or i > len(s):
        return -1
    return s.find(t, i)


def str_replace(s, t, t2):
    # SMT-LIB 2.6: t empty -> t2 prepended
    if t == "":
        return t2 + s
    return s.replace(t, t2, 1)


def str_substr(s, i, n):
    if i < 0 or i >= len(s) or n <= 0:
        return ""
    return s[i:i + n]


def type_of(f):
    return f.get_type()


def bv_width_of_type(t):
    return t.width


class Interp:
    """assignment of values to free symbols (functions: python callables)"""
    def __init__(self, values=None, funcs=None, domains=None, rng=None):
        self.values = dict(values or {})
        self.funcs = dict(funcs or {})
        self.domains = domains or {}
        self.rng = rng or random.Random(0)
        self._uf = {}

    def value(self, sym):
        if sym in self.values:
            return self.values[sym]
        v = random_value(sym.symbol_type(), self.rng)
        self.values[sym] = v
        return v

    def apply(self, fsym, args):
        if fsym in self.funcs:
            return self.funcs[fsym](*args)
        k = (fsym, tuple(key(a) for a in args))
        if k not in self._uf:
            self._uf[k] = random_value(fsym.symbol_type().return_type, self.rng)
        return self._uf[k]

    def domain(self, ty):
        return finite_domain(ty)


SMALL_INTS = [-3, -2, -1, 0, 1, 2, 3, 5, 7, 10, 16, 255, 256, -256, 1000, 10 ** 17 + 1]
SMALL_STRS = ["", "a", "b", "ab", "ba", "abc", "0", "12", "-5", " 5", "1_0", "007", "aab", "x\"y", "٣"]


def random_value(ty, rng):
    if ty.is_bool_type():
        return rng.random() < 0.5
    if ty.is_int_type():
        return rng.choice(SMALL_INTS) if rng.random() < 0.7 else rng.randint(-50, 50)
    if ty.is_real_type():
        return Fraction(rng.randint(-20, 20), rng.randint(1, 6))
    if ty.is_bv_type():
        w = ty.width
        if rng.random() < 0.4:
            return rng.choice([0, 1, (1 << w) - 1, 1 << (w - 1), ((1 << (w - 1)) - 1)]) % (1 << w)
        return rng.randrange(1 << w)
    if ty.is_string_type():
        return rng.choice(SMALL_STRS)
    if ty.is_array_type():
        a = ArrVal(random_value(ty.elem_type, rng))
        for _ in range(rng.randint(0, 2)):
            a = a.store(random_value(ty.index_type, rng), random_value(ty.elem_type, rng))
        return a
    if ty.is_function_type():
        raise Unsupported("function value")
    return ("U", str(ty), rng.randint(0, 2))


def finite_domain(ty, cap=64):
    """full carrier when small, else a sample (quantifier evaluation is then
    'domain-relative': both sides of a comparison use the same domain)"""
    if ty.is_bool_type():
        return [False, True]
    if ty.is_bv_type():
        w = ty.width
        if (1 << w) <= cap:
            return list(range(1 << w))
        return sorted({0, 1, 2, (1 << w) - 1, 1 << (w - 1), (1 << (w - 1)) - 1, 3, 5})
    if ty.is_int_type():
        return [-2, -1, 0, 1, 2, 3]
    if ty.is_real_type():
        return [Fraction(-1), Fraction(0), Fraction(1, 2), Fraction(1), Fraction(2)]
    if ty.is_string_type():
        return ["", "a", "ab"]
    if ty.is_array_type():
        return [ArrVal(d) for d in finite_domain(ty.elem_type, 4)[:3]]
    return [("U", str(ty), k) for k in range(3)]


def evaluate(f, I, memo=None, bound=None):
    """value of formula f under interpretation I (iterative over the DAG)."""
    bound = bound or {}
    memo = {} if memo is None else memo
    stack = [(f, False)]
    while stack:
        n, expanded = stack.pop()
        if n in memo:
            continue
        nt = n.node_type()
        if nt in (op.FORALL, op.EXISTS):
            memo[n] = _quant(n, I, bound)
            continue
        if not expanded:
            stack.append((n, True))
            for c in n.args():
                if c not in memo:
                    stack.append((c, False))
            continue
        memo[n] = _apply(n, nt, [memo[c] for c in n.args()], I, bound)
    return memo[f]


def _quant(n, I, bound):
    qv = n.quantifier_vars()
    doms = [I.domain(v.symbol_type()) for v in qv]
    body = n.arg(0)
    res = (n.node_type() == op.FORALL)
    for combo in itertools.product(*doms):
        b2 = dict(bound)
        b2.update(zip(qv, combo))
        saved = {v: I.values.get(v, KeyError) for v in qv}
        for v, x in zip(qv, combo):
            I.values[v] = x
        try:
            r = evaluate(body, I, None, b2)
        finally:
            for v, x in saved.items():
                if x is KeyError:
                    I.values.pop(v, None)
                else:
                    I.values[v] = x
        if n.node_type() == op.FORALL and not r:
            return False
        if n.node_type() == op.EXISTS and r:
            return True
    return res


def _apply(n, nt, a, I, bound):
    if nt == op.SYMBOL:
        if n.symbol_type().is_function_type():
            raise Unsupported("function symbol as a term")
        return I.value(n)
    if nt == op.FUNCTION:
        return I.apply(n.function_name(), a)
    if nt == op.BOOL_CONSTANT:
        return bool(n.constant_value())
    if nt == op.INT_CONSTANT:
        return int(n.constant_value())
    if nt == op.REAL_CONSTANT:
        return Fraction(n.constant_value())
    if nt == op.STR_CONSTANT:
        return n.constant_value()
    if nt == op.BV_CONSTANT:
        return int(n.constant_value())
    if nt == op.ALGEBRAIC_CONSTANT:
        raise Unsupported("algebraic constant")
    if nt == op.AND:
        return all(a)
    if nt == op.OR:
        return any(a)
    if nt == op.NOT:
        return not a[0]
    if nt == op.IMPLIES:
        return (not a[0]) or a[1]
    if nt == op.IFF:
        return bool(a[0]) == bool(a[1])
    if nt == op.EQUALS:
        return a[0] == a[1]
    if nt == op.ITE:
        return a[1] if a[0] else a[2]
    if nt == op.PLUS:
        return sum(a[1:], a[0])
    if nt == op.TIMES:
        r = a[0]
        for x in a[1:]:
            r = r * x
        return r
    if nt == op.MINUS:
        return a[0] - a[1]
    if nt == op.DIV:
        if a[1] == 0:
            raise DivByZero()
        if isinstance(a[0], Fraction) or isinstance(a[1], Fraction):
            return Fraction(a[0]) / Fraction(a[1])
        return smt_div(a[0], a[1])
    if nt == op.POW:
        if isinstance(a[1], Fraction) and a[1].denominator != 1:
            raise Unsupported("fractional exponent")
        e = int(a[1])
        if e < 0:
            if a[0] == 0:
                raise DivByZero()
            return Fraction(a[0]) ** e
        return a[0] ** e
    if nt == op.LE:
        return a[0] <= a[1]
    if nt == op.LT:
        return a[0] < a[1]
    if nt == op.TOREAL:
        return Fraction(a[0])
    if nt == op.BV_TONATURAL:
        return a[0]
    if nt in op.BV_OPERATORS or nt in (op.BV_ULT, op.BV_ULE, op.BV_SLT, op.BV_SLE):
        return _bv(n, nt, a)
    if nt == op.STR_LENGTH:
        return len(a[0])
    if nt == op.STR_CONCAT:
        return "".join(a)
    if nt == op.STR_CONTAINS:
        return a[1] in a[0]
    if nt == op.STR_INDEXOF:
        return str_indexof(a[0], a[1], a[2])
    if nt == op.STR_REPLACE:
        return str_replace(a[0], a[1], a[2])
    if nt == op.STR_SUBSTR:
        return str_substr(a[0], a[1], a[2])
    if nt == op.STR_PREFIXOF:
        return a[1].startswith(a[0])
    if nt == op.STR_SUFFIXOF:
        return a[1].endswith(a[0])
    if nt == op.STR_TO_INT:
        return str_to_int(a[0])
    if nt == op.INT_TO_STR:
        return str(a[0]) if a[0] >= 0 else ""
    if nt == op.STR_CHARAT:
        return str_substr(a[0], a[1], 1)
    if nt == op.ARRAY_SELECT:
        return a[0].get(a[1])
    if nt == op.ARRAY_STORE:
        return a[0].store(a[1], a[2])
    if nt == op.ARRAY_VALUE:
        r = ArrVal(a[0])
        for i in range(1, len(a), 2):
            r = r.store(a[i], a[i + 1])
        return r
    raise Unsupported("operator %s" % nt)


def _bv(n, nt, a):
    def width(x):
        return x.get_type().width
    if nt in (op.BV_ULT, op.BV_ULE, op.BV_SLT, op.BV_SLE):
        w = width(n.arg(0))
        if nt == op.BV_ULT:
            return a[0] < a[1]
        if nt == op.BV_ULE:
            return a[0] <= a[1]
        if nt == op.BV_SLT:
            return signed(a[0], w) < signed(a[1], w)
        return signed(a[0], w) <= signed(a[1], w)
    w = n.bv_width()
    M = 1 << w
    x = a[0]
    y = a[1] if len(a) > 1 else None
    if nt == op.BV_NOT:
        return M - 1 - x
    if nt == op.BV_AND:
        return x & y
    if nt == op.BV_OR:
        return x | y
    if nt == op.BV_XOR:
        return x ^ y
    if nt == op.BV_NEG:
        return (-x) % M
    if nt == op.BV_ADD:
        return (x + y) % M
    if nt == op.BV_SUB:
        return (x - y) % M
    if nt == op.BV_MUL:
        return (x * y) % M
    if nt == op.BV_UDIV:
        return M - 1 if y == 0 else x // y
    if nt == op.BV_UREM:
        return x if y == 0 else x % y
    if nt == op.BV_LSHL:
        return 0 if y >= w else (x << y) % M
    if nt == op.BV_LSHR:
        return 0 if y >= w else x >> y
    if nt == op.BV_ASHR:
        s = signed(x, w)
        return (s >> min(y, w)) % M
    if nt == op.BV_SDIV:
        sx, sy = signed(x, w), signed(y, w)
        if sy == 0:
            return (M - 1) if sx >= 0 else 1
        q = abs(sx) // abs(sy)
        if (sx < 0) != (sy < 0):
            q = -q
        return q % M
    if nt == op.BV_SREM:
        sx, sy = signed(x, w), signed(y, w)
        if sy == 0:
            return x
        r = abs(sx) % abs(sy)
        if sx < 0:
            r = -r
        return r % M
    if nt == op.BV_COMP:
        return 1 if x == y else 0
    if nt == op.BV_CONCAT:
        return (x << width(n.arg(1))) | y
    if nt == op.BV_EXTRACT:
        return (x >> n.bv_extract_start()) & ((1 << w) - 1)
    if nt == op.BV_ROL:
        k = n.bv_rotation_step() % w
        return ((x << k) | (x >> (w - k))) % M
    if nt == op.BV_ROR:
        k = n.bv_rotation_step() % w
        return ((x >> k) | (x << (w - k))) % M
    if nt == op.BV_ZEXT:
        return x
    if nt == op.BV_SEXT:
        w0 = width(n.arg(0))
        return signed(x, w0) % M
    raise Unsupported("bv operator %s" % nt)


def free_symbols(f):
    """independent definition (iterative): symbols not bound on the path"""
    out = set()
    stack = [(f, frozenset())]
    seen = set()
    while stack:
        n, bound = stack.pop()
        if (n, bound) in seen:
            continue
        seen.add((n, bound))
        nt = n.node_type()
        if nt == op.SYMBOL:
            if n not in bound:
                out.add(n)
        elif nt in (op.FORALL, op.EXISTS):
            stack.append((n.arg(0), bound | frozenset(n.quantifier_vars())))
        else:
            if nt == op.FUNCTION:
                if n.function_name() not in bound:
                    out.add(n.function_name())
            for c in n.args():
                stack.append((c, bound))
    return out


def equivalent(f, g, trials=40, seed=0):
    """-> None if no difference found, else dict describing the interpretation"""
    rng = random.Random(seed)
    syms = sorted(free_symbols(f) | free_symbols(g), key=lambda s: s.symbol_name())
    for t in range(trials):
        I = Interp(rng=random.Random(rng.random()))
        try:
            a = evaluate(f, I)
            b = evaluate(g, I)
        except DivByZero:
            continue
        except Unsupported:
            return None
        if a != b:
            return {"interpretation": {s.symbol_name(): repr(I.values.get(s)) for s in syms},
                    "lhs": repr(a), "rhs": repr(b)}
    return None
