"""C04 / C14 bounded stand-ins on the real library (labelled bounded): construction routes and orders,
numeric spellings, cross-environment copies; history independence of queries."""
import random
import warnings
from fractions import Fraction

from pysmt.environment import Environment, push_env, pop_env
from pysmt.typing import BOOL, INT, REAL, BVType, ArrayType
from pysmt import operators as op

from native import refeval
from native.gen import Gen


COMMUTATIVE = (op.AND, op.OR, op.PLUS, op.TIMES, op.IFF, op.EQUALS, op.BV_AND, op.BV_OR, op.BV_XOR, op.BV_ADD, op.BV_MUL)


def skey(f, memo=None, commutative=False):
    """structural key of a formula, independent of object identity and of the environment
    (commutative=True: also independent of the order of the arguments of commutative operators)"""
    memo = {} if memo is None else memo
    st = [f]
    while st:
        n = st[-1]
        if id(n) in memo:
            st.pop()
            continue
        kids = list(n.args())
        extra = []
        nt = n.node_type()
        if nt in (op.FORALL, op.EXISTS):
            extra = list(n.quantifier_vars())
        if nt == op.FUNCTION:
            extra = [n.function_name()]
        todo = [k for k in kids + extra if id(k) not in memo]
        if todo:
            st.extend(todo)
            continue
        st.pop()
        if nt == op.SYMBOL:
            pl = (n.symbol_name(), str(n.symbol_type()))
        elif nt in (op.INT_CONSTANT, op.BOOL_CONSTANT, op.STR_CONSTANT):
            pl = (type(n.constant_value()).__name__ if nt != op.INT_CONSTANT else "int", n.constant_value())
        elif nt == op.REAL_CONSTANT:
            pl = (Fraction(n.constant_value()).numerator, Fraction(n.constant_value()).denominator)
        elif nt == op.BV_CONSTANT:
            pl = (n.constant_value(), n.bv_width())
        elif nt == op.BV_EXTRACT:
            pl = (n.bv_extract_start(), n.bv_extract_end())
        elif nt in (op.BV_ROL, op.BV_ROR):
            pl = (n.bv_rotation_step(), n.bv_width())
        elif nt in (op.BV_ZEXT, op.BV_SEXT):
            pl = (n.bv_extend_step(), n.bv_width())
        elif nt == op.ARRAY_VALUE:
            pl = str(n.array_value_index_type())
        else:
            pl = None
        ck = tuple(memo[id(k)] for k in kids)
        if nt == op.ARRAY_VALUE:
            # the assignments are a map: their order (by object id) is specific to an environment
            ck = (ck[0], tuple(sorted(zip(ck[1::2], ck[2::2]), key=repr)))
        if commutative and nt in COMMUTATIVE:
            ck = tuple(sorted(ck, key=repr))
        ek = tuple(memo[id(k)] for k in extra)
        if commutative and nt in (op.FORALL, op.EXISTS):
            ek = tuple(sorted(ek, key=repr))
        memo[id(n)] = (nt, pl, ck, ek)
    return memo[id(f)]


def all_nodes(f):
    out, st = {}, [f]
    while st:
        n = st.pop()
        if id(n) in out:
            continue
        out[id(n)] = n
        st.extend(n.args())
        if n.node_type() in (op.FORALL, op.EXISTS):
            st.extend(n.quantifier_vars())
        if n.node_type() == op.FUNCTION:
            st.append(n.function_name())
    return out


def rebuild(m, f, order_rng):
    """re-create f bottom-up through the public constructors, visiting the sub-terms in a random order and interleaving
    unrelated constructions; numeric constants through a random spelling"""
    from native.bounded_more import ref_rebuild
    nodes = list(all_nodes(f).values())
    done = {}
    pending = list(nodes)
    guard = 0
    while pending:
        guard += 1
        if guard > 100000:
            raise RuntimeError("rebuild does not terminate")
        n = pending.pop(order_rng.randrange(len(pending)))
        kids = list(n.args())
        if any(id(k) not in done for k in kids):
            pending.append(n)
            continue
        if order_rng.random() < 0.3:      # unrelated construction in between
            m.And(m.Symbol("unrelated%d" % order_rng.randint(0, 5), BOOL), m.Int(order_rng.randint(0, 50)).Equals(m.Int(3)))
        nt = n.node_type()
        if nt == op.INT_CONSTANT:
            done[id(n)] = m.Int(int(n.constant_value()))
        elif nt == op.REAL_CONSTANT:
            v = Fraction(n.constant_value())
            sp = order_rng.randrange(4)
            if sp == 0:
                done[id(n)] = m.Real(v)
            elif sp == 1:
                done[id(n)] = m.Real((v.numerator, v.denominator))
            elif sp == 2 and v.denominator == 1:
                done[id(n)] = m.Real(int(v))
            elif sp == 3 and v.denominator in (1, 2, 4) and abs(v) < 1000:
                done[id(n)] = m.Real(float(v))
            else:
                done[id(n)] = m.Real(Fraction(v.numerator * 3, v.denominator * 3))
        elif nt == op.BV_CONSTANT:
            w = n.bv_width()
            if order_rng.random() < 0.5:
                done[id(n)] = m.BV(format(n.constant_value(), "0%db" % w))
            else:
                done[id(n)] = m.BV(n.constant_value(), w)
        elif not kids and nt not in (op.FORALL, op.EXISTS):
            done[id(n)] = ref_rebuild(m, n, [])
        else:
            done[id(n)] = ref_rebuild(m, n, [done[id(k)] for k in kids])
    return done[id(f)]


def hashcons_check(tier, seed):
    rng = random.Random(seed)
    trials = 200 if tier == "quick" else 3000
    n = nontriv = 0
    viol, samples = [], []
    env = Environment()
    env.enable_infix_notation = True
    push_env(env)
    m = env.formula_manager
    g = Gen(env, seed=seed, widths=(1, 2, 3, 8))
    seen = {}          # structural key -> object
    # constant arrays: every map over 3 indices with values among {default, a, b}, in every insertion order
    import itertools
    d, a, b = m.Int(0), m.Int(5), m.Int(7)
    idx = [m.Int(10), m.Int(11), m.Int(12)]
    for vals in itertools.product([None, d, a, b], repeat=3):
        pairs = [(i, v) for i, v in zip(idx, vals) if v is not None]
        essential = {i: v for i, v in pairs if v is not d}
        want = m.Array(INT, d, dict(essential))
        for perm in itertools.permutations(pairs):
            n += 1
            got = m.Array(INT, d, dict(perm))
            if got is not want:
                viol.append({"key": "array-not-canonical", "assignments": str(perm), "got": got.serialize(), "want": want.serialize()})
                break
            for i in idx:
                if got.array_value_get(i) is not essential.get(i, d):
                    viol.append({"key": "array-value-get", "array": got.serialize(), "index": str(i)})
                    break
            if got.array_value_assigned_values_map() != essential:
                viol.append({"key": "array-assigned-values-map", "array": got.serialize()})
            if viol:
                break
        if viol:
            break
    # bit-vector constants: every value of the widths 1..6 and the edge values of wider ones, in the unsigned and the
    # signed spelling: one object, and both value accessors report what it was built from
    for w in (1, 2, 3, 4, 5, 6, 8, 16, 64, 65):
        lo, hi = -(1 << (w - 1)), (1 << (w - 1)) - 1
        vals = range(lo, hi + 1) if w <= 6 else sorted({lo, lo + 1, -2, -1, 0, 1, 2, hi - 1, hi})
        for sv in vals:
            if viol:
                break
            n += 1
            u = sv % (1 << w)
            c = m.SBV(sv, w)
            if c is not m.BV(u, w):
                viol.append({"key": "signed-and-unsigned-spelling-differ", "value": sv, "width": w})
            elif (c.bv_width(), c.bv_unsigned_value(), c.constant_value(), c.bv_signed_value()) != (w, u, u, sv):
                viol.append({"key": "bv-constant-accessors", "value": sv, "width": w,
                             "got": [c.bv_width(), c.bv_unsigned_value(), c.constant_value(), c.bv_signed_value()]})
            else:
                asked = [(c.is_bv_constant(), True), (c.is_bv_constant(u), True), (c.is_bv_constant(u + 1), False),
                         (c.is_bv_constant(width=w), True), (c.is_bv_constant(width=w + 1), False), (c.is_bv_constant(u, w), True),
                         (c.is_bv_constant(u, w + 1), False), (m.Int(u).is_bv_constant(), False)]
                if any(bool(g_) != e_ for g_, e_ in asked):
                    viol.append({"key": "is_bv_constant-disagrees-with-the-node", "value": u, "width": w,
                                 "asked": "(), (v), (v+1), (width=w), (width=w+1), (v, w), (v, w+1), Int(v).is_bv_constant()",
                                 "got": [bool(g_) for g_, _ in asked], "expected": [e_ for _, e_ in asked]})
    # real constants from floats: the exact binary fraction, one object with the Fraction spelling
    from fractions import Fraction as _F
    for fv in (0.1, 1.2, 2.0 ** -30, 0.5, 3.0, -0.3, 1e-7):
        if viol:
            break
        n += 1
        c = m.Real(fv)
        if c.constant_value() != _F(fv) or c is not m.Real(_F(fv)):
            viol.append({"key": "real-constant-from-float", "float": repr(fv), "value": str(c.constant_value()), "exact": str(_F(fv))})
    for t in range(trials if not viol else 0):
        try:
            f = g.term(rng.choice([BOOL, BOOL, INT, REAL, BVType(3), ArrayType(INT, INT)]), rng.randint(1, 4))
        except Exception:
            continue
        n += 1
        if f.args():
            nontriv += 1
        k = skey(f)
        # (1) same structure <-> same object, across everything built so far in this environment
        for x in all_nodes(f).values():
            kx = skey(x)
            if kx in seen and seen[kx] is not x:
                viol.append({"key": "two-objects-one-structure", "formula": x.serialize()})
                break
            seen[kx] = x
        if viol:
            break
        # (2) another route / order / spelling gives the same object
        try:
            f2 = rebuild(m, f, random.Random(rng.random()))
        except Exception as e:
            viol.append({"key": "rebuild-exception", "formula": f.serialize(), "error": repr(e)[:200]})
            break
        if f2 is not f:
            viol.append({"key": "route-dependent-identity", "formula": f.serialize(), "rebuilt": f2.serialize()})
            break
        # (3) accessors report what the node was built from
        for x in all_nodes(f).values():
            if x.args() != tuple(x.arg(i) for i in range(len(x.args()))):
                viol.append({"key": "args-accessor", "formula": x.serialize()})
        if viol:
            break
        # (4) copies into other environments: same structure, no shared objects; one destination serves several sources
        if t % 5 == 0:
            src_nodes = set(all_nodes(f).keys())
            envB = Environment()
            gB = Gen(envB, seed=seed + t, widths=(1, 2, 3, 8))
            push_env(envB)
            try:
                fb = gB.term(BOOL, 3)
            except Exception:
                fb = envB.formula_manager.Symbol("q", BOOL)
            pop_env()
            dst = Environment()
            push_env(dst)
            try:
                for src in (f, fb, f):
                    c = dst.formula_manager.normalize(src)
                    if skey(c) != skey(src):
                        viol.append({"key": "copy-differs", "formula": src.serialize(), "copy": c.serialize()})
                        break
                    shared = set(all_nodes(c).keys()) & set(all_nodes(src).keys())
                    if shared:
                        viol.append({"key": "copy-shares-objects", "formula": src.serialize()})
                        break
                    for x in all_nodes(c).values():
                        if x.node_type() == op.SYMBOL:
                            if dst.formula_manager.get_symbol(x.symbol_name()) is not x:
                                viol.append({"key": "copy-not-owned-by-destination", "symbol": x.symbol_name()})
                                break
                    if viol:
                        break
            except Exception as e:
                viol.append({"key": "copy-exception", "formula": f.serialize(), "error": repr(e)[:200]})
            finally:
                pop_env()
        if viol:
            break
        if len(samples) < 3 and len(all_nodes(f)) > 6:
            samples.append(f.serialize()[:200])
    return {"name": "hashcons", "bounded": True, "evaluations": n, "distinct_nontrivial": nontriv,
            "rule": "every bit-vector constant of widths 1-6 (edge values of widths 8, 16, 64, 65) in the signed and the unsigned spelling: one "
                    "object, accessors report the value and width it was built from; %d generated formulas: every sub-formula re-created bottom-up in a random order through the public constructors, "
                    "interleaved with unrelated constructions and with each numeric constant in a random spelling (int / Fraction / "
                    "pair / float / binary string) must be the same object; no two objects with one structure over the whole run; "
                    "copies into a destination environment that serves several source environments must have the same structure "
                    "and share no object with the source" % trials,
            "samples": samples, "violations": viol}


CHECKS = {"hashcons": hashcons_check}
