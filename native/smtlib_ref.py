"""Independent reader / evaluator for SMT-LIB 2.6 text (written from the standard,
without importing pysmt).  Used as the reading of the standard for C07 (what the
printed text denotes), C08 (what a script denotes), C09 and as the strict
reference solver of C17.

Values: Bool -> bool, Int -> int, Real -> Fraction, (_ BitVec w) -> int in
[0, 2^w), String -> str, Array -> refeval.ArrVal, other sorts -> opaque tuples.
Sorts: ('Bool',) ('Int',) ('Real',) ('String',) ('BV', w) ('Array', i, e) ('U', name, *args)."""
import itertools
from fractions import Fraction

try:
    from native.refeval import ArrVal, signed, smt_div, DivByZero, str_to_int, str_indexof, str_replace, str_substr
except Exception:          # lexer-only use (no pysmt on the path)
    ArrVal = signed = smt_div = str_to_int = str_indexof = str_replace = str_substr = None

    class DivByZero(Exception):
        pass

BOOL, INT, REAL, STRING = ("Bool",), ("Int",), ("Real",), ("String",)


class SmtError(Exception):
    """the text is not legal SMT-LIB (for the strict reader) or outside this reader"""


# ---------------------------------------------------------------------------
# lexer / s-expressions
# ---------------------------------------------------------------------------
class Sym(str):
    """a symbol; quoted and unquoted spellings of the same name are the same symbol"""
    __slots__ = ()

    def __repr__(self):
        return "Sym(%s)" % str.__repr__(self)


class StrLit(str):
    __slots__ = ()


class Num(int):
    __slots__ = ()


class Dec(Fraction):
    __slots__ = ()


class BvLit(tuple):
    """(value, width)"""
    __slots__ = ()


class Kw(str):
    __slots__ = ()


WS = " \t\r\n"
SIMPLE_CHARS = set("abcdefghijklmnopqrstuvwxyzABCDEFGHIJKLMNOPQRSTUVWXYZ0123456789~!@$%^&*_-+=<>.?/")


def tokenize(text):
    """-> list of tokens: '(' ')' or atoms (Sym, StrLit, Num, Dec, BvLit, Kw)"""
    out = []
    i, n = 0, len(text)
    while i < n:
        c = text[i]
        if c in WS:
            i += 1
        elif c == ";":
            while i < n and text[i] != "\n":
                i += 1
        elif c in "()":
            out.append(c)
            i += 1
        elif c == '"':
            j = i + 1
            buf = []
            while True:
                if j >= n:
                    raise SmtError("unterminated string literal")
                if text[j] == '"':
                    if j + 1 < n and text[j + 1] == '"':
                        buf.append('"')
                        j += 2
                        continue
                    break
                buf.append(text[j])
                j += 1
            out.append(StrLit("".join(buf)))
            i = j + 1
        elif c == "|":
            j = text.find("|", i + 1)
            if j < 0:
                raise SmtError("unterminated quoted symbol")
            body = text[i + 1:j]
            if "\\" in body:
                raise SmtError("backslash in quoted symbol")
            out.append(Sym(body))
            i = j + 1
        else:
            j = i
            while j < n and text[j] not in WS and text[j] not in '()";|':
                j += 1
            out.append(atom(text[i:j]))
            i = j
    return out


def atom(tok):
    if tok[0] == ":":
        return Kw(tok)
    if tok[0] == "#":
        if tok[1:2] == "b" and len(tok) > 2 and all(c in "01" for c in tok[2:]):
            return BvLit((int(tok[2:], 2), len(tok) - 2))
        if tok[1:2] == "x" and len(tok) > 2 and all(c in "0123456789abcdefABCDEF" for c in tok[2:]):
            return BvLit((int(tok[2:], 16), 4 * (len(tok) - 2)))
        raise SmtError("bad literal %s" % tok)
    if tok[0].isdigit():
        if tok.isdigit():
            if len(tok) > 1 and tok[0] == "0":
                raise SmtError("numeral with leading zero %s" % tok)
            return Num(int(tok))
        if tok.count(".") == 1:
            a, b = tok.split(".")
            if a.isdigit() and b.isdigit() and not (len(a) > 1 and a[0] == "0"):
                return Dec(Fraction(int(a + b), 10 ** len(b)))
        raise SmtError("bad numeral %s" % tok)
    if not all(c in SIMPLE_CHARS for c in tok):
        raise SmtError("illegal character in symbol %r" % tok)
    return Sym(tok)


def parse_all(text):
    """-> list of s-expressions (nested python lists of atoms)"""
    toks = tokenize(text)
    out, stack = [], []
    for t in toks:
        if t == "(" and not isinstance(t, (Sym, StrLit)):
            stack.append([])
        elif t == ")" and not isinstance(t, (Sym, StrLit)):
            if not stack:
                raise SmtError("unbalanced )")
            x = stack.pop()
            (stack[-1] if stack else out).append(x)
        else:
            (stack[-1] if stack else out).append(t)
    if stack:
        raise SmtError("unbalanced (")
    return out


# ---------------------------------------------------------------------------
# sorts and the signature
# ---------------------------------------------------------------------------
class Signature:
    """declared sorts and functions, in scoping levels (push/pop)"""

    def __init__(self, logic=None):
        self.levels = [{"sorts": {}, "funs": {}, "defs": {}}]
        self.logic = logic

    def push(self):
        self.levels.append({"sorts": {}, "funs": {}, "defs": {}})

    def pop(self):
        if len(self.levels) <= 1:
            raise SmtError("pop without push")
        self.levels.pop()

    def find(self, kind, name):
        for lv in reversed(self.levels):
            if name in lv[kind]:
                return lv[kind][name]
        return None

    def declared(self, name):
        return self.find("funs", name) is not None or self.find("defs", name) is not None

    def declare_sort(self, name, arity):
        if self.find("sorts", name) is not None or name in ("Bool", "Int", "Real", "String", "Array", "BitVec"):
            raise SmtError("sort %s declared twice" % name)
        self.levels[-1]["sorts"][name] = arity

    def declare_fun(self, name, params, ret):
        if self.declared(name) or name in RESERVED:
            raise SmtError("symbol %s declared twice / reserved" % name)
        self.levels[-1]["funs"][name] = (tuple(params), ret)

    def define_fun(self, name, params, ret, body):
        if self.declared(name) or name in RESERVED:
            raise SmtError("symbol %s declared twice / reserved" % name)
        self.levels[-1]["defs"][name] = (tuple(params), ret, body)

    def ints_are_reals(self):
        """numerals denote Reals in logics without an Int sort (LRA, NRA, RDL, UFLRA ...)"""
        lg = self.logic or ""
        lg = lg[3:] if lg.startswith("QF_") else lg
        return ("RA" in lg or "RDL" in lg) and "I" not in lg

    def sort(self, sx):
        if isinstance(sx, Sym):
            if sx in ("Bool", "Int", "Real", "String"):
                return (str(sx),)
            ar = self.find("sorts", sx)
            if ar is None:
                raise SmtError("undeclared sort %s" % sx)
            if ar != 0:
                raise SmtError("sort %s needs %d arguments" % (sx, ar))
            return ("U", str(sx))
        if isinstance(sx, list) and sx:
            if sx[0] == "_" and len(sx) == 3 and sx[1] == "BitVec" and isinstance(sx[2], Num):
                if int(sx[2]) <= 0:
                    raise SmtError("BitVec of width 0")
                return ("BV", int(sx[2]))
            if sx[0] == "Array" and len(sx) == 3:
                return ("Array", self.sort(sx[1]), self.sort(sx[2]))
            if isinstance(sx[0], Sym):
                ar = self.find("sorts", sx[0])
                if ar is None:
                    raise SmtError("undeclared sort %s" % sx[0])
                if ar != len(sx) - 1:
                    raise SmtError("sort %s needs %d arguments" % (sx[0], ar))
                return ("U", str(sx[0])) + tuple(self.sort(a) for a in sx[1:])
        raise SmtError("bad sort %r" % (sx,))


RESERVED = {"let", "forall", "exists", "!", "_", "as", "par", "match", "true", "false", "not", "and", "or", "xor", "=>", "=",
            "distinct", "ite", "+", "-", "*", "/", "div", "mod", "abs", "<", "<=", ">", ">=", "to_real", "to_int", "is_int",
            "select", "store", "concat", "bvnot", "bvneg", "bvand", "bvor", "bvadd", "bvmul", "bvudiv", "bvurem", "bvshl",
            "bvlshr", "bvult", "bvxor", "bvsub", "bvsdiv", "bvsrem", "bvsmod", "bvashr", "bvule", "bvugt", "bvuge", "bvslt",
            "bvsle", "bvsgt", "bvsge", "bvcomp", "bvnand", "bvnor", "bvxnor", "Bool", "Int", "Real", "String", "Array",
            "BitVec", "str.len", "str.++", "str.at", "str.substr", "str.prefixof", "str.suffixof", "str.contains",
            "str.indexof", "str.replace", "str.to_int", "str.from_int", "str.to.int", "int.to.str", "bv2nat", "assert",
            "check-sat", "declare-fun", "declare-const", "declare-sort", "define-fun", "push", "pop", "exit", "set-logic",
            "set-option", "set-info", "get-value", "get-model", "NUMERAL", "DECIMAL", "STRING", "BINARY", "HEXADECIMAL"}


def sort_name(s):
    """pysmt-independent canonical text of a sort (used for opaque values)"""
    if s[0] in ("Bool", "Int", "Real", "String"):
        return s[0]
    if s[0] == "BV":
        return "BV{%d}" % s[1]
    if s[0] == "Array":
        return "Array{%s, %s}" % (sort_name(s[1]), sort_name(s[2]))
    if len(s) == 2:
        return s[1]
    return "%s{%s}" % (s[1], ", ".join(sort_name(a) for a in s[2:]))


def domain(s, cap=64):
    """finite carrier used for quantifiers (same convention as refeval.finite_domain)"""
    if s == BOOL:
        return [False, True]
    if s[0] == "BV":
        w = s[1]
        if (1 << w) <= cap:
            return list(range(1 << w))
        return sorted({0, 1, 2, (1 << w) - 1, 1 << (w - 1), (1 << (w - 1)) - 1, 3, 5})
    if s == INT:
        return [-2, -1, 0, 1, 2, 3]
    if s == REAL:
        return [Fraction(-1), Fraction(0), Fraction(1, 2), Fraction(1), Fraction(2)]
    if s == STRING:
        return ["", "a", "ab"]
    if s[0] == "Array":
        return [ArrVal(d) for d in domain(s[2], 4)[:3]]
    return [("U", sort_name(s), k) for k in range(3)]


# ---------------------------------------------------------------------------
# evaluation
# ---------------------------------------------------------------------------
class Model:
    """interpretation of the declared symbols: value(name, sort) / apply(name, args, ret sort)"""

    def __init__(self, values=None, funcs=None):
        self.values = dict(values or {})
        self.funcs = dict(funcs or {})

    def value(self, name, sort):
        if name not in self.values:
            raise SmtError("no value for %s" % name)
        return self.values[name]

    def apply(self, name, args, ret):
        return self.funcs[name](*args)


def _arith(args):
    """Int / Real coercion: mixed arguments are read as Reals"""
    if any(s == REAL for s, _ in args):
        return REAL, [Fraction(v) for _, v in args]
    for s, _ in args:
        if s != INT:
            raise SmtError("arithmetic on %s" % (s,))
    return INT, [v for _, v in args]


def _need(cond, msg):
    if not cond:
        raise SmtError(msg)


def _bvargs(args, n=None):
    _need(all(s[0] == "BV" for s, _ in args), "bit-vector operator on %s" % ([s for s, _ in args],))
    if n is not None:
        _need(len(args) == n, "wrong number of arguments")
    w = args[0][0][1]
    return w


def evaluate(sx, sig, model, env=None):
    """-> (sort, value) of the term sx"""
    env = env or {}
    if isinstance(sx, Num):
        return (REAL, Fraction(int(sx))) if sig.ints_are_reals() else (INT, int(sx))
    if isinstance(sx, Dec):
        return REAL, Fraction(sx)
    if isinstance(sx, BvLit):
        return ("BV", sx[1]), sx[0]
    if isinstance(sx, StrLit):
        return STRING, str(sx)
    if isinstance(sx, Kw):
        raise SmtError("keyword as a term")
    if isinstance(sx, Sym):
        if sx in env:
            return env[sx]
        if sx == "true":
            return BOOL, True
        if sx == "false":
            return BOOL, False
        d = sig.find("defs", sx)
        if d is not None:
            _need(len(d[0]) == 0, "%s needs arguments" % sx)
            return evaluate(d[2], sig, model, {})
        f = sig.find("funs", sx)
        if f is None:
            raise SmtError("undeclared symbol %s" % sx)
        _need(len(f[0]) == 0, "%s needs arguments" % sx)
        return f[1], model.value(str(sx), f[1])
    _need(isinstance(sx, list) and sx, "empty term")
    h = sx[0]
    if isinstance(h, Sym) and h not in env:
        if h == "let":
            _need(len(sx) == 3, "let")
            new = dict(env)
            names = set()
            for b in sx[1]:
                _need(isinstance(b, list) and len(b) == 2 and isinstance(b[0], Sym), "let binding")
                _need(b[0] not in names, "let binds %s twice" % b[0])
                names.add(b[0])
                new[b[0]] = evaluate(b[1], sig, model, env)        # simultaneous: outer scope
            return evaluate(sx[2], sig, model, new)
        if h in ("forall", "exists"):
            _need(len(sx) == 3 and sx[1], "quantifier")
            vs = []
            for b in sx[1]:
                _need(isinstance(b, list) and len(b) == 2 and isinstance(b[0], Sym), "sorted var")
                vs.append((b[0], sig.sort(b[1])))
            res = h == "forall"
            for combo in itertools.product(*[domain(s) for _, s in vs]):
                new = dict(env)
                for (nm, s), v in zip(vs, combo):
                    new[nm] = (s, v)
                bs, bv = evaluate(sx[2], sig, model, new)
                _need(bs == BOOL, "quantifier body is not Bool")
                if h == "forall" and not bv:
                    return BOOL, False
                if h == "exists" and bv:
                    return BOOL, True
            return BOOL, res
        if h == "!":
            _need(len(sx) >= 2, "annotation")
            return evaluate(sx[1], sig, model, env)
        if h == "_":
            # (_ bvN w)
            _need(len(sx) == 3 and isinstance(sx[1], Sym) and sx[1].startswith("bv") and sx[1][2:].isdigit()
                  and isinstance(sx[2], Num), "indexed identifier %r" % (sx,))
            w = int(sx[2])
            v = int(sx[1][2:])
            _need(w > 0 and v < (1 << w), "bit-vector literal out of range")
            return ("BV", w), v
    if isinstance(h, list) and h and h[0] == "as" and len(h) == 3 and h[1] == "const":
        s = sig.sort(h[2])
        _need(s[0] == "Array" and len(sx) == 2, "as const")
        es, ev = evaluate(sx[1], sig, model, env)
        _need(es == s[2], "constant array element sort")
        return s, ArrVal(ev)
    args = [evaluate(a, sig, model, env) for a in sx[1:]]
    if isinstance(h, list) and h and h[0] == "_":
        return _indexed(h, args)
    _need(isinstance(h, Sym), "bad application head %r" % (h,))
    if h in env:
        raise SmtError("bound variable %s applied" % h)
    d = sig.find("defs", h)
    if d is not None:
        _need(len(d[0]) == len(args), "%s: wrong number of arguments" % h)
        new = {}
        for (nm, s), (as_, av) in zip(d[0], args):
            if as_ == INT and s == REAL:
                as_, av = REAL, Fraction(av)
            _need(as_ == s, "%s: argument sort" % h)
            new[nm] = (s, av)
        return evaluate(d[2], sig, model, new)
    f = sig.find("funs", h)
    if f is not None:
        _need(len(f[0]) == len(args) and len(args) > 0, "%s: wrong number of arguments" % h)
        vals = []
        for s, (as_, av) in zip(f[0], args):
            if as_ == INT and s == REAL:
                as_, av = REAL, Fraction(av)
            _need(as_ == s, "%s: argument sort %s for %s" % (h, as_, s))
            vals.append(av)
        return f[1], model.apply(str(h), vals, f[1])
    return _builtin(str(h), args)


def _indexed(h, args):
    name = h[1]
    idx = h[2:]
    _need(all(isinstance(i, Num) for i in idx), "index")
    idx = [int(i) for i in idx]
    if name == "extract":
        _need(len(idx) == 2 and len(args) == 1, "extract")
        hi, lo = idx
        w = _bvargs(args, 1)
        _need(0 <= lo <= hi < w, "extract indices")
        return ("BV", hi - lo + 1), (args[0][1] >> lo) & ((1 << (hi - lo + 1)) - 1)
    if name in ("zero_extend", "sign_extend"):
        _need(len(idx) == 1 and len(args) == 1, name)
        w = _bvargs(args, 1)
        k = idx[0]
        if name == "zero_extend":
            return ("BV", w + k), args[0][1]
        return ("BV", w + k), signed(args[0][1], w) % (1 << (w + k))
    if name in ("rotate_left", "rotate_right"):
        _need(len(idx) == 1 and len(args) == 1, name)
        w = _bvargs(args, 1)
        k = idx[0] % w
        x = args[0][1]
        M = 1 << w
        if name == "rotate_left":
            return ("BV", w), ((x << k) | (x >> (w - k))) % M
        return ("BV", w), ((x >> k) | (x << (w - k))) % M
    if name == "repeat":
        w = _bvargs(args, 1)
        k = idx[0]
        _need(k >= 1, "repeat")
        v = 0
        for _ in range(k):
            v = (v << w) | args[0][1]
        return ("BV", w * k), v
    if name == "int2bv":
        _need(len(idx) == 1 and len(args) == 1 and args[0][0] == INT, "int2bv")
        return ("BV", idx[0]), args[0][1] % (1 << idx[0])
    raise SmtError("unknown indexed operator %s" % name)


def _chain(args, rel):
    return all(rel(a, b) for a, b in zip(args, args[1:]))


def _builtin(h, args):
    n = len(args)
    sorts = [s for s, _ in args]
    vals = [v for _, v in args]
    if h == "not":
        _need(n == 1 and sorts[0] == BOOL, "not")
        return BOOL, not vals[0]
    if h in ("and", "or", "xor", "=>"):
        _need(n >= 2 and all(s == BOOL for s in sorts), h)
        if h == "and":
            return BOOL, all(vals)
        if h == "or":
            return BOOL, any(vals)
        if h == "xor":
            r = vals[0]
            for v in vals[1:]:
                r = r != v
            return BOOL, r
        r = vals[-1]                    # right associative
        for v in reversed(vals[:-1]):
            r = (not v) or r
        return BOOL, r
    if h in ("=", "distinct"):
        _need(n >= 2, h)
        if any(s == REAL for s in sorts) and all(s in (INT, REAL) for s in sorts):
            vals = [Fraction(v) for v in vals]
        else:
            _need(all(s == sorts[0] for s in sorts), "%s on different sorts %s" % (h, sorts))
        if h == "=":
            return BOOL, _chain(vals, lambda a, b: a == b)
        return BOOL, all(vals[i] != vals[j] for i in range(n) for j in range(i + 1, n))
    if h == "ite":
        _need(n == 3 and sorts[0] == BOOL, "ite")
        if sorts[1] != sorts[2]:
            _need({sorts[1], sorts[2]} == {INT, REAL}, "ite branches of different sorts")
            return REAL, Fraction(vals[1] if vals[0] else vals[2])
        return sorts[1], (vals[1] if vals[0] else vals[2])
    if h in ("+", "*"):
        _need(n >= 2, h)
        s, v = _arith(args)
        r = v[0]
        for x in v[1:]:
            r = r + x if h == "+" else r * x
        return s, r
    if h == "-":
        _need(n >= 1, "-")
        s, v = _arith(args)
        if n == 1:
            return s, -v[0]
        r = v[0]
        for x in v[1:]:
            r = r - x
        return s, r
    if h == "/":
        _need(n >= 2, "/")
        v = [Fraction(x) for x in _arith(args)[1]]
        r = v[0]
        for x in v[1:]:
            if x == 0:
                raise DivByZero()
            r = r / x
        return REAL, r
    if h in ("div", "mod"):
        _need(n >= 2 and all(s == INT for s in sorts), h)
        r = vals[0]
        for x in vals[1:]:
            q = smt_div(r, x)
            r = q if h == "div" else r - x * q
        return INT, r
    if h == "abs":
        _need(n == 1 and sorts[0] == INT, "abs")
        return INT, abs(vals[0])
    if h in ("<", "<=", ">", ">="):
        _need(n >= 2, h)
        s, v = _arith(args)
        rel = {"<": lambda a, b: a < b, "<=": lambda a, b: a <= b, ">": lambda a, b: a > b, ">=": lambda a, b: a >= b}[h]
        return BOOL, _chain(v, rel)
    if h == "to_real":
        _need(n == 1 and sorts[0] in (INT, REAL), "to_real")
        return REAL, Fraction(vals[0])
    if h == "to_int":
        _need(n == 1 and sorts[0] == REAL, "to_int")
        return INT, vals[0].numerator // vals[0].denominator
    if h == "is_int":
        _need(n == 1 and sorts[0] == REAL, "is_int")
        return BOOL, vals[0].denominator == 1
    if h == "^":
        s, v = _arith(args)
        _need(n == 2, "^")
        e = v[1]
        _need(Fraction(e).denominator == 1, "fractional exponent")
        e = int(e)
        if e < 0:
            if v[0] == 0:
                raise DivByZero()
            return REAL, Fraction(v[0]) ** e
        return s, v[0] ** e
    if h == "select":
        _need(n == 2 and sorts[0][0] == "Array" and sorts[0][1] == sorts[1], "select")
        return sorts[0][2], vals[0].get(vals[1])
    if h == "store":
        _need(n == 3 and sorts[0][0] == "Array" and sorts[0][1] == sorts[1] and sorts[0][2] == sorts[2], "store")
        return sorts[0], vals[0].store(vals[1], vals[2])
    # ---- bit-vectors ------------------------------------------------------
    if h == "concat":
        _need(n >= 2, "concat")
        _bvargs(args)
        w, v = 0, 0
        for s, x in args:
            v = (v << s[1]) | x
            w += s[1]
        return ("BV", w), v
    if h in ("bvnot", "bvneg"):
        w = _bvargs(args, 1)
        M = 1 << w
        return ("BV", w), (M - 1 - vals[0]) if h == "bvnot" else (-vals[0]) % M
    if h in ("bvand", "bvor", "bvxor", "bvadd", "bvmul"):
        w = _bvargs(args)
        _need(n >= 2 and all(s == sorts[0] for s in sorts), h)
        M = 1 << w
        r = vals[0]
        for x in vals[1:]:
            r = {"bvand": r & x, "bvor": r | x, "bvxor": r ^ x, "bvadd": (r + x) % M, "bvmul": (r * x) % M}[h]
        return ("BV", w), r
    BIN = ("bvsub", "bvudiv", "bvurem", "bvsdiv", "bvsrem", "bvsmod", "bvshl", "bvlshr", "bvashr", "bvnand", "bvnor",
           "bvxnor", "bvcomp", "bvult", "bvule", "bvugt", "bvuge", "bvslt", "bvsle", "bvsgt", "bvsge")
    if h in BIN:
        w = _bvargs(args, 2)
        _need(sorts[0] == sorts[1], "%s on different widths" % h)
        M = 1 << w
        x, y = vals
        sx_, sy_ = signed(x, w), signed(y, w)
        if h == "bvsub":
            return ("BV", w), (x - y) % M
        if h == "bvudiv":
            return ("BV", w), (M - 1 if y == 0 else x // y)
        if h == "bvurem":
            return ("BV", w), (x if y == 0 else x % y)
        if h == "bvsdiv":
            if sy_ == 0:
                return ("BV", w), ((M - 1) if sx_ >= 0 else 1)
            q = abs(sx_) // abs(sy_)
            return ("BV", w), (q if (sx_ < 0) == (sy_ < 0) else -q) % M
        if h == "bvsrem":
            if sy_ == 0:
                return ("BV", w), x
            r = abs(sx_) % abs(sy_)
            return ("BV", w), (r if sx_ >= 0 else -r) % M
        if h == "bvsmod":
            if sy_ == 0:
                return ("BV", w), x
            r = abs(sx_) % abs(sy_)
            if r == 0:
                return ("BV", w), 0
            if sx_ >= 0 and sy_ >= 0:
                return ("BV", w), r
            if sx_ < 0 and sy_ >= 0:
                return ("BV", w), (-r + sy_) % M
            if sx_ >= 0 and sy_ < 0:
                return ("BV", w), (r + sy_) % M
            return ("BV", w), (-r) % M
        if h == "bvshl":
            return ("BV", w), (0 if y >= w else (x << y) % M)
        if h == "bvlshr":
            return ("BV", w), (0 if y >= w else x >> y)
        if h == "bvashr":
            return ("BV", w), (sx_ >> min(y, w)) % M
        if h == "bvnand":
            return ("BV", w), (M - 1) - (x & y)
        if h == "bvnor":
            return ("BV", w), (M - 1) - (x | y)
        if h == "bvxnor":
            return ("BV", w), (M - 1) - (x ^ y)
        if h == "bvcomp":
            return ("BV", 1), (1 if x == y else 0)
        rel = {"bvult": x < y, "bvule": x <= y, "bvugt": x > y, "bvuge": x >= y,
               "bvslt": sx_ < sy_, "bvsle": sx_ <= sy_, "bvsgt": sx_ > sy_, "bvsge": sx_ >= sy_}[h]
        return BOOL, rel
    if h == "bv2nat":
        _bvargs(args, 1)
        return INT, vals[0]
    # ---- strings ------------------------------------------------------------
    if h == "str.len":
        _need(n == 1 and sorts[0] == STRING, h)
        return INT, len(vals[0])
    if h == "str.++":
        _need(n >= 2 and all(s == STRING for s in sorts), h)
        return STRING, "".join(vals)
    if h == "str.at":
        _need(sorts == [STRING, INT], h)
        return STRING, str_substr(vals[0], vals[1], 1)
    if h == "str.substr":
        _need(sorts == [STRING, INT, INT], h)
        return STRING, str_substr(*vals)
    if h == "str.prefixof":
        _need(sorts == [STRING, STRING], h)
        return BOOL, vals[1].startswith(vals[0])
    if h == "str.suffixof":
        _need(sorts == [STRING, STRING], h)
        return BOOL, vals[1].endswith(vals[0])
    if h == "str.contains":
        _need(sorts == [STRING, STRING], h)
        return BOOL, vals[1] in vals[0]
    if h == "str.indexof":
        _need(sorts == [STRING, STRING, INT], h)
        return INT, str_indexof(*vals)
    if h == "str.replace":
        _need(sorts == [STRING, STRING, STRING], h)
        return STRING, str_replace(*vals)
    if h in ("str.to_int", "str.to.int"):
        _need(sorts == [STRING], h)
        return INT, str_to_int(vals[0])
    if h in ("str.from_int", "int.to.str"):
        _need(sorts == [INT], h)
        return STRING, (str(vals[0]) if vals[0] >= 0 else "")
    raise SmtError("unknown function %s" % h)


# ---------------------------------------------------------------------------
# scripts
# ---------------------------------------------------------------------------
class Script:
    """strict reading of a command list: -> assertion stack with its signature"""

    def __init__(self):
        self.sig = Signature()
        self.assertions = [[]]
        self.log = []

    def live(self):
        return [a for lv in self.assertions for a in lv]

    def run(self, cmd):
        """one command (s-expression); -> reply kind"""
        _need(isinstance(cmd, list) and cmd and isinstance(cmd[0], Sym), "bad command %r" % (cmd,))
        c = cmd[0]
        if c == "set-logic":
            self.sig.logic = str(cmd[1])
            return "success"
        if c in ("set-option", "set-info"):
            return "success"
        if c == "declare-sort":
            _need(len(cmd) in (2, 3), c)
            self.sig.declare_sort(cmd[1], int(cmd[2]) if len(cmd) == 3 else 0)
            return "success"
        if c == "declare-fun":
            _need(len(cmd) == 4 and isinstance(cmd[1], Sym), c)
            self.sig.declare_fun(cmd[1], [self.sig.sort(s) for s in cmd[2]], self.sig.sort(cmd[3]))
            return "success"
        if c == "declare-const":
            _need(len(cmd) == 3 and isinstance(cmd[1], Sym), c)
            self.sig.declare_fun(cmd[1], [], self.sig.sort(cmd[2]))
            return "success"
        if c == "define-fun":
            _need(len(cmd) == 5 and isinstance(cmd[1], Sym), c)
            params = [(p[0], self.sig.sort(p[1])) for p in cmd[2]]
            self.sig.define_fun(cmd[1], params, self.sig.sort(cmd[3]), cmd[4])
            return "success"
        if c == "assert":
            _need(len(cmd) == 2, c)
            self.check_term(cmd[1])
            self.assertions[-1].append(cmd[1])
            return "success"
        if c == "push":
            k = int(cmd[1]) if len(cmd) > 1 else 1
            for _ in range(k):
                self.sig.push()
                self.assertions.append([])
            return "success"
        if c == "pop":
            k = int(cmd[1]) if len(cmd) > 1 else 1
            _need(k <= len(self.assertions) - 1, "pop(%d) with %d levels" % (k, len(self.assertions) - 1))
            for _ in range(k):
                self.sig.pop()
                self.assertions.pop()
            return "success"
        if c == "reset-assertions":
            lg = self.sig.logic
            self.sig = Signature(lg)
            self.assertions = [[]]
            return "success"
        if c in ("check-sat", "get-value", "get-model", "exit"):
            return str(c)
        raise SmtError("unsupported command %s" % c)

    def check_term(self, t):
        """well-sortedness with every symbol declared: evaluated once under default values"""
        m = DefaultModel()
        try:
            s, _ = evaluate(t, self.sig, m)
        except DivByZero:
            return
        _need(s == BOOL, "asserted term is not Bool")


class DefaultModel(Model):
    def value(self, name, sort):
        return domain(sort)[0]

    def apply(self, name, args, ret):
        return domain(ret)[0]
