"""More native replay handlers (see replay.py)."""
import random
import re

from pysmt.environment import Environment, push_env
from pysmt.typing import BOOL, INT, REAL, STRING, BVType, ArrayType

from native import refeval, named
from native.build import Builder
from native.gen import Gen


def fresh_env():
    env = Environment()
    env.enable_infix_notation = True
    push_env(env)
    return env


def search_constructor(name, method, prefix, nary, k, nints, trials=3000, seed=0, fixed_ints=()):
    env = fresh_env()
    g = Gen(env, seed=seed, consts_bias=0.6)
    rng = random.Random(seed)
    for t in range(trials):
        # arguments of the same type most of the time, sometimes of mixed types (ill-sorted applications)
        ty0 = g.any_type()
        args = []
        for j in range(k):
            ty = ty0 if rng.random() < 0.8 else g.any_type()
            if name in ("Ite",) and j == 0:
                ty = BOOL
            if name in ("Select", "Store") and j == 0:
                ty = ArrayType(rng.choice([INT, BVType(2)]), rng.choice([INT, BOOL]))
            elif name in ("Select", "Store") and j == 1 and args:
                ty = args[0].get_type().index_type if rng.random() < 0.9 else g.any_type()
            elif name == "Store" and j == 2 and args:
                ty = args[0].get_type().elem_type if rng.random() < 0.9 else g.any_type()
            if name in ("StrIndexOf",) and j == 2 or name in ("StrSubstr",) and j >= 1 or name == "StrCharAt" and j == 1:
                ty = INT if rng.random() < 0.9 else g.any_type()
            try:
                args.append(g.term(ty, rng.randint(0, 1)))
            except Exception:
                args.append(g.leaf(ty))
        ints = []
        for j in range(nints):
            ints.append(rng.choice([0, 1, 2, 3, 4, 7, 8, -1, 5, 15, 16, 255]))
        if name == "BVExtract" and rng.random() < 0.7 and args[0].get_type().is_bv_type():
            w = args[0].get_type().width
            s = rng.randint(0, w - 1)
            ints = [s, rng.randint(s, w - 1)]
        if name in ("BV", "SBV") and rng.random() < 0.8:
            w = rng.choice([1, 2, 3, 4, 8])
            ints = [rng.randint(-(1 << w), (1 << w)), w]
        ints = ints + list(fixed_ints)
        f = named.check_constructor(env, name, method, prefix, nary, args, ints, seed=t)
        if f:
            f["args"] = [str(a) for a in args]
            f["ints"] = ints
            return f
    return None


INFIX = None


def replay_infix(meth, seed=0, trials=3000):
    """x.<meth>(y) on random operands of equal type vs the executable twin"""
    global INFIX
    if INFIX is None:
        import ast
        import os
        src = open(os.path.join(os.path.dirname(os.path.dirname(os.path.abspath(__file__))), "contracts",
                                "c06_constructors.py")).read()
        seg = src[src.index("INFIX = {"):]
        seg = seg[:seg.index("\n}\n") + 3]
        INFIX = ast.literal_eval(seg.split("=", 1)[1].strip())
    env = fresh_env()
    g = Gen(env, seed=seed, consts_bias=0.6)
    rng = random.Random(seed)
    for t in range(trials):
        ty = g.any_type()
        try:
            x, y = g.term(ty, 1), g.term(ty, 1)
        except Exception:
            continue
        name = INFIX[meth][1 if ty.is_bv_type() else 0]
        try:
            res = getattr(x, meth)(y)
        except Exception:
            continue
        if name is None:
            return {"clause": "C06:infix-ill-formed-rejected", "x": str(x), "y": str(y), "result": str(res)}
        app, fn = named.T[name]
        ts = [x.get_type(), y.get_type()]
        if not app(ts, []):
            return {"clause": "C06:infix-ill-formed-rejected", "x": str(x), "y": str(y), "result": str(res)}
        for _ in range(6):
            I = refeval.Interp(rng=random.Random(rng.random()))
            try:
                vals = [refeval.evaluate(x, I), refeval.evaluate(y, I)]
                got, want = refeval.evaluate(res, I), fn(vals, ts, [])
            except (refeval.DivByZero, refeval.Unsupported):
                continue
            same = (bool(got) == bool(want)) if isinstance(want, bool) or isinstance(got, bool) else got == want
            if not same:
                return {"clause": "C06:infix-denotes-named-function", "x": str(x), "y": str(y), "values": [repr(v) for v in vals],
                        "expected": repr(want), "got": repr(got), "result": str(res)}
    return None


def replay_constructor(rep):
    w = rep.get("witness") or {}
    vname = rep.get("variant") or ""
    if vname.startswith("infix:"):
        f = replay_infix(vname.split(":", 1)[1], seed=int(rep.get("seed", 0)))
        return (True, {"mode": "search", "failure": f}) if f else (False, {"mode": "search: nothing found"})
    if vname.startswith("method:"):
        # x.<Method>(...) of FNode: the same search as for the constructor of that name, called through the node
        meth = vname.split(":", 1)[1]
        spec_name, nn, ni, fixed = {"Ite": ("Ite", 3, 0, []), "BVConcat": ("BVConcat", 2, 0, []), "BVExtract": ("BVExtract", 1, 2, []),
                                    "BVRol": ("BVRol", 1, 1, []), "BVRor": ("BVRor", 1, 1, []), "BVSExt": ("BVSExt", 1, 1, []),
                                    "BVZExt": ("BVZExt", 1, 1, []), "BVRepeat": ("BVRepeat", 1, 0, [3]), "Select": ("Select", 2, 0, []),
                                    "Store": ("Store", 3, 0, [])}[meth]
        call = lambda x, *rest: getattr(x, meth)(*rest)
        found = search_constructor(spec_name, call, [], False, nn, ni, seed=int(rep.get("seed", 0)), fixed_ints=fixed)
        return (True, {"mode": "search through the FNode method", "failure": found}) if found else (False, {"mode": "search: nothing found"})
    name = w.get("constructor") or vname.split("/")[0]
    m = re.match(r"^(.*?)/(\d+)$", vname)
    k = int(m.group(2)) if m else None
    env = fresh_env()
    out = {"mode": "witness"}
    method = w.get("method") or name.split("[")[0]
    prefix = w.get("prefix")
    if prefix is None:
        prefix = [name.endswith("[signed]")] if name.startswith(("MinBV", "MaxBV")) else []
    nary = w.get("nary")
    suffix = w.get("suffix") or []
    if name.startswith("BVRepeat["):
        suffix = suffix or [int(name[len("BVRepeat["):-1])]
        name = "BVRepeat"
    try:
        if "args" in w and all(a.get("op") is not None or a.get("type") for a in w["args"]):
            b = Builder(env)
            args = [b.node(a) for a in w["args"]]
            ints = [int(x) if x is not None else 0 for x in w.get("ints", [])] + list(suffix)
            out["args"] = [str(a) for a in args]
            out["ints"] = ints
            f = named.check_constructor(env, name, method, prefix, nary, args, ints)
            if f:
                out["failure"] = f
                return True, out
    except Exception as e:
        out["build-error"] = repr(e)[:200]
    import importlib
    # arity / number of integer parameters from the executable twin's point of view
    sig = {"BVExtract": (1, 2), "BVZExt": (1, 1), "BVSExt": (1, 1), "BVRol": (1, 1), "BVRor": (1, 1),
           "BVLShl[int]": (1, 1), "BVLShr[int]": (1, 1), "BVAShr[int]": (1, 1), "BV": (0, 2), "SBV": (0, 2),
           "BVOne": (0, 1), "BVZero": (0, 1)}
    if name == "BVRepeat":
        kk, ni, nary = 1, 0, False
    elif name in sig:
        kk, ni = sig[name]
        nary = False
    else:
        unary = ("Not", "ToReal", "BVNot", "BVNeg", "BVToNatural", "StrLength", "StrToInt", "IntToStr")
        ternary = ("Ite", "StrIndexOf", "StrReplace", "StrSubstr", "Store")
        kk = k if k is not None else (1 if name in unary else 3 if name in ternary else 2)
        ni = 0
        nary = k is not None
    found = search_constructor(name, method, prefix, nary, kk, ni, seed=int(rep.get("seed", 0)), fixed_ints=list(suffix))
    if found:
        return True, {"mode": "search", "failure": found}
    out["mode"] = "witness+search: nothing found"
    return False, out


def replay_typing_rule(rep):
    """typing rule of one operator: try applications of the operator to arguments of
    many sorts through the public constructors and compare acceptance with the
    independent typing table (native/named.py's applicability for the operator's constructor)."""
    vname = rep.get("variant") or ""
    m = re.search(r"\[([A-Z_0-9]+)/", vname)
    opname = m.group(1) if m else None
    ctor = {"BV_EXTRACT": "BVExtract", "BV_ROL": "BVRol", "BV_ROR": "BVRor", "BV_ZEXT": "BVZExt", "BV_SEXT": "BVSExt",
            "AND": "And", "OR": "Or", "NOT": "Not", "IMPLIES": "Implies", "IFF": "Iff", "PLUS": "Plus", "TIMES": "Times",
            "MINUS": "Minus", "LE": "LE", "LT": "LT", "EQUALS": "Equals", "ITE": "Ite", "TOREAL": "ToReal",
            "BV_NOT": "BVNot", "BV_AND": "BVAnd", "BV_OR": "BVOr", "BV_XOR": "BVXor", "BV_CONCAT": "BVConcat",
            "BV_ULT": "BVULT", "BV_ULE": "BVULE", "BV_NEG": "BVNeg", "BV_ADD": "BVAdd", "BV_SUB": "BVSub",
            "BV_MUL": "BVMul", "BV_UDIV": "BVUDiv", "BV_UREM": "BVURem", "BV_LSHL": "BVLShl", "BV_LSHR": "BVLShr",
            "BV_SLT": "BVSLT", "BV_SLE": "BVSLE", "BV_COMP": "BVComp", "BV_SDIV": "BVSDiv", "BV_SREM": "BVSRem",
            "BV_ASHR": "BVAShr", "STR_LENGTH": "StrLength", "STR_CONCAT": "StrConcat", "STR_CONTAINS": "StrContains",
            "STR_INDEXOF": "StrIndexOf", "STR_REPLACE": "StrReplace", "STR_SUBSTR": "StrSubstr",
            "STR_PREFIXOF": "StrPrefixOf", "STR_SUFFIXOF": "StrSuffixOf", "STR_TO_INT": "StrToInt",
            "INT_TO_STR": "IntToStr", "STR_CHARAT": "StrCharAt", "ARRAY_SELECT": "Select", "ARRAY_STORE": "Store",
            "BV_TONATURAL": "BVToNatural"}.get(opname)
    if ctor is None:
        return False, {"mode": "no native generator for this operator", "op": opname}
    rep2 = dict(rep)
    rep2["witness"] = {}
    nary = ctor in ("And", "Or", "Plus", "Times", "BVAnd", "BVOr", "BVAdd", "BVMul", "BVConcat", "StrConcat")
    rep2["variant"] = ctor + ("/2" if nary else "")
    return replay_constructor(rep2)


def dispatch(rep):
    kind = rep.get("kind")
    if kind == "constructor":
        return replay_constructor(rep)
    if kind == "typing-rule":
        return replay_typing_rule(rep)
    from native import replay_props
    return replay_props.dispatch(rep)
