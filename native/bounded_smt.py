"""Bounded stand-ins for the SMT-LIB text interface (C07, C08, C09, C17): pySMT's
printers / parser / text-interface solver against the independent reader
native/smtlib_ref.py.  Labelled bounded, never counted as proved."""
import io
import itertools
import random
import warnings
from fractions import Fraction

from pysmt.typing import BOOL, INT, REAL, STRING, BVType, ArrayType, FunctionType, Type
from pysmt import operators as op

from native import refeval, smtlib_ref as R
from native.gen import Gen

WEIRD_NAMES = ["a b", "1x", "x.y", "q#", "(p)", "a;b", 'x"y', "A:b", "x'", "[i]", "{k}", "a,b",
               "é", "~!@$%^&*_-+=<>.?/", "x y z", " lead", "-1"]


def sort_of_type(t):
    if t.is_bool_type():
        return R.BOOL
    if t.is_int_type():
        return R.INT
    if t.is_real_type():
        return R.REAL
    if t.is_string_type():
        return R.STRING
    if t.is_bv_type():
        return ("BV", t.width)
    if t.is_array_type():
        return ("Array", sort_of_type(t.index_type), sort_of_type(t.elem_type))
    return ("U", t.basename if getattr(t, "basename", None) else str(t)) + tuple(sort_of_type(a) for a in (t.args or ()))


class SmtGen(Gen):
    """formula generator with quantifiers, names needing quoting, custom sorts, functions, sharing"""

    def __init__(self, env, seed=0, weird=True, **kw):
        Gen.__init__(self, env, seed=seed, **kw)
        self.weird = weird
        self.S = Type("S")
        self.U1 = Type("U", 1)
        self.pool_shared = []

    def symbol(self, ty):
        pool = self.syms.setdefault(ty, [])
        if len(pool) < 2 or (len(pool) < 3 and self.r.random() < 0.2):
            used = {s.symbol_name() for p in self.syms.values() for s in p}
            nm = None
            if self.weird and self.r.random() < 0.35:
                owner = self.__dict__.setdefault("name_owner", {})
                cands = [n for n in WEIRD_NAMES if n not in used and owner.get(n, ty) == ty]
                if cands:
                    nm = self.r.choice(cands)
            if nm is None:
                nm = "g%s_%d" % ("".join(c for c in str(ty) if c.isalnum()), len(pool))
            self.__dict__.setdefault("name_owner", {})[nm] = ty
            s = self.m.Symbol(nm, ty)
            pool.append(s)
            return s
        return self.r.choice(pool)

    def term(self, ty, depth, consts_only=False):
        m, r = self.m, self.r
        # sharing: reuse an earlier sub-term of the same type
        if self.pool_shared and r.random() < 0.15:
            c = [x for x in self.pool_shared if x.get_type() == ty]
            if c:
                return r.choice(c)
        x = self._term(ty, depth, consts_only)
        if x.args() and len(self.pool_shared) < 40:
            self.pool_shared.append(x)
        return x

    def _term(self, ty, depth, consts_only):
        m, r = self.m, self.r
        if depth > 0 and not consts_only:
            t = lambda ty2: self.term(ty2, depth - 1)
            if ty.is_bool_type():
                k = r.random()
                if k < 0.10:
                    vt = r.choice([BOOL, BVType(2), INT, self.S])
                    vs = [self.symbol(vt)]
                    if r.random() < 0.3:
                        v2 = self.symbol(r.choice([BOOL, BVType(2)]))
                        if v2 not in vs:
                            vs.append(v2)
                    return r.choice([m.ForAll, m.Exists])(vs, t(BOOL))
                if k < 0.14:
                    return m.Equals(t(self.S), t(self.S))
                if k < 0.18:
                    f = self.symbol(FunctionType(BOOL, [self.S, INT]))
                    return m.Function(f, [t(self.S), t(INT)])
                if k < 0.24:
                    us, ui = self.U1(self.S), self.U1(INT)
                    f = self.symbol(FunctionType(ui, [ui]))
                    return m.And(m.Equals(t(us), t(us)), m.Equals(m.Function(f, [t(ui)]), t(ui)))
            if ty.is_int_type() and r.random() < 0.06:
                f = self.symbol(FunctionType(INT, [INT, BOOL]))
                return m.Function(f, [t(INT), t(BOOL)])
            if ty == self.S and r.random() < 0.4:
                f = self.symbol(FunctionType(self.S, [self.S]))
                return r.choice([lambda: m.Function(f, [t(self.S)]), lambda: m.Ite(t(BOOL), t(self.S), t(self.S))])()
            if ty.is_array_type() and r.random() < 0.25:
                d = self.term(ty.elem_type, 0, True)
                asg = {}
                for _ in range(r.randint(0, 2)):
                    asg[self.term(ty.index_type, 0, True)] = self.term(ty.elem_type, 0, True)
                return m.Array(ty.index_type, d, asg)
        return Gen.term(self, ty, depth, consts_only)


def random_interp(f, rng):
    """-> (refeval.Interp, smtlib_ref.Model) giving every free symbol the same value"""
    vals, funcs, nvals, nfuncs = {}, {}, {}, {}
    for s in refeval.free_symbols(f):
        t = s.symbol_type()
        if t.is_function_type():
            memo = {}
            rt = t.return_type

            def fn(*args, _memo=memo, _rt=rt, _r=random.Random(rng.random())):
                k = tuple(refeval.key(a) for a in args)
                if k not in _memo:
                    _memo[k] = refeval.random_value(_rt, _r)
                return _memo[k]
            funcs[s] = fn
            nfuncs[s.symbol_name()] = fn
        else:
            v = refeval.random_value(t, rng)
            vals[s] = v
            nvals[s.symbol_name()] = v
    return refeval.Interp(vals, funcs), R.Model(nvals, nfuncs)


def same_value(a, b):
    if isinstance(a, bool) or isinstance(b, bool):
        return isinstance(a, bool) and isinstance(b, bool) and a == b
    return refeval.key(a) == refeval.key(b) or a == b


def read_script_text(text):
    """strict independent reading -> (Script, [asserted s-expressions])"""
    sc = R.Script()
    for cmd in R.parse_all(text):
        sc.run(cmd)
    return sc


def compare_text_with_formulas(text, fs, rng, trials):
    """the script text must be legal and its assertions must denote fs, one by one; -> problem or None"""
    try:
        sc = read_script_text(text)
    except R.SmtError as e:
        return {"key": "illegal-smtlib", "error": str(e)}
    except refeval.DivByZero:
        return None
    live = sc.live()
    if len(live) != len(fs):
        return {"key": "assertion-count", "got": len(live)}
    allf = fs[0].args()[0:0]
    for k in range(trials):
        for f, sx in zip(fs, live):
            I, M = random_interp_all(fs, rng)
            try:
                want = refeval.evaluate(f, I)
            except (refeval.DivByZero, refeval.Unsupported):
                continue
            try:
                s, got = R.evaluate(sx, sc.sig, M)
            except refeval.DivByZero:
                return {"key": "division-by-zero-only-in-text"}
            except R.SmtError as e:
                return {"key": "illegal-smtlib", "error": str(e)}
            if not same_value(got, want):
                return {"key": "different-value", "assertion": f.serialize(), "text_value": repr(got),
                        "formula_value": repr(want),
                        "interpretation": {k.symbol_name(): repr(v) for k, v in I.values.items()}}
    return None


def compare_text_with_formula(text, f, rng, trials, expect_type=None):
    return compare_text_with_formulas(text, [f], rng, trials)


def random_interp_all(fs, rng):
    m = fs[0]
    if len(fs) == 1:
        return random_interp(m, rng)
    from pysmt.environment import get_env
    return random_interp(get_env().formula_manager.And(fs), rng)


def export_check(tier, seed):
    from native.bounded import fresh_env
    from pysmt.smtlib.script import smtlibscript_from_formula, SmtLibCommand
    from pysmt.exceptions import NoLogicAvailableError
    env = fresh_env()
    rng = random.Random(seed)
    trials = 400 if tier == "quick" else 5000
    n = nontriv = 0
    viol, samples = [], []
    ops_seen = set()
    g = SmtGen(env, seed=seed, widths=(1, 2, 3, 8))
    for t in range(trials):
        if t % 25 == 0:
            g.syms.clear()
            g.pool_shared = []
            if (t // 25) % 2 == 1:
                # user symbols that look like the DAG printer's let names
                g.syms[BOOL] = [env.formula_manager.Symbol(".def_%d" % i, BOOL) for i in range(3)]
        try:
            f = g.term(BOOL, rng.randint(1, 4))
        except Exception:
            continue
        n += 1
        st, seen = [f], set()
        while st:
            x = st.pop()
            if x in seen:
                continue
            seen.add(x)
            ops_seen.add(x.node_type())
            st.extend(x.args())
        if len(seen) > 3:
            nontriv += 1
        for dag in (False, True):
            try:
                with warnings.catch_warnings():
                    warnings.simplefilter("ignore")
                    try:
                        script = smtlibscript_from_formula(f)
                    except NoLogicAvailableError:
                        # no pySMT logic covers the formula (C13 allows this answer): export with an explicit logic
                        script = smtlibscript_from_formula(f, logic="ALL")
                    buf = io.StringIO()
                    script.serialize(buf, daggify=dag)
                text = buf.getvalue()
            except Exception as e:
                viol.append({"key": "export-exception", "formula": f.serialize(), "daggify": dag, "error": repr(e)[:300]})
                break
            bad = compare_text_with_formula(text, f, rng, 6)
            if bad:
                bad.update(formula=f.serialize(), daggify=dag, text=text[:1500])
                viol.append(bad)
                break
        if viol:
            break
        # a script with several assertions sharing sub-terms, printed by one printer object
        if t % 4 == 0:
            fs = [f]
            for _ in range(rng.randint(1, 2)):
                try:
                    fs.append(g.term(BOOL, rng.randint(1, 3)))
                except Exception:
                    pass
            if rng.random() < 0.5:
                fs.append(fs[0])
            with warnings.catch_warnings():
                warnings.simplefilter("ignore")
                script = smtlibscript_from_formula(env.formula_manager.And(fs), logic="ALL")
            cmds = [c for c in script.commands if c.name not in ("assert", "check-sat")]
            script.commands = cmds + [SmtLibCommand("assert", [x]) for x in fs] + [SmtLibCommand("check-sat", [])]
            for dag in (False, True):
                buf = io.StringIO()
                try:
                    script.serialize(buf, daggify=dag)
                except Exception as e:
                    viol.append({"key": "export-exception", "formulas": [x.serialize() for x in fs], "daggify": dag,
                                 "error": repr(e)[:300]})
                    break
                bad = compare_text_with_formulas(buf.getvalue(), fs, rng, 4)
                if bad:
                    bad.update(formulas=[x.serialize() for x in fs], daggify=dag, text=buf.getvalue()[:1500])
                    viol.append(bad)
                    break
            n += 1
        if viol:
            break
        if len(samples) < 3 and len(seen) > 6:
            samples.append(f.serialize()[:200])
    return {"name": "smtlib_export", "bounded": True, "evaluations": n, "distinct_nontrivial": nontriv,
            "rule": "%d generated formulas (depth <= 4, %d distinct operators reached: all theories, quantifiers incl. shadowing, "
                    "uninterpreted sorts and functions, constant arrays, negative / rational constants, strings with quotes, symbol "
                    "names needing quoting incl. let-name look-alikes, shared sub-terms) exported with smtlibscript_from_formula in "
                    "tree and let-DAG form; the text is read by the independent strict reader (every sort and symbol declared "
                    "exactly once before use) and its value compared with the formula's under 6 random interpretations each"
                    % (trials, len(ops_seen)),
            "samples": samples, "violations": viol}


CHECKS = {"smtlib_export": export_check}


def quote_check(tier, seed):
    """utils.quote: every name SMT-LIB can express is spelled so that the standard's lexer reads back one
    symbol with exactly that name; and PySMTType.as_smtlib against the independent sort reader"""
    from pysmt.utils import quote
    from native.bounded import fresh_env
    env = fresh_env()
    alphabet = list("aZ09_.-+!|\\ \"();:#'") + ["é", "\t", "Int", "let"]
    maxlen = 3 if tier == "quick" else 4
    n = nontriv = 0
    viol = []
    for ln in range(1, maxlen + 1):
        for combo in itertools.product(alphabet, repeat=ln):
            name = "".join(combo)
            if "|" in name or "\\" in name:
                continue                     # not expressible as an SMT-LIB symbol at all (stated exclusion)
            if name in R.RESERVED:
                continue
            n += 1
            q = quote(name)
            if q != name:
                nontriv += 1
            try:
                toks = R.tokenize(q)
            except R.SmtError as e:
                viol.append({"key": "quote-illegal", "name": name, "quoted": q, "error": str(e)})
                break
            if len(toks) != 1 or not isinstance(toks[0], R.Sym) or str(toks[0]) != name:
                viol.append({"key": "quote-misread", "name": name, "quoted": q, "read_back": [repr(t) for t in toks]})
                break
        if viol:
            break
    # sorts
    S_, U = Type("S"), Type("U", 1)
    P2 = Type("P", 2)
    sorts = [BOOL, INT, REAL, STRING, BVType(1), BVType(32), S_, U(S_), U(INT), P2(S_, U(INT)), ArrayType(INT, S_),
             ArrayType(BVType(4), ArrayType(INT, BOOL)), ArrayType(U(S_), P2(INT, INT))]
    sig = R.Signature()
    sig.declare_sort(R.Sym("S"), 0)
    sig.declare_sort(R.Sym("U"), 1)
    sig.declare_sort(R.Sym("P"), 2)
    for t in sorts:
        n += 1
        try:
            sx = R.parse_all(t.as_smtlib(funstyle=False))
            got = sig.sort(sx[0]) if len(sx) == 1 else None
        except R.SmtError as e:
            got = "error: %s" % e
        if got != sort_of_type(t):
            viol.append({"key": "sort-spelling", "sort": str(t), "text": t.as_smtlib(funstyle=False), "read_as": repr(got)})
            break
        ft = FunctionType(t, [t, BOOL])
        sx = R.parse_all(ft.as_smtlib(funstyle=True))
        ok = len(sx) == 2 and isinstance(sx[0], list) and len(sx[0]) == 2
        if ok:
            try:
                ok = sig.sort(sx[1]) == sort_of_type(t) and sig.sort(sx[0][0]) == sort_of_type(t) and sig.sort(sx[0][1]) == R.BOOL
            except R.SmtError:
                ok = False
        if not ok:
            viol.append({"key": "signature-spelling", "sort": str(ft), "text": ft.as_smtlib(funstyle=True)})
            break
    return {"name": "quote", "bounded": True, "evaluations": n, "distinct_nontrivial": nontriv, "exhaustive": True,
            "rule": "all names of length <= %d over a %d-character alphabet (letters, digits, punctuation, space, tab, quote, "
                    "parentheses, ';', '#', ':', non-ASCII, sort keywords), except names containing '|' or '\\\\' and reserved "
                    "words: quote(name) must lex (standard's lexer) to one symbol with that name; plus %d sorts / signatures"
                    % (maxlen, len(alphabet), len(sorts)),
            "samples": ["a b", "1x", "Int"], "violations": viol}


CHECKS["quote"] = quote_check


# ---------------------------------------------------------------------------
# C08: scripts written from a grammar of SMT-LIB (not by pySMT's printer), read by pySMT's
# parser and by the independent reader; every asserted term / definition must denote the same
# ---------------------------------------------------------------------------
class ScriptGen:
    """typed generator of SMT-LIB text with the syntactic variants of each construct"""
    SORTS = ["Bool", "Int", "Real", "(_ BitVec 3)", "(_ BitVec 8)", "(Array Int Int)", "S", "String"]

    def __init__(self, rng, logic, suffix=""):
        self.r = rng
        self.logic = logic
        self.suffix = suffix
        self.consts = {}          # name -> sort text (declared constants)
        self.funs = {}            # name -> ([param sorts], ret)   declared
        self.defs = {}            # name -> ([(pname, sort)], ret)  defined
        self.lines = []
        self.counter = 0
        self.features = set()

    def spell(self, name):
        """symbols may be written quoted even when they need not be"""
        simple = all(c in R.SIMPLE_CHARS for c in name) and not name[0].isdigit()
        if not simple or self.r.random() < 0.1:
            self.features.add("quoted-symbol")
            return "|%s|" % name
        return name

    def fresh(self, base):
        self.counter += 1
        return "%s%d%s" % (base, self.counter, self.suffix)

    def sorts_for(self):
        lg = self.logic
        out = ["Bool"]
        if lg in ("ALL", "QF_LIA", "QF_UFLIA", "LIA", "QF_AUFLIA", "QF_LIRA"):
            out.append("Int")
        if lg in ("ALL", "QF_LRA", "LRA", "QF_LIRA", "QF_UFLRA"):
            out.append("Real")
        if lg in ("ALL", "QF_BV", "QF_ABV", "QF_UFBV"):
            out += ["(_ BitVec 3)", "(_ BitVec 8)"]
        if lg in ("ALL", "QF_AUFLIA"):
            out.append("(Array Int Int)")
        if lg in ("ALL", "QF_UFLIA", "QF_UFLRA", "QF_UFBV", "QF_AUFLIA"):
            out.append("S")
        if lg in ("ALL", "QF_SLIA"):
            out += ["String"] + ([] if "Int" in out else ["Int"])
        return out

    def header(self):
        r = self.r
        if self.logic is not None:
            self.lines.append("(set-logic %s)" % self.logic)
        ss = self.sorts_for()
        if "S" in ss:
            self.lines.append("(declare-sort S 0)")
        names = ["x", "y", "z", "p", "q", "u", "v", "w", "a b", "k!", "i", "j", "s", "t"]
        r.shuffle(names)
        names = [n + self.suffix for n in names]
        for nm in names[:r.randint(4, 9)]:
            so = r.choice(ss)
            self.consts[nm] = so
            if r.random() < 0.5:
                self.lines.append("(declare-fun %s () %s)" % (self.spell(nm), so))
            else:
                self.features.add("declare-const")
                self.lines.append("(declare-const %s %s)" % (self.spell(nm), so))
        for so in ss:
            if True:
                nm = self.fresh("c")
                self.consts[nm] = so
                self.lines.append("(declare-fun %s () %s)" % (nm, so))
        if any("UF" in (self.logic or "") or self.logic == "ALL" for _ in [0]):
            for _ in range(r.randint(0, 2)):
                nm = self.fresh("f")
                ps = [r.choice([s for s in ss if not s.startswith("(Array")]) for _ in range(r.randint(1, 2))]
                rt = r.choice([s for s in ss if not s.startswith("(Array")])
                self.funs[nm] = (ps, rt)
                self.lines.append("(declare-fun %s (%s) %s)" % (nm, " ".join(ps), rt))
        for _ in range(r.randint(0, 2)):
            nm = self.fresh("d")
            nparams = r.randint(0, 2)
            # parameter names may shadow declared constants
            params = []
            for i in range(nparams):
                pn = r.choice(self.shadowable(dict(self.consts))) if r.random() < 0.4 else self.fresh("par")
                if pn in [p for p, _ in params]:
                    continue
                params.append((pn, r.choice([s for s in ss if not s.startswith("(Array")])))
            rt = r.choice([s for s in ss if not s.startswith("(Array")])
            scope = dict(self.consts)
            for pn, ps_ in params:
                scope[pn] = ps_
            body = self.term(rt, 2, scope)
            self.defs[nm] = (params, rt)
            self.features.add("define-fun/%d" % len(params))
            self.lines.append("(define-fun %s (%s) %s %s)" % (nm, " ".join("(%s %s)" % (self.spell(p), s) for p, s in params), rt, body))

    # -- terms ------------------------------------------------------------------
    def leaf(self, so, scope):
        r = self.r
        cands = [n for n, s in scope.items() if s == so]
        if cands and r.random() < 0.6:
            return self.spell(r.choice(cands))
        return self.literal(so, scope)

    def literal(self, so, scope):
        r = self.r
        if so == "Bool":
            return r.choice(["true", "false"])
        if so == "Int":
            v = r.choice([0, 1, 2, 3, 7, 10, 255])
            if r.random() < 0.3:
                self.features.add("negative-numeral")
                return "(- %d)" % v
            return str(v)
        if so == "Real":
            k = r.random()
            if k < 0.3:
                self.features.add("decimal")
                return r.choice(["0.0", "1.5", "2.25", "10.0", "0.125"])
            if k < 0.5:
                self.features.add("rational")
                return "(/ %d %d)" % (r.randint(0, 5), r.randint(1, 4))
            if k < 0.65:
                self.features.add("rational")
                return "(/ %d.0 %d.0)" % (r.randint(0, 5), r.randint(1, 4))
            if k < 0.8:
                return "(- %s)" % r.choice(["1.5", "2.0"])
            if self.logic in ("QF_LRA", "LRA", "QF_UFLRA"):
                self.features.add("numeral-as-real")
                return str(r.randint(0, 9))          # a numeral denotes a Real in a logic without Ints
            return r.choice(["3.0", "7.5"])
        if so.startswith("(_ BitVec"):
            w = int(so.split()[2].rstrip(")"))
            v = r.randrange(1 << w)
            k = r.random()
            if k < 0.4:
                return "#b" + format(v, "0%db" % w)
            if k < 0.6 and w % 4 == 0:
                self.features.add("hex-literal")
                return "#x" + format(v, "0%dx" % (w // 4)) if r.random() < 0.5 else "#x" + format(v, "0%dX" % (w // 4))
            self.features.add("(_ bvN w)")
            return "(_ bv%d %d)" % (v, w)
        if so == "String":
            self.features.add("string-literal")
            return r.choice(['""', '"a"', '"ab"', '"a""b"', '"x y"', '"(;|"'])
        if so == "(Array Int Int)":
            self.features.add("as-const")
            return "((as const (Array Int Int)) %s)" % self.literal("Int", scope)
        cands = [n for n, s in scope.items() if s == so]
        return self.spell(self.r.choice(cands))

    def shadowable(self, scope):
        """names a binder may re-bind: not the per-sort constants c<N> (kept visible so that every sort has a leaf)"""
        sfx = len(self.suffix)
        return [n for n in scope if not (n[0] == "c" and (n[1:-sfx] if sfx else n[1:]).isdigit())] + [n for n in self.defs if n not in scope]

    def term(self, so, depth, scope):
        r = self.r
        if depth <= 0 or r.random() < 0.15:
            return self.leaf(so, scope)
        t = lambda s2, sc=scope: self.term(s2, depth - 1, sc)
        k = r.random()
        avail = self.sorts_for()
        # binders are available at every sort
        if k < 0.12:
            n = r.randint(1, 3)
            names, binds = [], []
            for _ in range(n):
                nm = r.choice(self.shadowable(scope)) if r.random() < 0.5 else self.fresh("l")
                if nm in names:
                    continue
                bs = r.choice([s for s in avail if s != "(Array Int Int)"])
                names.append(nm)
                binds.append((nm, bs, self.term(bs, depth - 1, scope)))       # bound terms: OUTER scope
            inner = dict(scope)
            for nm, bs, _ in binds:
                inner[nm] = bs
            self.features.add("let/%d%s" % (len(binds), "/shadowing" if any(nm in scope for nm in names) else ""))
            return "(let (%s) %s)" % (" ".join("(%s %s)" % (self.spell(nm), bt) for nm, _, bt in binds), self.term(so, depth - 1, inner))
        if k < 0.16:
            self.features.add("annotation")
            extra = ""
            k2 = r.random()
            if k2 < 0.25:
                self.features.add("annotation-sexpr-value")
                extra = " :pattern ((p x) (q (r y) z))"
            elif k2 < 0.4:
                extra = " :weight 3 :flag"
            elif k2 < 0.5:
                self.features.add("annotation-sexpr-value")
                extra = " :note (a (b (c)) d) :other v"
            return "(! %s :named %s%s)" % (t(so), self.fresh("n"), extra)
        if k < 0.22:
            self.features.add("ite")
            return "(ite %s %s %s)" % (t("Bool"), t(so), t(so))
        fs = [(n, f) for n, f in self.funs.items() if f[1] == so]
        if fs and k < 0.30:
            n, f = r.choice(fs)
            self.features.add("uf-application")
            return "(%s %s)" % (n, " ".join(t(p) for p in f[0]))
        ds = [(n, d) for n, d in self.defs.items() if d[1] == so and n not in scope]
        if ds and k < 0.40:
            n, d = r.choice(ds)
            self.features.add("defined-application")
            if not d[0]:
                return n
            return "(%s %s)" % (n, " ".join(t(ps) for _, ps in d[0]))
        if so == "Bool":
            j = r.randrange(14)
            if j == 0:
                return "(not %s)" % t("Bool")
            if j == 1:
                return "(%s %s)" % (r.choice(["and", "or"]), " ".join(t("Bool") for _ in range(r.randint(2, 3))))
            if j == 2:
                self.features.add("xor")
                return "(xor %s %s)" % (t("Bool"), t("Bool"))
            if j == 3:
                n = r.randint(2, 3)
                if n == 3:
                    self.features.add("=>-chain")
                return "(=> %s)" % " ".join(t("Bool") for _ in range(n))
            if j == 4:
                s2 = r.choice(avail)
                return "(= %s %s)" % (t(s2), t(s2))
            if j == 5:
                s2 = r.choice([s for s in avail if s != "(Array Int Int)"])
                n = r.randint(2, 3)
                self.features.add("distinct/%d" % n)
                return "(distinct %s)" % " ".join(t(s2) for _ in range(n))
            if j == 6 and ("Int" in avail or "Real" in avail):
                s2 = r.choice([s for s in avail if s in ("Int", "Real")])
                return "(%s %s %s)" % (r.choice(["<", "<=", ">", ">="]), t(s2), t(s2))
            if j == 7 and "(_ BitVec 3)" in avail:
                s2 = r.choice(["(_ BitVec 3)", "(_ BitVec 8)"])
                return "(%s %s %s)" % (r.choice(["bvult", "bvule", "bvugt", "bvuge", "bvslt", "bvsle", "bvsgt", "bvsge"]), t(s2), t(s2))
            if j in (8, 9):
                # quantifier: bound names may shadow constants of another sort
                n = r.randint(1, 2)
                vs = []
                for _ in range(n):
                    nm = r.choice(self.shadowable(scope)) if r.random() < 0.5 else self.fresh("b")
                    if nm in [a for a, _ in vs]:
                        continue
                    vs.append((nm, r.choice([s for s in avail if s in ("Bool", "(_ BitVec 3)", "Int", "S")] or ["Bool"])))
                inner = dict(scope)
                for nm, s2 in vs:
                    inner[nm] = s2
                self.features.add("quantifier/%d%s" % (len(vs), "/shadowing" if any(nm in scope for nm, _ in vs) else ""))
                return "(%s (%s) %s)" % (r.choice(["forall", "exists"]), " ".join("(%s %s)" % (self.spell(nm), s2) for nm, s2 in vs),
                                         self.term("Bool", depth - 1, inner))
            if j == 10 and "String" in avail:
                return "(%s %s %s)" % (r.choice(["str.prefixof", "str.suffixof", "str.contains"]), t("String"), t("String"))
            if j == 11 and "(Array Int Int)" in avail:
                return "(= (select %s %s) %s)" % (t("(Array Int Int)"), t("Int"), t("Int"))
            return self.leaf(so, scope)
        if so == "Int":
            j = r.randrange(9)
            if j == 0:
                return "(+ %s)" % " ".join(t("Int") for _ in range(r.randint(2, 3)))
            if j == 1:
                return "(- %s %s)" % (t("Int"), t("Int"))
            if j == 2:
                self.features.add("unary-minus")
                return "(- %s)" % t("Int")
            if j == 3:
                return "(* %s %s)" % (self.literal("Int", scope), t("Int"))
            if j == 4:
                self.features.add("div")
                return "(div %s %s)" % (t("Int"), r.choice(["2", "3", "(- 2)"]))
            if j == 5 and "(_ BitVec 3)" in avail:
                return "(bv2nat %s)" % t(r.choice(["(_ BitVec 3)", "(_ BitVec 8)"]))
            if j == 6 and "String" in avail:
                return r.choice(["(str.len %s)" % t("String"), "(str.indexof %s %s %s)" % (t("String"), t("String"), t("Int")),
                                 "(str.to.int %s)" % t("String")])
            if j == 7 and "(Array Int Int)" in avail:
                return "(select %s %s)" % (t("(Array Int Int)"), t("Int"))
            return self.leaf(so, scope)
        if so == "Real":
            j = r.randrange(7)
            if j == 0:
                return "(+ %s)" % " ".join(t("Real") for _ in range(r.randint(2, 3)))
            if j == 1:
                return "(- %s %s)" % (t("Real"), t("Real"))
            if j == 2:
                return "(- %s)" % t("Real")
            if j == 3:
                return "(* %s %s)" % (self.literal("Real", scope), t("Real"))
            if j == 4:
                self.features.add("real-division")
                return "(/ %s %s)" % (t("Real"), r.choice(["2.0", "4.0", "(- 3.0)"]))
            if j == 5 and "Int" in avail:
                return "(to_real %s)" % t("Int")
            return self.leaf(so, scope)
        if so.startswith("(_ BitVec"):
            w = int(so.split()[2].rstrip(")"))
            j = r.randrange(16)
            bin_ = ["bvand", "bvor", "bvxor", "bvadd", "bvsub", "bvmul", "bvudiv", "bvurem", "bvshl", "bvlshr", "bvashr",
                    "bvsdiv", "bvsrem", "bvnand", "bvnor", "bvxnor", "bvsmod"]
            if j < 6:
                o = r.choice(bin_)
                self.features.add(o)
                return "(%s %s %s)" % (o, t(so), t(so))
            if j == 6:
                return "(%s %s)" % (r.choice(["bvnot", "bvneg"]), t(so))
            if j == 7 and w == 8:
                self.features.add("concat")
                return "(concat %s %s)" % (t("(_ BitVec 3)"), "((_ extract 4 0) %s)" % t("(_ BitVec 8)"))
            if j == 8 and w == 3:
                lo = r.randint(0, 5)
                self.features.add("extract")
                return "((_ extract %d %d) %s)" % (lo + 2, lo, t("(_ BitVec 8)"))
            if j == 9 and w == 8:
                self.features.add("extend")
                return "((_ %s 5) %s)" % (r.choice(["zero_extend", "sign_extend"]), t("(_ BitVec 3)"))
            if j == 10:
                self.features.add("rotate")
                k = r.randint(0, w + 1)
                if k > w:
                    self.features.add("rotate-beyond-width")
                return "((_ %s %d) %s)" % (r.choice(["rotate_left", "rotate_right"]), k, t(so))
            return self.leaf(so, scope)
        if so == "String":
            j = r.randrange(6)
            if j == 0:
                return "(str.++ %s %s)" % (t("String"), t("String"))
            if j == 1:
                return "(str.at %s %s)" % (t("String"), t("Int"))
            if j == 2:
                return "(str.substr %s %s %s)" % (t("String"), t("Int"), t("Int"))
            if j == 3:
                return "(str.replace %s %s %s)" % (t("String"), t("String"), t("String"))
            if j == 4:
                return "(int.to.str %s)" % t("Int")
            return self.leaf(so, scope)
        if so == "(Array Int Int)":
            if r.random() < 0.6:
                return "(store %s %s %s)" % (t(so), t("Int"), t("Int"))
            return self.leaf(so, scope)
        return self.leaf(so, scope)

    def script(self):
        r = self.r
        self.header()
        depth = 0
        for _ in range(r.randint(1, 4)):
            k = r.random()
            if k < 0.15:
                n = r.choice([1, 1, 2])
                self.lines.append("(push %d)" % n)
                depth += n
            elif k < 0.25 and depth > 0:
                n = r.randint(1, depth)
                self.lines.append("(pop %d)" % n)
                depth -= n
            else:
                self.lines.append("(assert %s)" % self.term("Bool", r.randint(1, 4), dict(self.consts)))
        if r.random() < 0.3:
            self.lines.append("(check-sat)")
            so = r.choice(self.sorts_for())
            self.lines.append("(get-value (%s))" % self.term(so, 1, dict(self.consts)))
        else:
            self.lines.append("(check-sat)")
        return "\n".join(self.lines) + "\n"


def relayout(text, rng):
    """the same script in another layout: comments glued to the token before them (a comment ends a token and lasts to the end
    of the line), tabs and line breaks between tokens; lines with string literals or quoted symbols are left alone"""
    out = []
    for line in text.split("\n"):
        if '"' in line or "|" in line or ";" in line or not line.strip():
            out.append(line)
            continue
        cs = list(line)
        spaces = [i for i, c in enumerate(cs) if c == " "]
        for i in spaces:
            k = rng.random()
            if k < 0.12:
                cs[i] = ";a comment (with parentheses) and \"quotes\"\n"
            elif k < 0.2:
                cs[i] = "\t"
            elif k < 0.28:
                cs[i] = "\n  "
        if rng.random() < 0.2:
            cs.append(";trailing comment")
        out.append("".join(cs))
    return "\n".join(out)


def type_sort_eq(t, s):
    return sort_of_type(t) == s


def check_script(text, features, rng, parser=None):
    """-> (violation dict | None, accepted?)"""
    from native.bounded import fresh_env
    from pysmt.smtlib.parser import SmtLibParser
    if parser is None:
        parser = SmtLibParser(fresh_env())
    try:
        sc = R.Script()
        cmds = R.parse_all(text)
        for c in cmds:
            sc.run(c)
    except refeval.DivByZero:
        return None, False
    except R.SmtError as e:
        return {"key": "generator-produced-illegal-script", "error": str(e), "text": text}, False
    ref = R.Script()
    try:
        with warnings.catch_warnings():
            warnings.simplefilter("ignore")
            script = parser.get_script(io.StringIO(text))
    except Exception as e:
        # rejection is allowed only for constructs pySMT does not handle today
        if {f for f in features if f.split("/")[0] in MAY_REJECT}:
            return None, False
        return {"key": "no-longer-accepted", "error": repr(e)[:300], "features": sorted(features), "text": text}, False
    pc = list(script.commands)
    if len(pc) != len(cmds):
        return {"key": "command-count", "got": len(pc), "want": len(cmds), "text": text}, True
    bad = None
    for sx, c in zip(cmds, pc):
        name = str(sx[0])
        ref.run(sx)
        if c.name != name:
            bad = {"key": "command-name", "got": c.name, "want": name}
            break
        if name in ("push", "pop"):
            want = int(sx[1]) if len(sx) > 1 else 1
            if c.args[0] != want:
                bad = {"key": "levels", "got": c.args[0], "want": want}
                break
        elif name in ("declare-fun", "declare-const"):
            s = c.args[0]
            f = ref.sig.find("funs", sx[1])
            st = s.symbol_type()
            ok = s.symbol_name() == str(sx[1])
            if st.is_function_type():
                ok = ok and [sort_of_type(p) for p in st.param_types] == list(f[0]) and sort_of_type(st.return_type) == f[1]
            else:
                ok = ok and not f[0] and sort_of_type(st) == f[1]
            if not ok:
                bad = {"key": "declaration", "got": "%s : %s" % (s, st), "want": str(sx)}
                break
        elif name in ("assert", "get-value"):
            terms = [sx[1]] if name == "assert" else list(sx[1])
            got_terms = [c.args[0]] if name == "assert" else list(c.args)
            if len(terms) != len(got_terms):
                bad = {"key": "term-count", "command": name}
                break
            for tx, f in zip(terms, got_terms):
                d = compare_term(tx, f, ref, rng, 5)
                if d:
                    bad = d
                    break
            if bad:
                break
        elif name == "define-fun":
            fname, params, rtype, body = c.args[0], c.args[1], c.args[2], c.args[3]
            d = ref.sig.find("defs", sx[1])
            if [sort_of_type(p.symbol_type()) for p in params] != [s for _, s in d[0]] or sort_of_type(rtype) != d[1]:
                bad = {"key": "definition-signature", "got": str(c.args), "want": str(sx)}
                break
            d2 = compare_term(sx[4], body, ref, rng, 5, params=list(zip([p for p, _ in d[0]], [s for _, s in d[0]], params)))
            if d2:
                bad = d2
                break
    if bad:
        bad["text"] = text
        bad["features"] = sorted(features)
    return bad, True


def import_check(tier, seed):
    rng = random.Random(seed)
    trials = 300 if tier == "quick" else 4000
    n = nontriv = accepted = 0
    viol, samples = [], []
    feats = set()
    known = {}
    logics = ["ALL", "QF_LIA", "QF_LRA", "QF_BV", "QF_UFLIA", "QF_AUFLIA", "QF_LIRA", None]
    # the recorded finding's own witness is always exercised (so that the KNOWN-FINDING line does not depend on the seed)
    wit = ("(declare-fun t () Bool)\n(define-fun d ((s Bool)) Bool (not t))\n(assert (forall ((t Bool)) (d t)))\n(check-sat)\n")
    bad, _ = check_script(wit, {"defined-application", "quantifier/1/shadowing"}, rng)
    if bad and bad["key"] == "different-value":
        bad2, _ = check_script(alpha_rename_script(R.parse_all(wit)), set(), rng)
        if bad2 is None:
            known["definition-capture"] = {"key": "definition-capture", "term": bad.get("term"), "parsed_as": bad.get("parsed_as"),
                                           "text": wit, "note": "agrees with the reader once the quantified variables are renamed"}
        else:
            viol.append(bad)
    elif bad:
        viol.append(bad)
    parser = None
    for t in range(trials if not viol else 0):
        # one parser object (and environment) serves several scripts in a row, as in a long-lived application
        if t % 4 == 0:
            from native.bounded import fresh_env
            from pysmt.smtlib.parser import SmtLibParser
            parser = SmtLibParser(fresh_env())
        g = ScriptGen(random.Random(rng.random()), rng.choice(logics), suffix="_%d" % (t % 4))
        text = g.script()
        if t % 3 == 1:
            text = relayout(text, random.Random(rng.random()))
            g.features.add("layout/comments-glued-to-tokens")
        n += 1
        bad, acc = check_script(text, g.features, rng, parser)
        accepted += 1 if acc else 0
        if acc:
            feats |= g.features
        if bad and bad["key"] == "different-value":
            # is the only cause the capture of a definition's global symbol by a quantifier of the same name?
            # (alpha-renaming the quantified variables does not change the meaning of the text)
            renamed = alpha_rename_script(R.parse_all(text))
            bad2, _ = check_script(renamed, g.features, rng)
            if bad2 is None:
                if "definition-capture" not in known:
                    known["definition-capture"] = {"key": "definition-capture", "term": bad.get("term"), "parsed_as": bad.get("parsed_as"),
                                                   "text": text, "note": "agrees with the reader once the quantified variables are renamed"}
                continue
        if bad:
            viol.append(bad)
            break
        if len(g.features) > 3:
            nontriv += 1
        if len(samples) < 3 and len(text) > 300:
            samples.append(text[:300])
    return {"name": "smtlib_import", "bounded": True, "evaluations": n, "distinct_nontrivial": nontriv,
            "rule": "%d scripts written from a typed grammar of SMT-LIB 2.6 (not by pySMT's printer) over 8 logics: simultaneous and "
                    "shadowing lets, quantifiers shadowing constants, define-fun with parameters shadowing constants, declare-const, "
                    "quoted symbols, annotations, n-ary / chained operators, indexed operators, literals in every notation, numerals "
                    "typed by logic, push / pop n, get-value; %d accepted by pySMT; every asserted term, definition body and "
                    "get-value term compared by value with the independent reader under 5 random interpretations; features "
                    "reached: %d" % (trials, accepted, len(feats)),
            "samples": samples, "violations": list(known.values()) + viol, "features": sorted(feats)}


# constructs pySMT's parser does not handle today (rejection with an error is the expected answer)
MAY_REJECT = {"=>-chain", "rotate-beyond-width"}


def compare_term(sx, f, ref, rng, trials, params=()):
    """text term sx (under the reference signature) vs parsed FNode f"""
    for k in range(trials):
        I, M = random_interp(f, rng)
        env_ = {}
        for pname, psort, psym in params:
            v = refeval.random_value(psym.symbol_type(), rng)
            I.values[psym] = v
            env_[R.Sym(pname)] = (psort, v)
        # symbols of the text that the parsed formula no longer mentions still need a value
        M2 = LazyModel(M, rng)
        try:
            want_s, want = R.evaluate(sx, ref.sig, M2, env_)
        except refeval.DivByZero:
            continue
        psyms = {p[2] for p in params}
        for s in refeval.free_symbols(f):
            if s in psyms:
                continue
            if not s.symbol_type().is_function_type() and s.symbol_name() in M2.values:
                I.values[s] = M2.values[s.symbol_name()]
        try:
            got = refeval.evaluate(f, I)
        except refeval.DivByZero:
            continue
        except refeval.Unsupported:
            return None
        if not same_value(got, want) or sort_of_type(refeval.type_of(f)) != want_s:
            return {"key": "different-value", "term": sexpr_text(sx), "parsed_as": f.serialize(), "text_value": repr(want),
                    "parsed_value": repr(got), "text_sort": str(want_s), "parsed_type": str(refeval.type_of(f)),
                    "interpretation": {k.symbol_name(): repr(v) for k, v in I.values.items()}}
    return None


class LazyModel(R.Model):
    def __init__(self, base, rng):
        R.Model.__init__(self, base.values, base.funcs)
        self.rng = rng
        self.memo = {}

    def value(self, name, sort):
        if name not in self.values:
            self.values[name] = random_value_of_sort(sort, self.rng)
        return self.values[name]

    def apply(self, name, args, ret):
        if name in self.funcs:
            return self.funcs[name](*args)
        k = (name, tuple(refeval.key(a) for a in args))
        if k not in self.memo:
            self.memo[k] = random_value_of_sort(ret, self.rng)
        return self.memo[k]


def random_value_of_sort(s, rng):
    if s == R.BOOL:
        return rng.random() < 0.5
    if s == R.INT:
        return rng.choice([-3, -2, -1, 0, 1, 2, 3, 5, 7, 10])
    if s == R.REAL:
        return Fraction(rng.randint(-20, 20), rng.randint(1, 6))
    if s[0] == "BV":
        return rng.randrange(1 << s[1])
    if s == R.STRING:
        return rng.choice(["", "a", "b", "ab", "ba", "abc", "0", "12"])
    if s[0] == "Array":
        a = refeval.ArrVal(random_value_of_sort(s[2], rng))
        for _ in range(rng.randint(0, 2)):
            a = a.store(random_value_of_sort(s[1], rng), random_value_of_sort(s[2], rng))
        return a
    return ("U", R.sort_name(s), rng.randint(0, 2))


def sexpr_text(sx):
    if isinstance(sx, list):
        return "(" + " ".join(sexpr_text(x) for x in sx) + ")"
    if isinstance(sx, R.StrLit):
        return '"' + str(sx).replace('"', '""') + '"'
    if isinstance(sx, R.BvLit):
        return "#b" + format(sx[0], "0%db" % sx[1])
    if isinstance(sx, R.Dec):
        fr = Fraction(sx)
        k = 0
        while (fr * 10 ** k).denominator != 1:
            k += 1
        k = max(k, 1)
        digits = str(int(fr * 10 ** k)).rjust(k + 1, "0")
        return digits[:-k] + "." + digits[-k:]
    if isinstance(sx, R.Sym):
        nm = str(sx)
        if nm and all(c in R.SIMPLE_CHARS for c in nm) and not nm[0].isdigit():
            return nm
        return "|%s|" % nm
    return str(sx)


_ALPHA = [0]


def alpha_rename(sx, env=None):
    """rename every quantifier-bound variable to a fresh name (meaning preserved by the standard)"""
    env = env or {}
    if isinstance(sx, R.Sym):
        return env.get(sx, sx)
    if not isinstance(sx, list) or not sx:
        return sx
    h = sx[0]
    if isinstance(h, R.Sym) and h not in env:
        if h in ("forall", "exists") and len(sx) == 3:
            new = dict(env)
            bs = []
            for b in sx[1]:
                _ALPHA[0] += 1
                nn = R.Sym("qv!%d" % _ALPHA[0])
                new[b[0]] = nn
                bs.append([nn, b[1]])
            return [h, bs, alpha_rename(sx[2], new)]
        if h == "let" and len(sx) == 3:
            bs = [[b[0], alpha_rename(b[1], env)] for b in sx[1]]
            inner = {k: v for k, v in env.items() if k not in [b[0] for b in sx[1]]}
            return [h, bs, alpha_rename(sx[2], inner)]
        if h == "!":
            return [h, alpha_rename(sx[1], env)] + list(sx[2:])
        if h == "_" or h == "as":
            return sx
    return [alpha_rename(x, env) if i or not isinstance(x, R.Sym) or x in env else x for i, x in enumerate(sx)]


def alpha_rename_script(cmds):
    out = []
    for c in cmds:
        if c and c[0] == "assert":
            out.append([c[0], alpha_rename(c[1])])
        elif c and c[0] == "get-value":
            out.append([c[0], [alpha_rename(t) for t in c[1]]])
        elif c and c[0] == "define-fun":
            out.append([c[0], c[1], c[2], c[3], alpha_rename(c[4])])
        else:
            out.append(c)
    return "\n".join(sexpr_text(c) for c in out) + "\n"


CHECKS["smtlib_import"] = import_check


# ---------------------------------------------------------------------------
# C08: malformed variants must be rejected (never read as something else)
# ---------------------------------------------------------------------------
MALFORMED_HEADER = ("(declare-fun x () Int)(declare-fun r () Real)(declare-fun b () Bool)(declare-fun s () String)"
                    "(declare-fun v () (_ BitVec 3))")
MALFORMED = [
    "(assert (= x undeclared))", "(assert (> x -5))", "(assert (> x +3))", "(assert (> x 1e1))", "(assert (> x 1_0))",
    "(assert (> x 007))", "(assert (> r 1/2))", "(assert (> r .5))", "(assert (> r 5.))", "(assert (> x 0x10))",
    "(assert (not b b))", "(assert (ite b x))", "(assert (= x))", "(assert (= v #b012))", "(assert (= v #xZ))",
    "(assert (= v (_ bv8 3)))", "(assert (= ((_ extract 0 2) v) v))", "(assert (= x true))", "(assert (b))", "(assert ())",
    "(assert b b)", "(assert (forall () b))", "(assert (= x (-)))", "(assert (> (str.len x) 0))", "(assert (= x 1)",
    "(assert (= x 1)))", "(assert (= x 1))(", "(assert (let ((y 1)) ))", "(assert (let (y 1) b))", "(assert (= s \"abc))",
    "(assert (= |x x))", "(assert (=> b))", "(assert (= v #b))", "(declare-fun y () Foo)", "(declare-fun y (Int) )",
    "(assert (select x 1))", "(assert true false)", "(assert (exists ((y Int)) y))", "(assert ((_ extract 1 0) x))",
    "(assert (bvadd v #b01))", "(assert (= (concat v v) v))", "(assert (str.++ s x))", "(assert (< s s))",
    "(frobnicate x)", "(assert (= x (let ((y 1)) z)))", "(assert (and b (or b undeclared2)))",
]
# an undeclared symbol where a String fits is read as a string constant (known finding; the repository's own tests rely on it)
UNBOUND_AS_STRING = ["(assert (= s undeclared))", "(assert (= undeclared undeclared))", "(assert (str.prefixof foo s))"]


def malformed_check(tier, seed):
    from native.bounded import fresh_env
    from pysmt.smtlib.parser import SmtLibParser
    n = 0
    viol = []
    for t in MALFORMED + UNBOUND_AS_STRING:
        text = MALFORMED_HEADER + t
        n += 1
        try:
            sc = R.Script()
            for c in R.parse_all(text):
                sc.run(c)
            viol.append({"key": "harness-considers-legal", "text": t})
            break
        except (R.SmtError, refeval.DivByZero):
            pass
        try:
            with warnings.catch_warnings():
                warnings.simplefilter("ignore")
                script = SmtLibParser(fresh_env()).get_script(io.StringIO(text))
        except Exception:
            continue
        last = script.commands[-1]
        if t in UNBOUND_AS_STRING:
            viol.append({"key": "unbound-token-as-string", "text": t, "read_as": [str(a) for a in last.args]})
        else:
            viol.append({"key": "illegal-text-accepted", "text": t, "read_as": [str(a) for a in last.args]})
    # keep one entry per known class
    seen, out = set(), []
    for v in viol:
        if v["key"] == "unbound-token-as-string":
            if v["key"] in seen:
                continue
            seen.add(v["key"])
        out.append(v)
    return {"name": "smtlib_malformed", "bounded": True, "evaluations": n, "distinct_nontrivial": n, "exhaustive": True,
            "rule": "%d malformed variants (undeclared symbols, number-like tokens that are not SMT-LIB numerals, wrong arities, "
                    "ill-sorted applications, bad literals and indices, unbalanced parentheses, malformed binders, unknown sorts "
                    "and commands): each must be rejected with an error" % n,
            "samples": MALFORMED[:3], "violations": out}


CHECKS["smtlib_malformed"] = malformed_check


# ---------------------------------------------------------------------------
# C09: round trips
# ---------------------------------------------------------------------------
def has_op(f, ops):
    st, seen = [f], set()
    while st:
        x = st.pop()
        if x in seen:
            continue
        seen.add(x)
        if x.node_type() in ops:
            return True
        st.extend(x.args())
    return False


def has_quote_string(f):
    st, seen = [f], set()
    while st:
        x = st.pop()
        if x in seen:
            continue
        seen.add(x)
        if x.node_type() == op.STR_CONSTANT and '"' in x.constant_value():
            return True
        st.extend(x.args())
    return False


def bound_symbols(f):
    out, st, seen = set(), [f], set()
    while st:
        x = st.pop()
        if x in seen:
            continue
        seen.add(x)
        if x.is_quantifier():
            out |= set(x.quantifier_vars())
        st.extend(x.args())
    return out


def commands_equivalent(env, c1, c2):
    """two parsed command lists: identical up to the fresh names of definition parameters; -> problem or None"""
    if len(c1) != len(c2):
        return {"key": "script-command-count", "first": len(c1), "second": len(c2)}
    sub = env.substituter
    for a, b in zip(c1, c2):
        if a.name != b.name:
            return {"key": "script-command-name", "first": a.name, "second": b.name}
        if a.name == "define-fun":
            n1, p1, r1, b1 = a.args
            n2, p2, r2, b2 = b.args
            ok = n1 == n2 and r1 == r2 and len(p1) == len(p2) and all(x.symbol_type() == y.symbol_type() for x, y in zip(p1, p2))
            if ok and p1:
                ok = sub.substitute(b2, dict(zip(p2, p1))) is b1
            elif ok:
                ok = b1 is b2
            if not ok:
                return {"key": "script-definition", "first": str(a.args), "second": str(b.args)}
        elif a.name in ("set-logic",):
            if str(a.args[0]) != str(b.args[0]):
                return {"key": "script-args", "command": a.name, "first": str(a.args), "second": str(b.args)}
        else:
            if len(a.args) != len(b.args) or any((x is not y) and x != y for x, y in zip(a.args, b.args)):
                return {"key": "script-args", "command": a.name, "first": str(a.args), "second": str(b.args)}
    return None


def roundtrip_check(tier, seed):
    from native.bounded import fresh_env
    from pysmt.smtlib.script import smtlibscript_from_formula
    from pysmt.smtlib.parser import SmtLibParser
    from pysmt.parsing import HRParser
    env = fresh_env()
    rng = random.Random(seed)
    trials = 300 if tier == "quick" else 4000
    n = nontriv = 0
    viol, samples = [], []
    counts = {"smtlib": 0, "hr": 0, "script": 0}
    g = SmtGen(env, seed=seed, widths=(1, 2, 3, 8))
    parser = SmtLibParser(env)
    # indexed operators at the ends of their index ranges (rotation by 0 and by the full width, extension by 0, extraction of
    # the whole word / one bit): deterministic, ahead of the generated formulas
    m = env.formula_manager
    edge = []
    for w in (1, 2, 3, 8):
        x = m.Symbol("edge_x%d" % w, BVType(w))
        for tm in (m.BVRol(x, 0), m.BVRol(x, w), m.BVRor(x, 0), m.BVRor(x, w), m.BVZExt(x, 0), m.BVSExt(x, 0), m.BVZExt(x, w),
                   m.BVSExt(x, w), m.BVExtract(x, 0, w - 1), m.BVExtract(x, w - 1, w - 1), m.BVExtract(x, 0, 0),
                   m.BVRol(m.BVRor(x, w), w - 1)):
            edge.append(m.Equals(tm, m.Symbol("edge_y%d" % tm.bv_width(), BVType(tm.bv_width()))))
    for t in range(-len(edge), trials):
        if t >= 0 and t % 25 == 0:
            g.syms.clear()
            g.pool_shared = []
            if (t // 25) % 2 == 1:
                g.syms[BOOL] = [env.formula_manager.Symbol(".def_%d" % i, BOOL) for i in range(3)]
        try:
            f = edge[t + len(edge)] if t < 0 else g.term(BOOL, rng.randint(1, 4))
        except Exception:
            continue
        n += 1
        if f.args():
            nontriv += 1
        # --- SMT-LIB: print, parse back in the same environment -> the very same object --------------------
        for dag in (False, True):
            with warnings.catch_warnings():
                warnings.simplefilter("ignore")
                script = smtlibscript_from_formula(f, logic="ALL")
                buf = io.StringIO()
                script.serialize(buf, daggify=dag)
            try:
                with warnings.catch_warnings():
                    warnings.simplefilter("ignore")
                    back = parser.get_script(io.StringIO(buf.getvalue())).get_strict_formula(env.formula_manager)
            except Exception as e:
                viol.append({"key": "smtlib-reparse-fails", "formula": f.serialize(), "daggify": dag, "error": repr(e)[:300],
                             "text": buf.getvalue()[:1200]})
                break
            counts["smtlib"] += 1
            if back is not f:
                if has_op(f, (op.ARRAY_VALUE,)):
                    d = refeval.equivalent(f, back, trials=12, seed=t)
                    if d is None and back.get_type() == f.get_type():
                        continue
                viol.append({"key": "smtlib-roundtrip-not-identical", "formula": f.serialize(), "back": back.serialize(),
                             "daggify": dag, "text": buf.getvalue()[:1200]})
                break
        if viol:
            break
        # --- human-readable: same type and meaning, serialisation equal up to grouping ------------------------
        hr_names_ok = not any("'" in x.symbol_name() or "\\" in x.symbol_name() for x in refeval.free_symbols(f)) and \
            not any("'" in x.symbol_name() for x in bound_symbols(f))
        if not has_quote_string(f) and hr_names_ok:
            s = f.serialize()
            try:
                r = HRParser(env).parse(s)
            except Exception as e:
                viol.append({"key": "hr-reparse-fails", "formula": s, "error": repr(e)[:300]})
                break
            counts["hr"] += 1
            if r is not f:
                d = refeval.equivalent(f, r, trials=12, seed=t)
                if d is not None or r.get_type() != f.get_type():
                    viol.append({"key": "hr-roundtrip-different-meaning", "formula": s, "back": r.serialize(), "difference": d})
                    break
                strip = lambda x: x.replace("(", "").replace(")", "")
                if strip(r.serialize()) != strip(s):
                    viol.append({"key": "hr-roundtrip-different-text", "formula": s, "back": r.serialize()})
                    break
        # --- scripts: parse, serialise, parse again -> equivalent command lists ----------------------------------
        if t >= 0 and t % 3 == 0:
            sg = ScriptGen(random.Random(rng.random()), rng.choice(["ALL", "QF_LIA", "QF_LRA", "QF_BV", "QF_UFLIA", None]),
                           suffix="_r%d" % t)
            text = sg.script()
            env2 = fresh_env()
            try:
                with warnings.catch_warnings():
                    warnings.simplefilter("ignore")
                    s1 = SmtLibParser(env2).get_script(io.StringIO(text))
            except Exception:
                continue
            for dag in (False, True):
                buf = io.StringIO()
                try:
                    s1.serialize(buf, daggify=dag)
                    with warnings.catch_warnings():
                        warnings.simplefilter("ignore")
                        s2 = SmtLibParser(env2).get_script(io.StringIO(buf.getvalue()))
                except Exception as e:
                    viol.append({"key": "script-reparse-fails", "daggify": dag, "error": repr(e)[:300], "script": text,
                                 "serialised": buf.getvalue()[:1500]})
                    break
                counts["script"] += 1
                d = commands_equivalent(env2, list(s1.commands), list(s2.commands))
                if d:
                    d.update(daggify=dag, script=text, serialised=buf.getvalue()[:1500])
                    viol.append(d)
                    break
            from pysmt.environment import pop_env
            pop_env()
        if viol:
            break
        if len(samples) < 3 and f.args():
            samples.append(f.serialize()[:200])
    return {"name": "roundtrip", "bounded": True, "evaluations": n, "distinct_nontrivial": nontriv,
            "rule": "48 indexed-operator applications at the ends of their index ranges (rotate by 0 / by the width, extend by 0 / by the width, extract the whole word / one bit; widths 1 2 3 8) and %d generated formulas: SMT-LIB print (tree and DAG) then parse in the same environment must return the same "
                    "object (constant arrays: an equivalent store chain) [%d trips]; human-readable serialise then parse must keep "
                    "type, meaning and text up to parentheses (strings containing a double quote and symbol names containing a single quote or backslash "
                    "excluded: outside the HR parser's fragment) [%d trips]; grammar-generated scripts parsed, serialised and parsed again must give "
                    "command lists identical up to the names of definition parameters [%d trips]"
                    % (trials, counts["smtlib"], counts["hr"], counts["script"]),
            "samples": samples, "violations": viol}


CHECKS["roundtrip"] = roundtrip_check
