"""Bounded stand-ins for the SMT-LIB text interface (C07, C08, C09, C17): pySMT's
printers / parser / text-interface solver against the independent reader
native/smtlib_ref.py.  Labelled bounded, never counted as proved."""
import io
import itertools
import random
import warnings
from fractions import Fraction

from pysmt.typing import BOOL, INT, REAL, STRING, BVType, ArrayType, FunctionType, Type
from pysmt import operators as op

from native import refeval, smtlib_ref as R
from native.gen import Gen

WEIRD_NAMES = ["a b", "1x", "x.y", "q#", "(p)", "a;b", 'x"y', "A:b", "x'", "[i]", "{k}", "a,b",
               "é", "~!@$%^&*_-+=<>.?/", "x y z", " lead", "0", "-1", "#b01", "1.5"]


def sort_of_type(t):
    if t.is_bool_type():
        return R.BOOL
    if t.is_int_type():
        return R.INT
    if t.is_real_type():
        return R.REAL
    if t.is_string_type():
        return R.STRING
    if t.is_bv_type():
        return ("BV", t.width)
    if t.is_array_type():
        return ("Array", sort_of_type(t.index_type), sort_of_type(t.elem_type))
    return ("U", t.basename if getattr(t, "basename", None) else str(t)) + tuple(sort_of_type(a) for a in (t.args or ()))


class SmtGen(Gen):
    """formula generator with quantifiers, names needing quoting, custom sorts, functions, sharing"""

    def __init__(self, env, seed=0, weird=True, **kw):
        Gen.__init__(self, env, seed=seed, **kw)
        self.weird = weird
        self.S = Type("S")
        self.U1 = Type("U", 1)
        self.pool_shared = []

    def symbol(self, ty):
        pool = self.syms.setdefault(ty, [])
        if len(pool) < 2 or (len(pool) < 3 and self.r.random() < 0.2):
            used = {s.symbol_name() for p in self.syms.values() for s in p}
            nm = None
            if self.weird and self.r.random() < 0.35:
                owner = self.__dict__.setdefault("name_owner", {})
                cands = [n for n in WEIRD_NAMES if n not in used and owner.get(n, ty) == ty]
                if cands:
                    nm = self.r.choice(cands)
            if nm is None:
                nm = "g%s_%d" % ("".join(c for c in str(ty) if c.isalnum()), len(pool))
            self.__dict__.setdefault("name_owner", {})[nm] = ty
            s = self.m.Symbol(nm, ty)
            pool.append(s)
            return s
        return self.r.choice(pool)

    def term(self, ty, depth, consts_only=False):
        m, r = self.m, self.r
        # sharing: reuse an earlier sub-term of the same type
        if self.pool_shared and r.random() < 0.15:
            c = [x for x in self.pool_shared if x.get_type() == ty]
            if c:
                return r.choice(c)
        x = self._term(ty, depth, consts_only)
        if x.args() and len(self.pool_shared) < 40:
            self.pool_shared.append(x)
        return x

    def _term(self, ty, depth, consts_only):
        m, r = self.m, self.r
        if depth > 0 and not consts_only:
            t = lambda ty2: self.term(ty2, depth - 1)
            if ty.is_bool_type():
                k = r.random()
                if k < 0.10:
                    vt = r.choice([BOOL, BVType(2), INT, self.S])
                    vs = [self.symbol(vt)]
                    if r.random() < 0.3:
                        v2 = self.symbol(r.choice([BOOL, BVType(2)]))
                        if v2 not in vs:
                            vs.append(v2)
                    return r.choice([m.ForAll, m.Exists])(vs, t(BOOL))
                if k < 0.14:
                    return m.Equals(t(self.S), t(self.S))
                if k < 0.18:
                    f = self.symbol(FunctionType(BOOL, [self.S, INT]))
                    return m.Function(f, [t(self.S), t(INT)])
                if k < 0.24:
                    us, ui = self.U1(self.S), self.U1(INT)
                    f = self.symbol(FunctionType(ui, [ui]))
                    return m.And(m.Equals(t(us), t(us)), m.Equals(m.Function(f, [t(ui)]), t(ui)))
            if ty.is_int_type() and r.random() < 0.06:
                f = self.symbol(FunctionType(INT, [INT, BOOL]))
                return m.Function(f, [t(INT), t(BOOL)])
            if ty == self.S and r.random() < 0.4:
                f = self.symbol(FunctionType(self.S, [self.S]))
                return r.choice([lambda: m.Function(f, [t(self.S)]), lambda: m.Ite(t(BOOL), t(self.S), t(self.S))])()
            if ty.is_array_type() and r.random() < 0.25:
                d = self.term(ty.elem_type, 0, True)
                asg = {}
                for _ in range(r.randint(0, 2)):
                    asg[self.term(ty.index_type, 0, True)] = self.term(ty.elem_type, 0, True)
                return m.Array(ty.index_type, d, asg)
        return Gen.term(self, ty, depth, consts_only)


def random_interp(f, rng):
    """-> (refeval.Interp, smtlib_ref.Model) giving every free symbol the same value"""
    vals, funcs, nvals, nfuncs = {}, {}, {}, {}
    for s in refeval.free_symbols(f):
        t = s.symbol_type()
        if t.is_function_type():
            memo = {}
            rt = t.return_type

            def fn(*args, _memo=memo, _rt=rt, _r=random.Random(rng.random())):
                k = tuple(refeval.key(a) for a in args)
                if k not in _memo:
                    _memo[k] = refeval.random_value(_rt, _r)
                return _memo[k]
            funcs[s] = fn
            nfuncs[s.symbol_name()] = fn
        else:
            v = refeval.random_value(t, rng)
            vals[s] = v
            nvals[s.symbol_name()] = v
    return refeval.Interp(vals, funcs), R.Model(nvals, nfuncs)


def same_value(a, b):
    if isinstance(a, bool) or isinstance(b, bool):
        return isinstance(a, bool) and isinstance(b, bool) and a == b
    return refeval.key(a) == refeval.key(b) or a == b


def read_script_text(text):
    """strict independent reading -> (Script, [asserted s-expressions])"""
    sc = R.Script()
    for cmd in R.parse_all(text):
        sc.run(cmd)
    return sc


def compare_text_with_formulas(text, fs, rng, trials):
    """the script text must be legal and its assertions must denote fs, one by one; -> problem or None"""
    try:
        sc = read_script_text(text)
    except R.SmtError as e:
        return {"key": "illegal-smtlib", "error": str(e)}
    except refeval.DivByZero:
        return None
    live = sc.live()
    if len(live) != len(fs):
        return {"key": "assertion-count", "got": len(live)}
    allf = fs[0].args()[0:0]
    for k in range(trials):
        for f, sx in zip(fs, live):
            I, M = random_interp_all(fs, rng)
            try:
                want = refeval.evaluate(f, I)
            except (refeval.DivByZero, refeval.Unsupported):
                continue
            try:
                s, got = R.evaluate(sx, sc.sig, M)
            except refeval.DivByZero:
                return {"key": "division-by-zero-only-in-text"}
            except R.SmtError as e:
                return {"key": "illegal-smtlib", "error": str(e)}
            if not same_value(got, want):
                return {"key": "different-value", "assertion": f.serialize(), "text_value": repr(got),
                        "formula_value": repr(want),
                        "interpretation": {k.symbol_name(): repr(v) for k, v in I.values.items()}}
    return None


def compare_text_with_formula(text, f, rng, trials, expect_type=None):
    return compare_text_with_formulas(text, [f], rng, trials)


def random_interp_all(fs, rng):
    m = fs[0]
    if len(fs) == 1:
        return random_interp(m, rng)
    from pysmt.environment import get_env
    return random_interp(get_env().formula_manager.And(fs), rng)


def export_check(tier, seed):
    from native.bounded import fresh_env
    from pysmt.smtlib.script import smtlibscript_from_formula, SmtLibCommand
    from pysmt.exceptions import NoLogicAvailableError
    env = fresh_env()
    rng = random.Random(seed)
    trials = 400 if tier == "quick" else 5000
    n = nontriv = 0
    viol, samples = [], []
    ops_seen = set()
    g = SmtGen(env, seed=seed, widths=(1, 2, 3, 8))
    for t in range(trials):
        if t % 25 == 0:
            g.syms.clear()
            g.pool_shared = []
            if (t // 25) % 2 == 1:
                # user symbols that look like the DAG printer's let names
                g.syms[BOOL] = [env.formula_manager.Symbol(".def_%d" % i, BOOL) for i in range(3)]
        try:
            f = g.term(BOOL, rng.randint(1, 4))
        except Exception:
            continue
        n += 1
        st, seen = [f], set()
        while st:
            x = st.pop()
            if x in seen:
                continue
            seen.add(x)
            ops_seen.add(x.node_type())
            st.extend(x.args())
        if len(seen) > 3:
            nontriv += 1
        for dag in (False, True):
            try:
                with warnings.catch_warnings():
                    warnings.simplefilter("ignore")
                    try:
                        script = smtlibscript_from_formula(f)
                    except NoLogicAvailableError:
                        # no pySMT logic covers the formula (C13 allows this answer): export with an explicit logic
                        script = smtlibscript_from_formula(f, logic="ALL")
                    buf = io.StringIO()
                    script.serialize(buf, daggify=dag)
                text = buf.getvalue()
            except Exception as e:
                viol.append({"key": "export-exception", "formula": f.serialize(), "daggify": dag, "error": repr(e)[:300]})
                break
            bad = compare_text_with_formula(text, f, rng, 6)
            if bad:
                bad.update(formula=f.serialize(), daggify=dag, text=text[:1500])
                viol.append(bad)
                break
        if viol:
            break
        # a script with several assertions sharing sub-terms, printed by one printer object
        if t % 4 == 0:
            fs = [f]
            for _ in range(rng.randint(1, 2)):
                try:
                    fs.append(g.term(BOOL, rng.randint(1, 3)))
                except Exception:
                    pass
            if rng.random() < 0.5:
                fs.append(fs[0])
            with warnings.catch_warnings():
                warnings.simplefilter("ignore")
                script = smtlibscript_from_formula(env.formula_manager.And(fs), logic="ALL")
            cmds = [c for c in script.commands if c.name not in ("assert", "check-sat")]
            script.commands = cmds + [SmtLibCommand("assert", [x]) for x in fs] + [SmtLibCommand("check-sat", [])]
            for dag in (False, True):
                buf = io.StringIO()
                try:
                    script.serialize(buf, daggify=dag)
                except Exception as e:
                    viol.append({"key": "export-exception", "formulas": [x.serialize() for x in fs], "daggify": dag,
                                 "error": repr(e)[:300]})
                    break
                bad = compare_text_with_formulas(buf.getvalue(), fs, rng, 4)
                if bad:
                    bad.update(formulas=[x.serialize() for x in fs], daggify=dag, text=buf.getvalue()[:1500])
                    viol.append(bad)
                    break
            n += 1
        if viol:
            break
        if len(samples) < 3 and len(seen) > 6:
            samples.append(f.serialize()[:200])
    return {"name": "smtlib_export", "bounded": True, "evaluations": n, "distinct_nontrivial": nontriv,
            "rule": "%d generated formulas (depth <= 4, %d distinct operators reached: all theories, quantifiers incl. shadowing, "
                    "uninterpreted sorts and functions, constant arrays, negative / rational constants, strings with quotes, symbol "
                    "names needing quoting incl. let-name look-alikes, shared sub-terms) exported with smtlibscript_from_formula in "
                    "tree and let-DAG form; the text is read by the independent strict reader (every sort and symbol declared "
                    "exactly once before use) and its value compared with the formula's under 6 random interpretations each"
                    % (trials, len(ops_seen)),
            "samples": samples, "violations": viol}


CHECKS = {"smtlib_export": export_check}


def quote_check(tier, seed):
    """utils.quote: every name SMT-LIB can express is spelled so that the standard's lexer reads back one
    symbol with exactly that name; and PySMTType.as_smtlib against the independent sort reader"""
    from pysmt.utils import quote
    from native.bounded import fresh_env
    env = fresh_env()
    alphabet = list("aZ09_.-+!|\\ \"();:#'") + ["é", "\t", "Int", "let"]
    maxlen = 3 if tier == "quick" else 4
    n = nontriv = 0
    viol = []
    for ln in range(1, maxlen + 1):
        for combo in itertools.product(alphabet, repeat=ln):
            name = "".join(combo)
            if "|" in name or "\\" in name:
                continue                     # not expressible as an SMT-LIB symbol at all (stated exclusion)
            if name in R.RESERVED:
                continue
            n += 1
            q = quote(name)
            if q != name:
                nontriv += 1
            try:
                toks = R.tokenize(q)
            except R.SmtError as e:
                viol.append({"key": "quote-illegal", "name": name, "quoted": q, "error": str(e)})
                break
            if len(toks) != 1 or not isinstance(toks[0], R.Sym) or str(toks[0]) != name:
                viol.append({"key": "quote-misread", "name": name, "quoted": q, "read_back": [repr(t) for t in toks]})
                break
        if viol:
            break
    # sorts
    S_, U = Type("S"), Type("U", 1)
    P2 = Type("P", 2)
    sorts = [BOOL, INT, REAL, STRING, BVType(1), BVType(32), S_, U(S_), U(INT), P2(S_, U(INT)), ArrayType(INT, S_),
             ArrayType(BVType(4), ArrayType(INT, BOOL)), ArrayType(U(S_), P2(INT, INT))]
    sig = R.Signature()
    sig.declare_sort(R.Sym("S"), 0)
    sig.declare_sort(R.Sym("U"), 1)
    sig.declare_sort(R.Sym("P"), 2)
    for t in sorts:
        n += 1
        try:
            sx = R.parse_all(t.as_smtlib(funstyle=False))
            got = sig.sort(sx[0]) if len(sx) == 1 else None
        except R.SmtError as e:
            got = "error: %s" % e
        if got != sort_of_type(t):
            viol.append({"key": "sort-spelling", "sort": str(t), "text": t.as_smtlib(funstyle=False), "read_as": repr(got)})
            break
        ft = FunctionType(t, [t, BOOL])
        sx = R.parse_all(ft.as_smtlib(funstyle=True))
        ok = len(sx) == 2 and isinstance(sx[0], list) and len(sx[0]) == 2
        if ok:
            try:
                ok = sig.sort(sx[1]) == sort_of_type(t) and sig.sort(sx[0][0]) == sort_of_type(t) and sig.sort(sx[0][1]) == R.BOOL
            except R.SmtError:
                ok = False
        if not ok:
            viol.append({"key": "signature-spelling", "sort": str(ft), "text": ft.as_smtlib(funstyle=True)})
            break
    return {"name": "quote", "bounded": True, "evaluations": n, "distinct_nontrivial": nontriv, "exhaustive": True,
            "rule": "all names of length <= %d over a %d-character alphabet (letters, digits, punctuation, space, tab, quote, "
                    "parentheses, ';', '#', ':', non-ASCII, sort keywords), except names containing '|' or '\\\\' and reserved "
                    "words: quote(name) must lex (standard's lexer) to one symbol with that name; plus %d sorts / signatures"
                    % (maxlen, len(alphabet), len(sorts)),
            "samples": ["a b", "1x", "Int"], "violations": viol}


CHECKS["quote"] = quote_check
