"""Native replay driver (repository interpreter, PYTHONPATH=/repo:/verif).

usage: replay.py <replay-file.json>        exit 1: violation reproduced on the real code
                                           exit 0: not reproduced
Prints one JSON object with the details."""
import json
import os
import sys
import traceback
import warnings

warnings.simplefilter("ignore")
sys.path.insert(0, os.path.dirname(os.path.dirname(os.path.abspath(__file__))))

import pysmt.operators as op
from pysmt.environment import Environment, push_env, pop_env, get_env

from native import refeval
from native.build import Builder, OPS
from native.gen import Gen


def fresh_env():
    env = Environment()
    env.enable_infix_notation = True
    push_env(env)
    return env


# ---------------------------------------------------------------------------
def check_rule(simp, fname, formula, args, clauses=None):
    """Run one Simplifier callback on concrete inputs; -> None or failure dict"""
    try:
        res = getattr(simp, fname)(formula, args=list(args))
    except Exception as e:
        return {"clause": "no-exception", "exception": "%s: %s" % (type(e).__name__, str(e)[:200])}
    try:
        t0 = formula.get_type()
        t1 = res.get_type()
    except Exception as e:
        return {"clause": "type-preserved", "exception": repr(e)}
    if t0 != t1:
        return {"clause": "type-preserved", "input_type": str(t0), "result_type": str(t1), "result": str(res)}
    extra = refeval.free_symbols(res) - refeval.free_symbols(formula)
    if extra:
        return {"clause": "no-new-free-symbols", "extra": [str(s) for s in extra]}
    d = refeval.equivalent(formula, res, trials=30)
    if d is not None:
        d.update({"clause": "value-preserved", "result": str(res)})
        return d
    if args and all(a.is_constant() for a in args) and not res.is_constant():
        try:
            refeval.evaluate(formula, refeval.Interp())
        except refeval.DivByZero:
            return None
        except refeval.Unsupported:
            return None
        return {"clause": "C02:ground-complete", "result": str(res)}
    return None


def rule_inputs_from_witness(env, w):
    b = Builder(env)
    args = [b.node(a) for a in w["args"]]
    f = dict(w["formula"])
    f["args"] = w["args"]
    f["id"] = "formula!"
    for i, a in enumerate(f["args"]):
        pass
    formula = b._node(f)
    return formula, args


def replay_rule(rep):
    env = fresh_env()
    fname = rep["function"].rsplit(".", 1)[1]
    out = {"mode": "witness"}
    w = rep.get("witness") or {}
    if "op" not in w:
        # no usable counter-model (z3's model evaluation failed): operator from the variant name
        import re
        m = re.search(r"\[([A-Z_0-9]+)/", rep.get("variant") or rep.get("obligation") or "")
        w = {"op": m.group(1) if m else None}
        rep["witness"] = w
    try:
        if "formula" not in w:
            raise ValueError("no counter-model available")
        formula, args = rule_inputs_from_witness(env, rep["witness"])
        out["formula"] = str(formula)
        out["args"] = [str(a) for a in args]
        if OPS[rep["witness"]["op"]] == formula.node_type() and len(formula.args()) == len(args):
            fail = check_rule(env.simplifier, fname, formula, args)
            if fail:
                out["failure"] = fail
                return True, out
    except Exception as e:
        out["build-error"] = "%s: %s" % (type(e).__name__, str(e)[:200])
    # neighbourhood search: same callback, random small inputs of the same operator
    found = search_rule(rep["witness"]["op"], fname, trials=int(rep.get("search_trials", 4000)),
                        seed=int(rep.get("seed", 0)))
    if found:
        found["mode"] = "search"
        return True, found
    out["mode"] = "witness+search: nothing found"
    return False, out


def search_rule(opname, fname, trials=4000, seed=0):
    """Random inputs for one operator: formula = op(children), args = simplified children."""
    env = fresh_env()
    g = Gen(env, seed=seed, consts_bias=0.8)
    code = OPS[opname]
    simp = env.simplifier
    n = 0
    attempts = 0
    while n < trials and attempts < trials * 30:
        attempts += 1
        ty = g.any_type()
        try:
            f = g.term(ty, 2)
        except Exception:
            continue
        # collect sub-terms with the wanted operator
        stack, seen = [f], set()
        while stack:
            x = stack.pop()
            if x in seen:
                continue
            seen.add(x)
            stack.extend(x.args())
            if x.node_type() == code:
                n += 1
                try:
                    args = [simp.simplify(c) for c in x.args()]
                except Exception as e:
                    return {"failure": {"clause": "no-exception", "exception": repr(e)}, "formula": str(x)}
                fail = check_rule(simp, fname, x, args)
                if fail:
                    return {"failure": fail, "formula": str(x), "args": [str(a) for a in args]}
    return None


# ---------------------------------------------------------------------------
HANDLERS = {"simplifier-rule": replay_rule}


def main():
    rep = json.load(open(sys.argv[1]))
    kind = rep.get("kind")
    try:
        if kind in HANDLERS:
            ok, detail = HANDLERS[kind](rep)
        else:
            from native import replay_more
            ok, detail = replay_more.dispatch(rep)
    except Exception:
        print(json.dumps({"confirmed": False, "error": traceback.format_exc()}))
        return 0
    print(json.dumps({"confirmed": bool(ok), "detail": detail}, default=str))
    return 1 if ok else 0


if __name__ == "__main__":
    sys.exit(main())
