"""Bounded stand-ins added in the third round (labelled bounded, never counted as proved):
  oracles     C12  the formula analyses against reference definitions written from the property text
  partitions  C20  work of conjunctive / disjunctive_partition on shared conjunctions
  sorts       C03  declared sorts vs built-in sorts; parser_reset C08/C09/C14/C15"""
import random
from pysmt.typing import FunctionType
import warnings

from pysmt.typing import BOOL, INT, REAL, BVType, ArrayType, STRING, Type
import pysmt.operators as op

from native import refeval
from native.gen import Gen


def _nodes(f):
    seen, st = {}, [f]
    while st:
        x = st.pop()
        if id(x) in seen:
            continue
        seen[id(x)] = x
        st.extend(x.args())
        if x.is_function_application():
            pass
    return list(seen.values())


BOOL_CONNECTIVES = (op.AND, op.OR, op.NOT, op.IMPLIES, op.IFF)
RELATIONS = (op.EQUALS, op.LE, op.LT, op.BV_ULE, op.BV_ULT, op.BV_SLT, op.BV_SLE, op.STR_CONTAINS, op.STR_PREFIXOF, op.STR_SUFFIXOF)


def ref_atoms(f):
    """Boolean sub-formulas that are not Boolean connectives / quantifiers / Boolean ITE / constants, found by descending
    through the Boolean structure only"""
    out, seen, st = set(), set(), [f]
    while st:
        x = st.pop()
        if x in seen:
            continue
        seen.add(x)
        t = x.node_type()
        if t in BOOL_CONNECTIVES or t in (op.FORALL, op.EXISTS):
            st.extend(x.args())
        elif t == op.ITE and refeval.type_of(x).is_bool_type():
            st.extend(x.args())
        elif t == op.BOOL_CONSTANT:
            continue
        elif refeval.type_of(x).is_bool_type():
            out.add(x)       # an atom: its truth value is one input of the Boolean structure (Boolean terms inside it belong to it)
    return out


def tree_size(f, memo):
    if f not in memo:
        memo[f] = 1 + sum(tree_size(a, memo) for a in f.args())
    return memo[f]


def leaves(f, memo):
    if f not in memo:
        memo[f] = 1 if not f.args() else sum(leaves(a, memo) for a in f.args())
    return memo[f]


def depth(f, memo):
    if f not in memo:
        memo[f] = 1 + (max(depth(a, memo) for a in f.args()) if f.args() else 0)
    return memo[f]


def oracles_check(tier, seed):
    from native.bounded import fresh_env
    from pysmt.oracles import SizeOracle
    rng = random.Random(seed)
    trials = 150 if tier == "quick" else 2500
    env = fresh_env()
    m = env.formula_manager
    g = Gen(env, seed=seed, widths=(1, 2, 8))
    viol, samples = [], []
    n = nontriv = 0
    so = env.sizeo
    M = SizeOracle
    # corner family: literals / constants / arrays whose children are all constants, quantifiers with unused binders, Boolean ITE
    a, b, c = m.Symbol("oa", BOOL), m.Symbol("ob", BOOL), m.Symbol("oc", BOOL)
    x = m.Symbol("ox", INT)
    corner = [m.Array(INT, m.Int(0)), m.Array(INT, m.Int(0), {m.Int(1): m.Int(2)}),
              m.Equals(m.Select(m.Array(INT, m.Array(INT, m.Int(0))), m.Int(1)), m.Array(INT, m.Int(3))),
              m.Ite(c, a, b), m.Not(m.Ite(c, a, b)), m.Iff(m.Ite(c, a, b), a), m.ForAll([x], a), m.Exists([x], m.LT(x, m.Int(1))),
              m.Equals(m.Ite(c, x, m.Int(0)), m.Int(1)), m.TRUE(), m.And(m.TRUE(), a), m.Int(3), m.Plus(x, m.Int(1))]
    forms = list(corner)
    for t in range(trials):
        try:
            forms.append(g.term(rng.choice([BOOL, BOOL, BOOL, INT, BVType(2), ArrayType(INT, INT)]), rng.randint(1, 4)))
        except Exception:
            continue
    for f in forms:
        n += 1
        if f.args():
            nontriv += 1
        nodes = _nodes(f)
        try:
            fv = f.get_free_variables()
            want_fv = refeval.free_symbols(f)
            if set(fv) != set(want_fv):
                viol.append({"key": "free-variables", "formula": f.serialize(), "got": sorted(map(str, fv)), "want": sorted(map(str, want_fv))})
                break
            if refeval.type_of(f).is_bool_type():
                at = f.get_atoms()
                want_at = ref_atoms(f)
                # the atoms determine the value: every reported atom is a Boolean non-connective sub-formula, and none is missing
                if set(at) != set(want_at):
                    viol.append({"key": "atoms", "formula": f.serialize(), "got": sorted(map(str, at)), "want": sorted(map(str, want_at))})
                    break
            qf = env.qfo.is_qf(f)
            if qf != (not any(z.is_quantifier() for z in nodes)):
                viol.append({"key": "quantifier-free", "formula": f.serialize(), "got": qf})
                break
            got = {"tree": so.get_size(f, M.MEASURE_TREE_NODES), "dag": so.get_size(f, M.MEASURE_DAG_NODES),
                   "leaves": so.get_size(f, M.MEASURE_LEAVES), "depth": so.get_size(f, M.MEASURE_DEPTH),
                   "symbols": so.get_size(f, M.MEASURE_SYMBOLS)}
            want = {"tree": tree_size(f, {}), "dag": len(nodes), "leaves": leaves(f, {}), "depth": depth(f, {}),
                    "symbols": len([z for z in nodes if z.is_symbol()])}
            if got != want:
                viol.append({"key": "size", "formula": f.serialize(), "got": got, "want": want})
                break
        except Exception as e:
            viol.append({"key": "oracle-exception", "formula": f.serialize(), "error": repr(e)[:200]})
            break
        if len(samples) < 3 and len(nodes) > 6:
            samples.append(f.serialize()[:160])
    return {"name": "oracles", "bounded": True, "evaluations": n, "distinct_nontrivial": nontriv,
            "rule": "%d corner cases (constant arrays, Boolean ITE in both positions, quantifiers with unused binders, constants) and "
                    "%d generated formulas: free symbols, atoms, quantifier-freeness and the five size measures compared with "
                    "reference definitions written from their documentation" % (len(corner), trials),
            "samples": samples, "violations": viol}


def partitions_work(tier, seed):
    """shared conjunctions / disjunctions: 5N+1 distinct nodes, 2^N as a tree; children look-ups are counted"""
    from native.bounded import fresh_env
    from pysmt.rewritings import conjunctive_partition, disjunctive_partition
    import pysmt.fnode
    env = fresh_env()
    m = env.formula_manager
    N = 18 if tier == "quick" else 60
    viol = []
    n = 0
    for name, fn, mk in (("conjunctive_partition", conjunctive_partition, m.And), ("disjunctive_partition", disjunctive_partition, m.Or)):
        f = m.Symbol("w0")
        for i in range(N):
            f = mk(mk(f, m.Symbol("wx%d" % i)), mk(f, m.Symbol("wy%d" % i)))
        distinct = len(_nodes(f))
        calls = [0]
        orig = pysmt.fnode.FNode.args

        def counting(self, _orig=orig):
            calls[0] += 1
            if calls[0] > 50 * distinct:
                raise RuntimeError("work bound exceeded")
            return _orig(self)
        pysmt.fnode.FNode.args = counting
        try:
            try:
                got = list(fn(f))
            finally:
                pysmt.fnode.FNode.args = orig
        except RuntimeError:
            viol.append({"key": "partition-work", "function": name, "distinct_nodes": distinct, "children_lookups": "> %d" % (50 * distinct)})
            break
        n += 1
        if len(got) != 2 * N + 1 or len(set(got)) != len(got):
            viol.append({"key": "partition-result", "function": name, "yielded": len(got), "want": 2 * N + 1})
            break
    return {"name": "partitions", "bounded": True, "evaluations": n, "distinct_nontrivial": n,
            "rule": "conjunction / disjunction with shared halves, depth %d (tree size 2^%d): children look-ups at most 50 x distinct nodes, "
                    "each leaf yielded once" % (N, N), "samples": ["f_{i+1} = (f_i op x_i) op (f_i op y_i)"], "violations": viol}


def sorts_check(tier, seed):
    from native.bounded import fresh_env
    env = fresh_env()
    m = env.formula_manager
    viol = []
    n = 0
    builtin = {"Bool": BOOL, "Int": INT, "Real": REAL, "String": STRING}
    for name, bt in builtin.items():
        n += 1
        d = Type(name)
        if d == bt or bt == d or hash(d) == hash(bt) and d == bt:
            viol.append({"key": "declared-sort-equals-built-in", "name": name})
            break
        c = m.Symbol("c_" + name, d)
        k = {"Bool": m.TRUE(), "Int": m.Int(1), "Real": m.Real(1), "String": m.String("a")}[name]
        try:
            m.Equals(c, k) if name != "Bool" else m.Iff(c, k)
            viol.append({"key": "declared-sort-accepted-as-built-in", "name": name})
            break
        except Exception:
            pass
    for a in builtin:
        for b in builtin:
            n += 1
            if (builtin[a] == builtin[b]) != (a == b):
                viol.append({"key": "built-in-sorts", "pair": [a, b]})
    if Type("SortA") != Type("SortA") or Type("SortA") == Type("SortB"):
        viol.append({"key": "declared-sorts-by-name"})
    # a non-positive bit-vector width is refused every time it is asked for
    from pysmt.typing import BVType as _BVT
    for w in (0, -1, 0, -1):
        n += 1
        try:
            _BVT(w)
            viol.append({"key": "non-positive-bit-vector-width-accepted", "width": w})
            break
        except Exception:
            pass
    # a sort constructor of arity n has instances on exactly n argument sorts
    from pysmt.typing import PySMTType, _TypeDecl
    for nn in (0, 1, 2):
        for kk in (0, 1, 2):
            for args in ((INT, BOOL)[:kk], list((INT, BOOL)[:kk])) + ((None,) if kk == 0 else ()):
                n += 1
                d_ = _TypeDecl("Ctor%d" % nn, nn)
                d_.set_custom_type_flag()
                try:
                    PySMTType(decl=d_, args=args)
                    made = True
                except Exception:
                    made = False
                if made != (nn == kk):
                    viol.append({"key": "sort-instance-of-the-wrong-arity", "declared": nn, "given": kk, "accepted": made})
                    break
    # composite sorts: equal exactly when every component is, never across families (compared through the classes' own __eq__:
    # objects made directly, not through the interning tables)
    from pysmt.typing import _FunctionType, _ArrayType, _BVType
    base = [INT, REAL, BOOL]
    comps = [("function", (r_, (p_,))) for r_ in base for p_ in base] + [("function", (INT, (INT, INT)))] + \
            [("array", (i_, e_)) for i_ in base for e_ in base] + [("bv", (w_,)) for w_ in (1, 2, 8)]
    mk = {"function": lambda c: _FunctionType(c[0], list(c[1])), "array": lambda c: _ArrayType(c[0], c[1]), "bv": lambda c: _BVType(c[0])}
    for fa, ca in comps:
        for fb, cb in comps:
            n += 1
            x_, y_ = mk[fa](ca), mk[fb](cb)
            same = (fa, ca) == (fb, cb)
            if (x_ == y_) != same or (same and hash(x_) != hash(y_)):
                viol.append({"key": "composite-sorts", "left": str(x_), "right": str(y_), "equal": bool(x_ == y_), "expected": same})
                break
        if viol:
            break
    if not viol:
        f1, f2 = m.Symbol("fs_int", FunctionType(INT, [INT])), m.Symbol("fs_real", FunctionType(REAL, [INT]))
        try:
            m.Equals(f1, f2)
            viol.append({"key": "function-symbols-of-different-sorts-equated", "left": str(f1.symbol_type()), "right": str(f2.symbol_type())})
        except Exception:
            pass
    return {"name": "sorts", "bounded": True, "evaluations": n, "distinct_nontrivial": n, "exhaustive": True,
            "rule": "sorts declared under the name of each built-in sort vs the built-in sort (equality, use in Equals); the built-in sorts pairwise; function / array / bit-vector sorts over Int, Real, Bool pairwise (equal exactly when all components are)",
            "samples": ["Type('Int') vs INT"], "violations": viol}


def parser_reset_check(tier, seed):
    """a parser that has read a script (logic, bindings, definitions, invented variables) reads the next like a new one"""
    from io import StringIO
    from native.bounded import fresh_env
    from pysmt.smtlib.parser import SmtLibParser
    env = fresh_env()
    viol = []
    first = ["(set-logic QF_LRA)\n(declare-fun r () Real)\n(define-fun d ((x Real)) Bool (< x 1))\n(assert (d r))\n(assert (< r 1))\n",
             "(set-logic QF_LIA)\n(declare-fun i () Int)\n(assert (let ((z (+ i 1))) (< z 2)))\n",
             "(declare-fun b () Bool)\n(assert (forall ((y Int)) (or b (< y 1))))\n"]
    second = ["(declare-fun i () Int)\n(declare-fun j () Int)\n(assert (and (< i 1) (<= (+ i j) 7)))\n",
              "(declare-fun d () Bool)\n(assert d)\n", "(declare-fun r () Real)\n(assert (< r 1))\n"]
    n = 0
    with warnings.catch_warnings():
        warnings.simplefilter("ignore")
        for a in first:
            for b in second:
                n += 1
                p = SmtLibParser(env)
                p.get_script(StringIO(a))
                try:
                    used = p.get_script(StringIO(b)).get_last_formula()
                except Exception as e:
                    used = "exception: %r" % (e,)
                try:
                    new = SmtLibParser(env).get_script(StringIO(b)).get_last_formula()
                except Exception as e:
                    new = "exception: %r" % (e,)
                if used is not new and str(used) != str(new):
                    viol.append({"key": "used-parser-differs", "first": a, "second": b, "used": str(used), "new": str(new)})
                    break
            if viol:
                break
    return {"name": "parser_reset", "bounded": True, "evaluations": n, "distinct_nontrivial": n,
            "rule": "3 first scripts (pure real logic, definitions, let, quantifier) x 3 second scripts read by the same parser object vs a new one",
            "samples": [first[0] + " ; then ; " + second[0]], "violations": viol}


CHECKS = {"oracles": oracles_check, "partitions": partitions_work, "sorts": sorts_check, "parser_reset": parser_reset_check}


def interpretations_check(tier, seed):
    """substitute(f, interpretations={g: lambda formals. body}): the result has, under every interpretation of the symbols, the
    value of f with g read as that function (the actual arguments may mention symbols named like the formal parameters)"""
    import itertools
    from native.bounded import fresh_env
    from pysmt.typing import FunctionType
    from pysmt.substituter import FunctionInterpretation
    rng = random.Random(seed)
    env = fresh_env()
    m = env.formula_manager
    x, y, z = m.Symbol("ix", INT), m.Symbol("iy", INT), m.Symbol("iz", INT)
    g2 = m.Symbol("g2", FunctionType(INT, [INT, INT]))
    g1 = m.Symbol("g1", FunctionType(INT, [INT]))
    bodies2 = [m.Minus(x, y), m.Plus(m.Times(m.Int(2), x), y), m.Ite(m.LT(x, y), x, y), y, m.Minus(y, x)]
    bodies1 = [m.Plus(x, m.Int(1)), m.Times(x, x), m.Int(3)]
    terms = [x, y, z, m.Plus(y, m.Int(2)), m.Plus(x, y), m.Int(1), m.Minus(z, x)]
    viol, samples = [], []
    n = 0
    trials = 150 if tier == "quick" else 1500
    for t in range(trials):
        b2, b1 = rng.choice(bodies2), rng.choice(bodies1)
        a, b, c = rng.choice(terms), rng.choice(terms), rng.choice(terms)
        inner = m.Function(g2, [a, b])
        f = rng.choice([m.LE(inner, c), m.Equals(m.Function(g2, [inner, m.Function(g1, [c])]), b),
                        m.LT(m.Function(g1, [m.Function(g2, [b, a])]), m.Plus(c, inner))])
        interp = {g2: FunctionInterpretation([x, y], b2), g1: FunctionInterpretation([x], b1)}
        n += 1
        try:
            r = f.substitute({}, interpretations=interp)
        except Exception as e:
            viol.append({"key": "interpretation-exception", "formula": f.serialize(), "error": repr(e)[:200]})
            break
        if any(nd.is_function_application() for nd in _nodes(r)):
            viol.append({"key": "interpretation-left-an-application", "formula": f.serialize(), "result": r.serialize()})
            break

        def fun2(u, v, b2=b2):
            return refeval.evaluate(b2, refeval.Interp(values={x: u, y: v}))

        def fun1(u, b1=b1):
            return refeval.evaluate(b1, refeval.Interp(values={x: u}))
        for vals in itertools.product((-1, 0, 2), repeat=3):
            I = dict(zip((x, y, z), vals))
            want = refeval.evaluate(f, refeval.Interp(values=dict(I), funcs={g2: fun2, g1: fun1}))
            got = refeval.evaluate(r, refeval.Interp(values=dict(I)))
            if want != got:
                viol.append({"key": "interpretation-value", "formula": f.serialize(), "g2": "(ix, iy) -> " + b2.serialize(),
                             "g1": "(ix) -> " + b1.serialize(), "result": r.serialize(),
                             "interpretation": {str(k): v for k, v in I.items()}, "want": want, "got": got})
                break
        if viol:
            break
        if len(samples) < 2:
            samples.append(f.serialize())
    return {"name": "interpretations", "bounded": True, "evaluations": n, "distinct_nontrivial": n,
            "rule": "%d formulas with nested applications of a binary and a unary function whose arguments mention symbols named like "
                    "the formal parameters; result of substitute(interpretations=...) evaluated at 27 points against the formula "
                    "with the functions read as given" % trials, "samples": samples, "violations": viol}


CHECKS["interpretations"] = interpretations_check


def cross_env_keys(tier, seed):
    """memo keys of the read-only services: formulas of a second environment whose node ids coincide with formulas already
    queried in the first are asked through the FIRST environment's services; the answers must be those of the formula asked"""
    from pysmt.environment import Environment
    from pysmt.oracles import SizeOracle
    rng = random.Random(seed)
    viol = []
    n = 0
    for t in range(20 if tier == "quick" else 200):
        A, Bv = Environment(), Environment()
        ma, mb = A.formula_manager, Bv.formula_manager
        fa, fb = [], []
        # same construction order, different sorts / shapes -> same ids, different formulas
        xa, ya = ma.Symbol("s0", INT), ma.Symbol("s1", INT)
        xb, yb = mb.Symbol("s0", REAL), mb.Symbol("s1", BOOL)
        fa += [xa, ya, ma.Plus(xa, ya), ma.LT(xa, ya), ma.And(ma.LT(xa, ya), ma.LE(ya, xa))]
        fb += [xb, yb, mb.Times(xb, xb), mb.ForAll([xb], yb), mb.Or(yb, mb.LT(xb, mb.Real(1)))]
        for a, b in zip(fa, fb):
            n += 1
            obs = []
            for env_ in (A,):
                env_.stc.get_type(a), env_.qfo.is_qf(a), env_.fvo.get_free_variables(a), env_.sizeo.get_size(a, SizeOracle.MEASURE_DAG_NODES)
            got = (str(A.stc.get_type(b)), A.qfo.is_qf(b), sorted(map(str, A.fvo.get_free_variables(b))), A.sizeo.get_size(b, SizeOracle.MEASURE_DAG_NODES))
            want = (str(Bv.stc.get_type(b)), Bv.qfo.is_qf(b), sorted(map(str, Bv.fvo.get_free_variables(b))), Bv.sizeo.get_size(b, SizeOracle.MEASURE_DAG_NODES))
            if got != want:
                viol.append({"key": "answer-of-another-formula", "formula": str(b), "node_id": b.node_id(), "asked_before": str(a),
                             "got": got, "want": want})
                break
        if viol:
            break
    return {"name": "cross_env_keys", "bounded": True, "evaluations": n, "distinct_nontrivial": n,
            "rule": "pairs of formulas with equal node ids in two environments: type, quantifier-freeness, free symbols and size of the "
                    "second asked through the first environment's services after the first was asked", "samples": ["s0:Int in A vs s0:Real in B"],
            "violations": viol}


CHECKS["cross_env_keys"] = cross_env_keys


def annotations_check(tier, seed):
    """(! t a1 .. an) for every mix of bare, valued and list-valued attributes up to n = 3: the annotations recorded for the term
    are exactly each attribute with its own value (a bare attribute has none)"""
    import itertools
    from io import StringIO
    from native.bounded import fresh_env
    from pysmt.smtlib.parser import SmtLibParser
    viol = []
    n = 0
    for k in (1, 2, 3):
        for shape in itertools.product((0, 1, 2), repeat=k):
            env = fresh_env()
            attrs, want = [], {}
            for i, s in enumerate(shape):
                kw = "attr%d" % i
                if s == 0:
                    attrs.append(":" + kw)
                    want[kw] = set()
                elif s == 1:
                    attrs.append(":%s val%d" % (kw, i))
                    want[kw] = {"val%d" % i}
                else:
                    attrs.append(":%s (x%d (y))" % (kw, i))
                    want[kw] = {"(x%d(y))" % i}
            text = "(declare-fun p () Bool)\n(assert (! p %s))\n" % " ".join(attrs)
            n += 1
            try:
                with warnings.catch_warnings():
                    warnings.simplefilter("ignore")
                    sc = SmtLibParser(env).get_script(StringIO(text))
                p = env.formula_manager.get_symbol("p")
                got = sc.annotations[p] or {}
                got = {a: {str(v).replace(" ", "") for v in vs if v is not None} for a, vs in got.items()}
            except Exception as e:
                viol.append({"key": "annotation-exception", "text": text, "error": repr(e)[:200]})
                break
            if got != want:
                viol.append({"key": "annotation-values", "text": text, "got": {a: sorted(v) for a, v in got.items()},
                             "want": {a: sorted(v) for a, v in want.items()}})
                break
        if viol:
            break
    return {"name": "annotations", "bounded": True, "evaluations": n, "distinct_nontrivial": n, "exhaustive": True,
            "rule": "every mix of bare / valued / list-valued attributes on one term, 1-3 attributes (39 scripts)",
            "samples": ["(! p :attr0 val0 :attr1)"], "violations": viol}


CHECKS["annotations"] = annotations_check


def factory_check(tier, seed):
    """objects created by name through the factory are configured with a logic their class declares, and it covers the request"""
    from native.bounded import fresh_env
    from pysmt.logics import QF_BOOL, BOOL, get_closer_logic
    env = fresh_env()
    viol = []
    n = 0
    for name in ("shannon", "selfsub"):
        for req in (QF_BOOL, BOOL, "QF_BOOL", None):
            n += 1
            try:
                qe = env.factory.QuantifierEliminator(name=name, logic=req)
            except Exception as e:
                viol.append({"key": "factory-exception", "name": name, "logic": str(req), "error": repr(e)[:200]})
                continue
            sup = list(type(qe).LOGICS)
            if qe.logic not in sup:
                viol.append({"key": "created-with-undeclared-logic", "name": name, "requested": str(req), "got": str(qe.logic),
                             "declared": [str(x) for x in sup]})
            elif req is not None and qe.logic != get_closer_logic(sup, req if not isinstance(req, str) else QF_BOOL):
                viol.append({"key": "not-the-closest-logic", "name": name, "requested": str(req), "got": str(qe.logic)})
    # which registered solvers are offered for a logic: exactly those one of whose declared logics covers it (theory and quantifiers)
    from pysmt.logics import LOGICS as ALL_LOGICS, QF_LIA, QF_UFLIA, LIA, UFLIRA, QF_BV
    regs = {"qf-only": [QF_LIA, QF_UFLIA], "quantified": [LIA, UFLIRA], "bits": [QF_BV]}
    for nm, lg in regs.items():
        env.factory.add_generic_solver(nm, ["/bin/false"], list(lg))
    for req in ALL_LOGICS:
        n += 1
        offered = set(env.factory.all_solvers(logic=req)) & set(regs)
        want = {nm for nm, lg in regs.items() if any(req <= l for l in lg)}
        if offered != want:
            viol.append({"key": "solvers-offered-for-a-logic", "logic": str(req), "offered": sorted(offered), "covering": sorted(want),
                         "registered": {k: [str(x) for x in v] for k, v in regs.items()}})
            break
    return {"name": "factory", "bounded": True, "evaluations": n, "distinct_nontrivial": n, "exhaustive": True,
            "rule": "the two in-process quantifier eliminators created by name with QF_BOOL / BOOL / 'QF_BOOL' / no logic; three registered text-interface solvers (quantifier-free only, quantified, bit-vectors) offered for each named logic",
            "samples": ["QuantifierEliminator(name='shannon', logic=QF_BOOL)"], "violations": viol}


CHECKS["factory"] = factory_check


def declarations_check(tier, seed):
    """a malformed declaration / definition command (a stray token where it must close, cut short, ill-sorted body) is rejected
    and leaves nothing behind: the environment has no new symbol (names invented for parameters aside) and the same parser
    reads a following well-formed script - which uses the name with another sort - exactly as a new parser in a new environment"""
    from io import StringIO
    from native.bounded import fresh_env
    from pysmt.smtlib.parser import SmtLibParser
    bad = ["(declare-const k Int oops)", "(declare-const k Int", "(declare-const k (Array Int Int) ())",
           "(declare-fun k () Int oops)", "(declare-fun k (Int) Int oops)", "(declare-fun k () Int", "(declare-fun k (Int Bool) Int (",
           "(define-fun k () Int 1 oops)", "(define-fun k () Int true)", "(define-fun k ((a Int)) Int (+ a 1) a)",
           "(declare-sort K 0 oops)", "(define-sort K () Int oops)"]
    good = ["(declare-fun k () Real)\n(assert (< k 1.5))\n", "(declare-const k Bool)\n(assert (not k))\n",
            "(define-fun k ((a Real)) Bool (< a 2.0))\n(assert (k 1.0))\n",
            "(declare-sort K 1)\n(declare-fun s () (K Int))\n(declare-fun t () (K Int))\n(assert (= s t))\n"]
    viol, samples = [], []
    n = 0
    with warnings.catch_warnings():
        warnings.simplefilter("ignore")
        for b in bad:
            for pre in ("", "(declare-fun other () Int)\n(assert (< other 3))\n"):
                for g in good:
                    env = fresh_env()
                    p = SmtLibParser(env)
                    if pre:
                        p.get_script(StringIO(pre))
                    before = set(env.formula_manager.symbols)
                    n += 1
                    try:
                        p.get_script(StringIO(pre + b))
                        viol.append({"key": "malformed-command-accepted", "script": pre + b})
                        break
                    except Exception as e:
                        err = type(e).__name__
                    left = sorted(s for s in set(env.formula_manager.symbols) - before if not s.startswith("__"))
                    if left:
                        viol.append({"key": "failed-command-left-a-symbol", "script": pre + b, "error": err, "symbols": left})
                        break
                    try:
                        used = str(p.get_script(StringIO(g)).get_last_formula())
                    except Exception as e:
                        used = "exception: %r" % (e,)
                    try:
                        new = str(SmtLibParser(fresh_env()).get_script(StringIO(g)).get_last_formula())
                    except Exception as e:
                        new = "exception: %r" % (e,)
                    if used != new:
                        viol.append({"key": "later-script-reads-differently-after-a-failed-command", "failed": pre + b, "then": g,
                                     "after_failure": used, "new_parser_new_environment": new})
                        break
                if viol:
                    break
            if viol:
                break
    return {"name": "declarations", "bounded": True, "evaluations": n, "distinct_nontrivial": n,
            "rule": "%d malformed declaration / definition commands (alone and after a well-formed prefix) x %d following scripts" % (len(bad), len(good)),
            "samples": [bad[0] + " ; then ; " + good[0]], "violations": viol}


CHECKS["declarations"] = declarations_check


def registration_check(tier, seed):
    """Factory.add_generic_solver: a new name is recorded with its arguments and logics and offered for the logics it covers; a
    second registration under a taken name is refused and changes nothing that a later call can see"""
    from native.bounded import fresh_env
    from pysmt.logics import QF_UFLIRA, UFLIRA, QF_LIA, QF_BV, QF_BOOL
    from pysmt.exceptions import SolverRedefinitionError
    viol = []
    n = 0
    for first, second in ((([QF_UFLIRA, UFLIRA], ["/bin/one", "-a"]), ([QF_BV], ["/bin/two"])),
                          (([QF_BV], ["/bin/one"]), ([QF_UFLIRA], ["/bin/two", "-x", "-y"]))):
        for cores in (False, True):
            env = fresh_env()
            fac = env.factory
            n += 1
            fac.add_generic_solver("generic-one", list(first[1]), list(first[0]), unsat_core_support=cores)
            seen = lambda: {"info": (list(fac.get_generic_solver_info("generic-one")[0]), list(fac.get_generic_solver_info("generic-one")[1])),
                            "is_generic": fac.is_generic_solver("generic-one"),
                            "logics_of_class": list(fac.all_solvers()["generic-one"].LOGICS) if "generic-one" in fac.all_solvers() else None,
                            "offered_for": [str(l) for l in (QF_LIA, QF_BV, QF_BOOL) if "generic-one" in fac.all_solvers(logic=l)],
                            "preferences": list(fac.preferences["Solver"]),
                            "core_preferences": list(fac.preferences.get("Solver supporting Unsat Cores", []))}
            before = seen()
            if before["info"] != (list(first[1]), list(first[0])) or before["logics_of_class"] != list(first[0]):
                viol.append({"key": "registration-not-recorded-as-given", "given": [first[1], [str(l) for l in first[0]]], "seen": str(before)})
                break
            try:
                fac.add_generic_solver("generic-one", list(second[1]), list(second[0]), unsat_core_support=not cores)
                viol.append({"key": "taken-name-accepted", "name": "generic-one"})
                break
            except SolverRedefinitionError:
                pass
            after = seen()
            if after != before:
                viol.append({"key": "refused-registration-left-a-trace", "before": str(before), "after": str(after)})
                break
        if viol:
            break
    return {"name": "registration", "bounded": True, "evaluations": n, "distinct_nontrivial": n,
            "rule": "2 pairs of (logics, command line) x unsat-core flag: register, then a refused second registration under the same name",
            "samples": ["add_generic_solver('generic-one', ['/bin/one', '-a'], [QF_UFLIRA, UFLIRA]) ; then the same name again with ['/bin/two'], [QF_BV]"],
            "violations": viol}


CHECKS["registration"] = registration_check


def plural_model_check(tier, seed):
    """Model.get_values / get_py_values answer, for each formula of the list, what get_value / get_py_value answers for it with
    the same completion flag - on total and on partial models, with and without completion (an error of the single call is
    an error of the plural one)"""
    from native.bounded import fresh_env
    from pysmt.solvers.eager import EagerModel
    env = fresh_env()
    m = env.formula_manager
    x, y = m.Symbol("px", INT), m.Symbol("py", INT)
    p, b = m.Symbol("pp", BOOL), m.Symbol("pb", BVType(4))
    forms = [x, m.Plus(x, m.Int(1)), m.Plus(x, y), y, p, m.And(p, m.Equals(x, m.Int(5))), b, m.BVAdd(b, m.BV(1, 4)), m.LT(x, y)]
    models = [{x: m.Int(5)}, {x: m.Int(5), y: m.Int(-2)}, {}, {x: m.Int(5), y: m.Int(0), p: m.TRUE(), b: m.BV(3, 4)}]
    viol = []
    n = 0

    def attempt(fn):
        try:
            return ("value", fn())
        except Exception as e:
            return ("error", type(e).__name__)
    for asg in models:
        for f in forms:
            for g in forms[:3]:
                for mc in (True, False):
                    for plural, single in (("get_values", "get_value"), ("get_py_values", "get_py_value")):
                        n += 1
                        one = [attempt(lambda h=h: getattr(EagerModel(dict(asg), env), single)(h, model_completion=mc)) for h in (g, f)]
                        for how in ("keyword", "positional"):
                            mdl = EagerModel(dict(asg), env)
                            many = attempt((lambda: getattr(mdl, plural)([g, f], model_completion=mc)) if how == "keyword"
                                           else (lambda: getattr(mdl, plural)([g, f], mc)))
                            if any(k == "error" for k, _ in one):
                                ok = many[0] == "error"
                            else:
                                ok = many[0] == "value" and many[1].get(g) == one[0][1] and many[1].get(f) == one[1][1]
                            if not ok:
                                viol.append({"key": "plural-call-differs-from-the-single-calls", "method": plural, "completion": mc, "passed": how,
                                             "assignment": {str(k): str(v) for k, v in asg.items()}, "formulae": [str(g), str(f)],
                                             "single_calls": str(one), "plural_call": str(many)})
                                break
                        if viol:
                            break
                    if viol:
                        break
                if viol:
                    break
            if viol:
                break
        if viol:
            break
    return {"name": "plural_model", "bounded": True, "evaluations": n, "distinct_nontrivial": n,
            "rule": "4 assignments (empty, partial, total) x 9 x 3 formulae x completion on/off x get_values / get_py_values, flag by keyword and by position",
            "samples": ["EagerModel({px: 5}).get_values([px, (px + py)], model_completion=False)"], "violations": viol}


CHECKS["plural_model"] = plural_model_check
