"""More bounded stand-ins / native confirmations."""
import itertools
import random

import pysmt.operators as op
from pysmt.environment import Environment, push_env
from pysmt.typing import BOOL, INT, REAL, STRING, BVType, ArrayType, FunctionType, Type

from native import refeval
from native.gen import Gen


def fresh_env():
    env = Environment()
    env.enable_infix_notation = True
    push_env(env)
    return env


# ---------------------------------------------------------------------------
# C13
# ---------------------------------------------------------------------------
MONO = ["arrays", "arrays_const", "bit_vectors", "floating_point", "integer_arithmetic", "real_arithmetic",
        "uninterpreted", "custom_type", "strings"]


def t_le(a, b):
    if any(getattr(a, f) and not getattr(b, f) for f in MONO):
        return False
    if b.linear and not a.linear:
        return False
    if b.integer_difference and not (a.integer_difference or not a.integer_arithmetic):
        return False
    if b.real_difference and not (a.real_difference or not a.real_arithmetic):
        return False
    return True


def l_le(a, b):
    return t_le(a.theory, b.theory) and (a.quantifier_free or not b.quantifier_free)


def needs_of_type(t, need):
    if t.is_int_type():
        need.add("integer_arithmetic")
    elif t.is_real_type():
        need.add("real_arithmetic")
    elif t.is_bv_type():
        need.add("bit_vectors")
    elif t.is_string_type():
        need.add("strings")
    elif t.is_array_type():
        need.add("arrays")
        needs_of_type(t.index_type, need)
        needs_of_type(t.elem_type, need)
    elif t.is_function_type():
        need.add("uninterpreted")
        needs_of_type(t.return_type, need)
        for p in t.param_types:
            needs_of_type(p, need)
    elif t.is_custom_type():
        need.add("custom_type")


def needs(f):
    """features a formula uses (independent of pysmt/oracles.py)"""
    need, nonlinear, nondiff, quant = set(), False, False, False
    seen, stack = set(), [f]
    while stack:
        n = stack.pop()
        if n in seen:
            continue
        seen.add(n)
        stack.extend(n.args())
        nt = n.node_type()
        needs_of_type(n.get_type(), need) if nt != op.POW else None
        if nt == op.SYMBOL:
            needs_of_type(n.symbol_type(), need)
        if nt == op.FUNCTION:
            need.add("uninterpreted")
            needs_of_type(n.function_name().symbol_type(), need)
        if nt in (op.FORALL, op.EXISTS):
            quant = True
            for v in n.quantifier_vars():
                needs_of_type(v.symbol_type(), need)
        if nt == op.ARRAY_VALUE:
            need.update(["arrays", "arrays_const"])
            needs_of_type(n.array_value_index_type(), need)
        if nt in (op.PLUS, op.TIMES, op.DIV):
            nondiff = True
        if nt == op.TIMES and sum(1 for a in n.args() if refeval.free_symbols(a)) > 1:
            nonlinear = True
        if nt == op.DIV and refeval.free_symbols(n.arg(1)):
            nonlinear = True
        if nt == op.POW:
            nonlinear = True
        if nt == op.TOREAL:
            need.update(["integer_arithmetic", "real_arithmetic"])
    return need, nonlinear, nondiff, quant


def covers(logic, f):
    need, nonlinear, nondiff, quant = needs(f)
    t = logic.theory
    miss = [x for x in need if not getattr(t, x)]
    if nonlinear and t.linear:
        miss.append("non-linear")
    if nondiff and t.linear and (t.integer_difference or t.real_difference):
        miss.append("beyond difference logic")
    if quant and logic.quantifier_free:
        miss.append("quantifiers")
    return miss


def logics_check(tier, seed):
    from pysmt.logics import LOGICS, get_closer_logic, most_generic_logic, PYSMT_LOGICS, SMTLIB2_LOGICS
    from pysmt.exceptions import NoLogicAvailableError
    from pysmt.oracles import get_logic
    L = sorted(LOGICS, key=str)
    viol, n, samples = [], 0, []
    for a in L:
        n += 1
        if not a <= a:
            viol.append({"key": "reflexive", "logic": str(a)})
        for b in L:
            n += 1
            if (a <= b) != l_le(a, b):
                viol.append({"key": "le-meaning", "a": str(a), "b": str(b), "code": a <= b})
            if a <= b and b <= a and a != b:
                viol.append({"key": "antisymmetric", "a": str(a), "b": str(b)})
            u = a.theory.combine(b.theory)
            if not (a.theory <= u and b.theory <= u):
                viol.append({"key": "combine-upper-bound", "a": str(a), "b": str(b)})
            if len(viol) > 3:
                break
    if not viol:
        for a in L:
            ups = [b for b in L if a <= b]
            for b in ups:
                for c in L:
                    n += 1
                    if b <= c and not a <= c:
                        viol.append({"key": "transitive", "a": str(a), "b": str(b), "c": str(c)})
                        break
    rng = random.Random(seed)
    subsets = [list(PYSMT_LOGICS), list(SMTLIB2_LOGICS)]
    for _ in range(60 if tier == "quick" else 600):
        subsets.append(rng.sample(L, rng.randint(1, 8)))
    for sup in subsets:
        for target in (L if len(sup) < 20 else rng.sample(L, 20)):
            n += 1
            cands = [s for s in sup if l_le(target, s)]
            try:
                r = get_closer_logic(sup, target)
            except NoLogicAvailableError:
                if cands:
                    viol.append({"key": "closer-raises", "target": str(target), "supported": [str(s) for s in sup]})
                continue
            except Exception as e:
                viol.append({"key": "closer-crashes", "target": str(target), "supported": [str(s) for s in sup], "error": repr(e)})
                continue
            bad = r not in sup or not l_le(target, r) or any(l_le(target, k) and l_le(k, r) and not l_le(r, k) for k in sup)
            if bad:
                viol.append({"key": "closer-wrong", "target": str(target), "supported": [str(s) for s in sup], "result": str(r)})
            if len(samples) < 3:
                samples.append({"target": str(target), "supported": [str(s) for s in sup][:6], "closest": str(r)})
        try:
            g = most_generic_logic(sup)
            if not all(l_le(s, g) for s in sup):
                viol.append({"key": "most-generic-wrong", "supported": [str(s) for s in sup], "result": str(g)})
        except NoLogicAvailableError:
            pass
    # detection on random formulas
    env = fresh_env()
    g = Gen(env, seed=seed, consts_bias=0.3)
    m = env.formula_manager
    S_ = Type("S")
    extra = []
    b8 = m.Symbol("qb", BVType(8))
    a = m.Symbol("qa", BOOL)
    x, y = m.Symbol("dx", INT), m.Symbol("dy", INT)
    extra += [m.ForAll([b8], a), m.Equals(m.Div(m.Int(1), x), m.Int(3)), m.Equals(m.IntToStr(x), m.IntToStr(y)),
              m.Not(m.Equals(m.Symbol("ar", ArrayType(INT, INT)), m.Array(INT, m.Int(0)))),
              m.Equals(m.Select(m.Symbol("aib", ArrayType(INT, BVType(8))), x), m.Select(m.Symbol("aib", ArrayType(INT, BVType(8))), y)),
              m.Equals(m.Symbol("cs", S_), m.Symbol("cs2", S_)), m.LE(m.Div(x, m.Int(2)), y),
              m.Exists([m.Symbol("qs", STRING)], a)]
    trials = 400 if tier == "quick" else 4000
    forms = list(extra)
    for _ in range(trials):
        try:
            forms.append(g.term(BOOL, 3))
        except Exception:
            pass
    nontriv = 0
    for f in forms:
        n += 1
        try:
            lg = get_logic(f, env)
        except NoLogicAvailableError:
            continue        # no named logic is expressive enough: refusing a label is allowed
        except Exception as e:
            viol.append({"key": "get_logic-crashes", "formula": str(f), "error": repr(e)})
            continue
        miss = covers(lg, f)
        if f.args():
            nontriv += 1
        if miss:
            viol.append({"key": "detection", "formula": f.serialize(), "logic": str(lg), "missing": miss})
            break
    return {"name": "logics", "bounded": True, "exhaustive": True, "evaluations": n, "distinct_nontrivial": len(L) * len(L) + nontriv,
            "rule": "exhaustive over the %d named logics: all pairs (<= meaning, antisymmetry, combine), all triples (transitivity), "
                    "get_closer_logic / most_generic_logic on PYSMT_LOGICS, SMTLIB2_LOGICS and random sub-lists x all targets; "
                    "detection on %d generated formulas vs an independent feature extraction" % (len(L), len(forms)),
            "samples": samples, "violations": viol[:5]}


CHECKS = {"logics": logics_check}


# ---------------------------------------------------------------------------
# C16: command sequences against a reference model of SMT-LIB's assertion stack
# ---------------------------------------------------------------------------
class RefStack:
    """levels of (assertions, goals); goals: ('obj', kind, term) | ('soft', id, clause, weight)"""
    def __init__(self):
        self.levels = [([], [])]

    def push(self, n):
        for _ in range(n):
            self.levels.append(([], []))

    def pop(self, n):
        for _ in range(n):
            self.levels.pop()

    def reset(self):
        self.levels = [([], [])]

    def depth(self):
        return len(self.levels) - 1

    def assertions(self):
        return [a for lv in self.levels for a in lv[0]]

    def goals(self):
        out, pos = [], {}
        for lv in self.levels:
            for g in lv[1]:
                if g[0] == "obj":
                    out.append(["obj", g[1], g[2]])
                else:
                    if g[1] not in pos:
                        pos[g[1]] = len(out)
                        out.append(["soft", g[1], []])
                    out[pos[g[1]]][2].append((g[2], g[3]))
        return out


def make_stub(env):
    from pysmt.solvers.solver import IncrementalTrackingSolver, SolverOptions
    from pysmt.logics import QF_BOOL

    class Stub(IncrementalTrackingSolver):
        OptionsClass = SolverOptions
        LOGICS = [QF_BOOL]

        def __init__(self):
            IncrementalTrackingSolver.__init__(self, env, QF_BOOL)
            self.backend = RefStack()
            self.illegal = None

        def _add_assertion(self, f, named=None):
            self.backend.levels[-1][0].append(f)
            return f

        def _push(self, levels=1):
            self.backend.push(levels)

        def _pop(self, levels=1):
            if levels > self.backend.depth():
                self.illegal = "pop %d with %d levels" % (levels, self.backend.depth())
                raise RuntimeError(self.illegal)
            self.backend.pop(levels)

        def _solve(self, assumptions=None):
            return True

        def _reset_assertions(self):
            self.backend.reset()
    return Stub


def tracking_sequences(tier, seed):
    env = fresh_env()
    m = env.formula_manager
    a, b, c = m.Symbol("ta"), m.Symbol("tb"), m.Symbol("tc")
    Stub = make_stub(env)
    ops = [("assert", a), ("assert", b), ("push", 0), ("push", 1), ("push", 2), ("pop", 0), ("pop", 1), ("pop", 2),
           ("reset", None), ("is_sat", c), ("is_valid", c), ("solve", None), ("read", None)]
    L = 4 if tier == "quick" else 5
    n = nontriv = 0
    viol, samples = [], []

    def run(seq):
        s, ref = Stub(), RefStack()
        for i, (o, x) in enumerate(seq):
            if o == "pop" and x > ref.depth():
                return None            # illegal in SMT-LIB: not part of the property
            if o == "assert":
                s.add_assertion(x)
                ref.levels[-1][0].append(x)
            elif o == "push":
                s.push(x)
                ref.push(x)
            elif o == "pop":
                s.pop(x)
                ref.pop(x)
            elif o == "reset":
                s.reset_assertions()
                ref.reset()
            elif o == "is_sat":
                s.is_sat(x)
            elif o == "is_valid":
                s.is_valid(x)
            elif o == "solve":
                s.solve()
            got = list(s.assertions)
            if got != ref.assertions():
                return {"key": "tracking", "sequence": [str(q) for q in seq[:i + 1]], "assertions": [str(g) for g in got],
                        "expected": [str(g) for g in ref.assertions()]}
            if s.illegal:
                return {"key": "tracking-illegal-stream", "sequence": [str(q) for q in seq[:i + 1]], "error": s.illegal}
            if s.backend.assertions() != ref.assertions() or s.backend.depth() != ref.depth():
                return {"key": "tracking-backend-out-of-sync", "sequence": [str(q) for q in seq[:i + 1]],
                        "backend_levels": s.backend.depth(), "expected_levels": ref.depth()}
        return False
    for k in range(1, L + 1):
        for seq in itertools.product(ops, repeat=k):
            try:
                r = run(seq)
            except Exception as e:
                r = {"key": "tracking-exception", "sequence": [str(q) for q in seq], "error": repr(e)}
            if r is None:
                continue
            n += 1
            if len({o for o, _ in seq}) > 1:
                nontriv += 1
            if r:
                viol.append(r)
                break
            if k == 3 and len(samples) < 2 and seq[0][0] == "assert" and seq[1][0] == "is_sat":
                samples.append([str(q) for q in seq])
        if viol:
            break
    return {"name": "tracking_sequences", "bounded": True, "exhaustive": True, "evaluations": n, "distinct_nontrivial": nontriv,
            "rule": "all legal sequences of length <= %d over assert a/b, push 0..2, pop 0..2, reset-assertions, is_sat, "
                    "is_valid, solve on a stub IncrementalTrackingSolver; assertions and backend levels compared with a "
                    "reference assertion stack after every step; non-trivial = at least two different commands" % L,
            "samples": samples, "violations": viol}


def script_sequences(tier, seed):
    import pysmt.smtlib.commands as smtcmd
    from pysmt.smtlib.script import SmtLibScript, SmtLibCommand
    env = fresh_env()
    m = env.formula_manager
    a, b = m.Symbol("sa"), m.Symbol("sb")
    x = m.Symbol("sx", INT)
    ops = [("assert", a), ("assert", b), ("push", 0), ("push", 1), ("push", 2), ("pop", 1), ("pop", 2), ("reset", None),
           ("soft", ("g", a)), ("soft", ("g", b)), ("soft", ("h", a)), ("min", x), ("max", x), ("check", None)]
    L = 4 if tier == "quick" else 5
    # second family: only soft constraints of two goal ids and the stack commands, one command longer (the bookkeeping of
    # several live MaxSMT goals across push / pop needs at least five commands to go wrong)
    ops2 = [("soft", ("g", a)), ("soft", ("g", b)), ("soft", ("h", a)), ("soft", ("h", b)), ("push", 1), ("push", 2), ("pop", 1), ("pop", 2)]
    n = nontriv = 0
    viol, samples = [], []
    families = [(ops, k) for k in range(1, L + 1)] + [(ops2, L + 1)]
    for ops_, k in families:
        for seq in itertools.product(ops_, repeat=k):
            ref, sc, legal = RefStack(), SmtLibScript(), True
            for o, v in seq:
                if o == "assert":
                    sc.add(smtcmd.ASSERT, [v])
                    ref.levels[-1][0].append(v)
                elif o == "push":
                    sc.add(smtcmd.PUSH, [v])
                    ref.push(v)
                elif o == "pop":
                    if v > ref.depth():
                        legal = False
                        break
                    sc.add(smtcmd.POP, [v])
                    ref.pop(v)
                elif o == "reset":
                    sc.add(smtcmd.RESET_ASSERTIONS, [])
                    ref.reset()
                elif o == "soft":
                    sc.add(smtcmd.ASSERT_SOFT, [v[1], [(":id", v[0]), (":weight", m.Real(2))]])
                    ref.levels[-1][1].append(("soft", v[0], v[1], m.Real(2)))
                elif o == "min":
                    sc.add(smtcmd.MINIMIZE, [v, []])
                    ref.levels[-1][1].append(("obj", "min", v))
                elif o == "max":
                    sc.add(smtcmd.MAXIMIZE, [v, []])
                    ref.levels[-1][1].append(("obj", "max", v))
                elif o == "check":
                    sc.add(smtcmd.CHECK_SAT, [])
            if not legal:
                continue
            n += 1
            if len({o for o, _ in seq}) > 1:
                nontriv += 1
            try:
                f, goals = sc.get_last_formula(mgr=m, return_optimizations=True)
            except Exception as e:
                viol.append({"key": "script-exception", "sequence": [str(q) for q in seq], "error": repr(e)})
                break
            want_f = m.And(ref.assertions())
            got_goals = []
            for g in goals:
                if g.is_maxsmt_goal():
                    got_goals.append(["soft", [(c_, w_) for c_, w_ in g.soft]])
                else:
                    got_goals.append(["obj", "min" if g.is_minimization_goal() else "max", g.term()])
            want_goals = [["soft", w[2]] if w[0] == "soft" else w for w in ref.goals()]
            if f is not want_f or got_goals != want_goals:
                viol.append({"key": "script", "sequence": [str(q) for q in seq], "formula": str(f), "expected_formula": str(want_f),
                             "goals": str(got_goals), "expected_goals": str(want_goals)})
                break
            if k == 3 and len(samples) < 2 and seq[0][0] == "soft":
                samples.append([str(q) for q in seq])
        if viol:
            break
    return {"name": "script_sequences", "bounded": True, "exhaustive": True, "evaluations": n, "distinct_nontrivial": nontriv,
            "rule": "all legal command lists of length <= %d over assert a/b, push 0..2, pop 1..2, reset-assertions, "
                    "assert-soft with ids g/h, minimize, maximize, check-sat; get_last_formula(return_optimizations=True) "
                    "compared with a reference assertion stack; plus all lists of length %d over assert-soft (2 ids x 2 clauses), "
                    "push 1..2, pop 1..2" % (L, L + 1),
            "samples": samples, "violations": viol}


CHECKS.update({"tracking_sequences": tracking_sequences, "script_sequences": script_sequences})


# ---------------------------------------------------------------------------
# C02: EagerModel vs the reference evaluator
# ---------------------------------------------------------------------------
def value_to_const(m, v, ty):
    if ty.is_bool_type():
        return m.Bool(bool(v))
    if ty.is_int_type():
        return m.Int(v)
    if ty.is_real_type():
        return m.Real(v)
    if ty.is_bv_type():
        return m.BV(v, ty.width)
    if ty.is_string_type():
        return m.String(v)
    if ty.is_array_type():
        return m.Array(ty.index_type, value_to_const(m, v.default, ty.elem_type),
                       {value_to_const(m, i, ty.index_type): value_to_const(m, x, ty.elem_type) for (i, x) in v.m.values()})
    return None


def model_eval(tier, seed):
    from pysmt.solvers.eager import EagerModel
    env = fresh_env()
    m = env.formula_manager
    g = Gen(env, seed=seed, consts_bias=0.35)
    rng = random.Random(seed)
    trials = 1500 if tier == "quick" else 15000
    n = nontriv = 0
    viol, samples = [], []
    # exhaustive BV operand values at small widths
    for w in (1, 2, 3) + ((4,) if tier == "thorough" else ()):
        x, y = m.Symbol("ex%d" % w, BVType(w)), m.Symbol("ey%d" % w, BVType(w))
        fs = [m.BVAdd(x, y), m.BVSub(x, y), m.BVMul(x, y), m.BVUDiv(x, y), m.BVURem(x, y), m.BVSDiv(x, y), m.BVSRem(x, y),
              m.BVAnd(x, y), m.BVOr(x, y), m.BVXor(x, y), m.BVLShl(x, y), m.BVLShr(x, y), m.BVAShr(x, y), m.BVNot(x), m.BVNeg(x),
              m.BVULT(x, y), m.BVULE(x, y), m.BVSLT(x, y), m.BVSLE(x, y), m.BVComp(x, y), m.BVConcat(x, y), m.BVSMod(x, y),
              m.BVZExt(x, 2), m.BVSExt(x, 2), m.BVRol(x, 1), m.BVRor(x, 1), m.BVExtract(x, 0, w - 1), m.BVToNatural(x)]
        for f in fs:
            for a in range(1 << w):
                for b in range(1 << w):
                    n += 1
                    nontriv += 1
                    I = refeval.Interp(values={x: a, y: b})
                    want = refeval.evaluate(f, I)
                    got = EagerModel({x: m.BV(a, w), y: m.BV(b, w)}, env).get_py_value(f)
                    if got != want:
                        viol.append({"key": "bv-exhaustive", "formula": str(f), "x": a, "y": b, "got": repr(got), "expected": repr(want)})
                        break
                if viol:
                    break
            if viol:
                break
        if viol:
            break
    for t in range(trials if not viol else 0):
        ty = g.any_type()
        try:
            f = g.term(ty, rng.randint(1, 3))
        except Exception:
            continue
        if any(s.symbol_type().is_function_type() or s.symbol_type().is_custom_type() for s in refeval.free_symbols(f)):
            continue
        I = refeval.Interp(rng=random.Random(rng.random()))
        try:
            want = refeval.evaluate(f, I)
        except (refeval.DivByZero, refeval.Unsupported):
            continue
        syms = sorted(refeval.free_symbols(f), key=lambda s: s.symbol_name())
        if any(s.symbol_type().is_array_type() for s in syms):
            continue
        n += 1
        if f.args():
            nontriv += 1
        assign = {s: value_to_const(m, I.values[s], s.symbol_type()) for s in syms}
        try:
            got = EagerModel(assign, env).get_value(f)
        except Exception as e:
            if f.get_type().is_array_type() or "Array" in str(f):
                continue        # known finding: equalities between array values
            viol.append({"key": "model-exception", "formula": f.serialize(), "assignment": {str(k): str(v) for k, v in assign.items()}, "error": repr(e)[:200]})
            break
        wc = value_to_const(m, want, f.get_type())
        if f.get_type().is_array_type():
            same = refeval.evaluate(got, refeval.Interp()) == want
        else:
            same = got is wc
        if not same:
            viol.append({"key": "model-value", "formula": f.serialize(), "assignment": {str(k): str(v) for k, v in assign.items()},
                         "got": str(got), "expected": str(wc)})
            break
        if f.get_type().is_bool_type():
            sat = EagerModel(assign, env).satisfies(f)
            if sat != bool(want):
                viol.append({"key": "model-satisfies", "formula": f.serialize(), "got": sat, "expected": bool(want)})
                break
        if len(samples) < 3 and len(syms) >= 2:
            samples.append({"formula": f.serialize(), "assignment": {str(k): str(v) for k, v in assign.items()}, "value": str(got)})
    return {"name": "model_eval", "bounded": True, "evaluations": n, "distinct_nontrivial": nontriv,
            "rule": "every BV operator on all operand values at widths 1..3 (thorough: 4), plus %d generated quantifier-free "
                    "UF-free formulas of all types under random total assignments; EagerModel.get_value / get_py_value / "
                    "satisfies compared with the reference evaluator; non-trivial = formula with an operator" % trials,
            "samples": samples, "violations": viol}


CHECKS["model_eval"] = model_eval


# ---------------------------------------------------------------------------
# C05: substitution vs independent recursive definitions and the substitution lemma
# ---------------------------------------------------------------------------
def ref_rebuild(m, n, kids):
    """operator of n applied to kids (through the public constructors)"""
    nt = n.node_type()
    if not n.args() and nt not in (op.FORALL, op.EXISTS):
        return n
    if nt in (op.FORALL, op.EXISTS):
        return (m.ForAll if nt == op.FORALL else m.Exists)(n.quantifier_vars(), kids[0])
    if nt == op.FUNCTION:
        return m.Function(n.function_name(), kids)
    if nt == op.BV_EXTRACT:
        return m.BVExtract(kids[0], n.bv_extract_start(), n.bv_extract_end())
    if nt in (op.BV_ROL, op.BV_ROR):
        return (m.BVRol if nt == op.BV_ROL else m.BVRor)(kids[0], n.bv_rotation_step())
    if nt in (op.BV_ZEXT, op.BV_SEXT):
        return (m.BVZExt if nt == op.BV_ZEXT else m.BVSExt)(kids[0], n.bv_extend_step())
    if nt == op.ARRAY_VALUE:
        return m.Array(n.array_value_index_type(), kids[0], dict(zip(kids[1::2], kids[2::2])))
    names = {op.AND: "And", op.OR: "Or", op.NOT: "Not", op.IMPLIES: "Implies", op.IFF: "Iff", op.PLUS: "Plus", op.MINUS: "Minus",
             op.TIMES: "Times", op.DIV: "Div", op.LE: "LE", op.LT: "LT", op.EQUALS: "Equals", op.ITE: "Ite", op.TOREAL: "ToReal",
             op.BV_NOT: "BVNot", op.BV_AND: "BVAnd", op.BV_OR: "BVOr", op.BV_XOR: "BVXor", op.BV_CONCAT: "BVConcat",
             op.BV_ULT: "BVULT", op.BV_ULE: "BVULE", op.BV_NEG: "BVNeg", op.BV_ADD: "BVAdd", op.BV_SUB: "BVSub", op.BV_MUL: "BVMul",
             op.BV_UDIV: "BVUDiv", op.BV_UREM: "BVURem", op.BV_LSHL: "BVLShl", op.BV_LSHR: "BVLShr", op.BV_SLT: "BVSLT",
             op.BV_SLE: "BVSLE", op.BV_COMP: "BVComp", op.BV_SDIV: "BVSDiv", op.BV_SREM: "BVSRem", op.BV_ASHR: "BVAShr",
             op.STR_LENGTH: "StrLength", op.STR_CONCAT: "StrConcat", op.STR_CONTAINS: "StrContains", op.STR_INDEXOF: "StrIndexOf",
             op.STR_REPLACE: "StrReplace", op.STR_SUBSTR: "StrSubstr", op.STR_PREFIXOF: "StrPrefixOf",
             op.STR_SUFFIXOF: "StrSuffixOf", op.STR_TO_INT: "StrToInt", op.INT_TO_STR: "IntToStr", op.STR_CHARAT: "StrCharAt",
             op.ARRAY_SELECT: "Select", op.ARRAY_STORE: "Store", op.POW: "Pow", op.BV_TONATURAL: "BVToNatural"}
    f = getattr(m, names[nt])
    if nt in (op.AND, op.OR, op.PLUS, op.TIMES, op.STR_CONCAT, op.BV_CONCAT):
        return f(list(kids))
    return f(*kids)


def ref_subst(m, n, sigma, mgs):
    """documented most-general / most-specific replacement (recursive definition)"""
    if mgs and n in sigma and n.node_type() not in ():
        return sigma[n]
    nt = n.node_type()
    if nt in (op.FORALL, op.EXISTS):
        qv = set(n.quantifier_vars())
        inner = {k: v for k, v in sigma.items() if not (refeval.free_symbols(k) & qv)}
        r = ref_rebuild(m, n, [ref_subst(m, n.arg(0), inner, mgs)])
    else:
        r = ref_rebuild(m, n, [ref_subst(m, c, sigma, mgs) for c in n.args()])
    if not mgs and r in sigma:
        return sigma[r]
    return r


def substitution_check(tier, seed):
    from pysmt.substituter import MGSubstituter, MSSubstituter
    env = fresh_env()
    m = env.formula_manager
    g = Gen(env, seed=seed, consts_bias=0.3)
    rng = random.Random(seed)
    trials = 1200 if tier == "quick" else 12000
    n = nontriv = 0
    viol, samples = [], []

    def subterms(f):
        out, st, seen = [], [f], set()
        while st:
            x = st.pop()
            if x in seen:
                continue
            seen.add(x)
            out.append(x)
            st.extend(x.args())
        return out
    for t in range(trials):
        try:
            f = g.term(BOOL, rng.randint(1, 3))
            if rng.random() < 0.5:
                syms = [s for s in refeval.free_symbols(f) if not s.symbol_type().is_function_type()
                        and not s.symbol_type().is_array_type()]
                if syms:
                    qs = rng.sample(syms, min(len(syms), rng.randint(1, 2)))
                    f = (m.ForAll if rng.random() < 0.5 else m.Exists)(qs, f)
                    f = m.And(f, g.term(BOOL, 1)) if rng.random() < 0.5 else f
        except Exception:
            continue
        subs_pool = [x for x in subterms(f) if not (x.is_symbol() and x.symbol_type().is_function_type())]
        sigma = {}
        for _ in range(rng.randint(1, 2)):
            k = rng.choice(subs_pool)
            try:
                sigma[k] = g.term(k.get_type(), rng.randint(0, 1))
            except Exception:
                pass
        if not sigma:
            continue
        n += 1
        if any(x.is_quantifier() for x in subterms(f)):
            nontriv += 1
        # both strategies rebuild every child before looking at the node itself: a map entry whose application is
        # ill-formed somewhere in the formula (e.g. a constant-array index replaced by a non-constant) surfaces as an
        # error even if an outer most-general replacement would discard that sub-term - an error, not a wrong result
        try:
            ref_subst(m, f, sigma, False)
            inner_ok = True
        except Exception:
            inner_ok = False
        for mgs, cls in ((True, MGSubstituter), (False, MSSubstituter)):
            try:
                want = ref_subst(m, f, sigma, mgs) if inner_ok else None
            except Exception:
                want = None          # the replacement itself is ill-formed (e.g. non-constant array key)
            try:
                got = cls(env).substitute(f, sigma)
            except Exception as e:
                if want is None:
                    continue
                viol.append({"key": "substitute-exception", "formula": f.serialize(), "map": {str(k): str(v) for k, v in sigma.items()},
                             "error": repr(e)[:200]})
                break
            if want is None:
                continue
            if got is not want:
                viol.append({"key": "mgs" if mgs else "mss", "formula": f.serialize(), "map": {str(k): str(v) for k, v in sigma.items()},
                             "got": got.serialize(), "expected": want.serialize()})
                break
        if viol:
            break
        # substitution lemma: symbol keys, no capture
        sym_sigma = {k: v for k, v in sigma.items() if k.is_symbol()}
        bound = set()
        for x in subterms(f):
            if x.is_quantifier():
                bound |= set(x.quantifier_vars())
        if sym_sigma and not any(refeval.free_symbols(v) & bound for v in sym_sigma.values()) and not (set(sym_sigma) & bound):
            got = MGSubstituter(env).substitute(f, sym_sigma)
            for _ in range(4):
                I = refeval.Interp(rng=random.Random(rng.random()))
                try:
                    vals = {k: refeval.evaluate(v, I) for k, v in sym_sigma.items()}
                    lhs = refeval.evaluate(got, I)
                    I2 = refeval.Interp(values=dict(I.values), rng=random.Random(1))
                    I2._uf = I._uf
                    I2.values.update(vals)
                    rhs = refeval.evaluate(f, I2)
                except (refeval.DivByZero, refeval.Unsupported):
                    continue
                if lhs != rhs:
                    viol.append({"key": "substitution-lemma", "formula": f.serialize(), "map": {str(k): str(v) for k, v in sym_sigma.items()},
                                 "value_of_result": repr(lhs), "value_under_updated_interpretation": repr(rhs)})
                    break
        if viol:
            break
        if len(samples) < 3 and f.is_quantifier():
            samples.append({"formula": f.serialize(), "map": {str(k): str(v) for k, v in sigma.items()}})
    return {"name": "substitution", "bounded": True, "evaluations": n, "distinct_nontrivial": nontriv,
            "rule": "%d generated formulas (half of them with a quantifier over their own symbols) x maps from 1-2 of their "
                    "sub-terms; MGS and MSS compared by object identity with an independent recursive definition, and the "
                    "substitution lemma checked on the reference evaluator for capture-free symbol maps; non-trivial = has a quantifier" % trials,
            "samples": samples, "violations": viol}


CHECKS["substitution"] = substitution_check


# ---------------------------------------------------------------------------
# C10 / C11: normal forms, QE, CNF, Ackermann on generated formulas (exact evaluation)
# ---------------------------------------------------------------------------
class BoolGen:
    """Boolean structure over Bool symbols, theory atoms (Int/BV2), Boolean ITE/IFF, quantifiers
    over Bool / BV2 variables (incl. shadowing), shared sub-formulas."""
    def __init__(self, env, seed):
        self.m = env.formula_manager
        self.r = random.Random(seed)
        m = self.m
        self.bools = [m.Symbol("p%d" % i) for i in range(4)]
        self.ints = [m.Symbol("i%d" % i, INT) for i in range(2)]
        self.bvs = [m.Symbol("v%d" % i, BVType(2)) for i in range(2)]
        self.pool = []

    def atom(self):
        m, r = self.m, self.r
        k = r.randrange(8)
        if k < 4:
            return r.choice(self.bools)
        if k == 4:
            return m.LE(r.choice(self.ints), m.Int(r.randint(-1, 1)))
        if k == 5:
            return m.BVULT(r.choice(self.bvs), r.choice(self.bvs + [m.BV(r.randrange(4), 2)]))
        if k == 6:
            return m.Equals(r.choice(self.ints), r.choice(self.ints))
        return m.Bool(r.random() < 0.5)

    def formula(self, depth, quant=True):
        m, r = self.m, self.r
        if depth <= 0 or r.random() < 0.12:
            return self.atom()
        if self.pool and r.random() < 0.15:
            return r.choice(self.pool)
        k = r.randrange(9 if quant else 7)
        f = lambda: self.formula(depth - 1, quant)
        if k == 0:
            res = m.And([f() for _ in range(r.randint(2, 3))])
        elif k == 1:
            res = m.Or([f() for _ in range(r.randint(2, 3))])
        elif k == 2:
            res = m.Not(f())
        elif k == 3:
            res = m.Implies(f(), f())
        elif k == 4:
            res = m.Iff(f(), f())
        elif k == 5:
            res = m.Ite(f(), f(), f())
        elif k == 6:
            res = m.Not(m.Ite(f(), f(), f()))
        else:
            vs = r.sample(self.bools + self.bvs, r.randint(1, 2))
            res = (m.ForAll if k == 7 else m.Exists)(vs, f())
        self.pool.append(res)
        return res


def shape_nnf(f):
    st, seen = [f], set()
    while st:
        n = st.pop()
        if n in seen:
            continue
        seen.add(n)
        if n.is_not():
            a = n.arg(0)
            if a.is_bool_op() or (a.is_ite() and a.get_type().is_bool_type()):
                return "negation over non-atom %s" % a
            continue
        if n.is_implies() or n.is_iff() or (n.is_ite() and n.get_type().is_bool_type()):
            return "connective %s left" % n
        if n.is_and() or n.is_or() or n.is_quantifier():
            st.extend(n.args())
    return None


def shape_aig(f):
    st, seen = [f], set()
    while st:
        n = st.pop()
        if n in seen:
            continue
        seen.add(n)
        if n.is_or() or n.is_implies() or n.is_iff() or (n.is_ite() and n.get_type().is_bool_type()):
            return "connective other than and/not: %s" % n
        if n.is_and() or n.is_not() or n.is_quantifier():
            st.extend(n.args())
    return None


def shape_prenex(f):
    while f.is_quantifier():
        f = f.arg(0)
    st, seen = [f], set()
    while st:
        n = st.pop()
        if n in seen:
            continue
        seen.add(n)
        if n.is_quantifier():
            return "quantifier inside the matrix"
        st.extend(n.args())
    return None


def has_quant(f):
    st, seen = [f], set()
    while st:
        n = st.pop()
        if n in seen:
            continue
        seen.add(n)
        if n.is_quantifier():
            return True
        st.extend(n.args())
    return False


def all_interps(syms, rng, cap=24):
    doms = []
    for s in syms:
        t = s.symbol_type()
        doms.append(refeval.finite_domain(t) if (t.is_bool_type() or t.is_bv_type()) else [-1, 0, 1])
    combos = list(itertools.product(*doms))
    if len(combos) > cap:
        combos = rng.sample(combos, cap)
    return [dict(zip(syms, c)) for c in combos]


def equiv_exact(f, g, rng):
    syms = sorted(refeval.free_symbols(f) | refeval.free_symbols(g), key=lambda s: s.symbol_name())
    for vals in all_interps(syms, rng):
        a = refeval.evaluate(f, refeval.Interp(values=dict(vals)))
        b = refeval.evaluate(g, refeval.Interp(values=dict(vals)))
        if bool(a) != bool(b):
            return {str(k): repr(v) for k, v in vals.items()}
    return None


def rewriters_check(tier, seed):
    from pysmt.rewritings import nnf, prenex_normal_form, aig, conjunctive_partition, disjunctive_partition, \
        propagate_toplevel, TimesDistributor
    from pysmt.solvers.qelim import ShannonQuantifierEliminator, SelfSubstitutionQuantifierEliminator
    env = fresh_env()
    m = env.formula_manager
    rng = random.Random(seed)
    bg = BoolGen(env, seed)
    trials = 120 if tier == "quick" else 2000
    n = nontriv = 0
    viol, samples = [], []
    # the partitions on every nesting shape of one connective over four atoms (right-nested, left-nested, balanced, with a
    # shared and with a repeated sub-formula) and on mixed nestings: the yielded formulas together are equivalent to the
    # formula and none of them is itself an application of the connective
    a_, b_, c_, d_ = [m.Symbol("pa%d" % i) for i in range(4)]
    for mk, other, part, nm in ((m.Or, m.And, disjunctive_partition, "disj-partition"), (m.And, m.Or, conjunctive_partition, "conj-partition")):
        inner = mk(b_, c_)
        shapes = [mk(a_, mk(b_, c_)), mk(mk(a_, b_), c_), mk(mk(a_, b_), mk(c_, d_)), mk(a_, mk(b_, mk(c_, d_))), mk(mk(mk(a_, b_), c_), d_),
                  mk(inner, other(a_, inner)), mk(mk(a_, inner), mk(inner, d_)), mk(a_, other(b_, mk(c_, d_))), mk(other(a_, b_), mk(c_, other(d_, a_))),
                  mk(a_, m.Not(mk(b_, c_)), mk(d_, a_)), mk(a_, b_, mk(c_, d_, mk(a_, m.Not(b_))))]
        for f in shapes:
            n += 1
            got = list(part(f))
            r = mk(got) if got else mk([])
            cex = equiv_exact(f, r, rng)
            isapp = (lambda x: x.is_or()) if nm.startswith("disj") else (lambda x: x.is_and())
            if cex is not None:
                viol.append({"key": nm, "formula": f.serialize(), "result": r.serialize(), "interpretation": cex})
                break
            if any(isapp(x) for x in got):
                viol.append({"key": nm + "-shape", "formula": f.serialize(), "result": [x.serialize() for x in got],
                             "problem": "a yielded formula is itself an application of the connective"})
                break
        if viol:
            break
    for t in range(trials if not viol else 0):
        f = bg.formula(rng.randint(1, 3))
        n += 1
        if f.args():
            nontriv += 1
        checks = [("nnf", lambda: nnf(f, env), shape_nnf), ("aig", lambda: aig(f, env), shape_aig),
                  ("prenex", lambda: prenex_normal_form(f, env), shape_prenex),
                  ("conj-partition", lambda: m.And(list(conjunctive_partition(f))), None),
                  ("disj-partition", lambda: m.Or(list(disjunctive_partition(f))), None),
                  ("propagate_toplevel", lambda: propagate_toplevel(f, env), None)]
        # Boolean QE: quantifiers over Boolean variables only
        bq = True
        st, seen = [f], set()
        while st:
            x = st.pop()
            if x in seen:
                continue
            seen.add(x)
            if x.is_quantifier() and any(not v.symbol_type().is_bool_type() for v in x.quantifier_vars()):
                bq = False
            st.extend(x.args())
        if bq:
            checks.append(("qelim-shannon", lambda: ShannonQuantifierEliminator(env).eliminate_quantifiers(f),
                           lambda r: "quantifier left" if has_quant(r) else None))
            checks.append(("qelim-selfsub", lambda: SelfSubstitutionQuantifierEliminator(env).eliminate_quantifiers(f),
                           lambda r: "quantifier left" if has_quant(r) else None))
        for name, fn, shape in checks:
            try:
                r = fn()
            except Exception as e:
                viol.append({"key": name + "-exception", "formula": f.serialize(), "error": repr(e)[:200]})
                break
            cex = equiv_exact(f, r, rng)
            if cex is not None:
                viol.append({"key": name, "formula": f.serialize(), "result": r.serialize(), "interpretation": cex})
                break
            bad = shape(r) if shape else None
            if bad:
                viol.append({"key": name + "-shape", "formula": f.serialize(), "result": r.serialize(), "problem": bad})
                break
        if viol:
            break
        if len(samples) < 3 and has_quant(f):
            samples.append(f.serialize())
    # prenex: directly nested alternating quantifiers (the order of the prefix matters), also under negation and next to a sibling
    if not viol:
        from pysmt.rewritings import prenex_normal_form as _pnf
        pa, pb, pc = bg.bools[0], bg.bools[1], bg.bools[2]
        core_ = [m.Iff(pa, pb), m.And(pa, m.Not(pb)), m.Or(m.Iff(pa, pb), pc)]
        fam = []
        for c_ in core_:
            for Q1, Q2 in ((m.ForAll, m.Exists), (m.Exists, m.ForAll)):
                q = Q1([pa], Q2([pb], c_))
                fam += [q, m.Not(q), m.And(q, pc), m.Implies(q, Q2([pa], m.Or(pa, pc)))]
        # multi-variable blocks next to siblings that use or bind the same names again: a block of which only some variables
        # are renamed, followed (or preceded) by a sibling that binds one of the variables it kept - every order of the three
        # conjuncts / disjuncts, both kinds of quantifier
        import itertools as _it
        for Q1, Q2 in ((m.Exists, m.Exists), (m.Exists, m.ForAll), (m.ForAll, m.Exists), (m.ForAll, m.ForAll)):
            parts = [pa, Q1([pa, pb], m.And(pa, m.Not(pb))), Q2([pb], pb)]
            parts2 = [pb, Q1([pa, pb], m.Or(pa, m.Not(pb))), Q2([pa], m.Not(pa)), Q2([pb, pc], m.Iff(pb, pc))]
            for perm in _it.permutations(parts):
                fam += [m.And(perm), m.Or(perm)]
            for perm in _it.permutations(parts2):
                fam += [m.And(perm), m.Or(perm)]
        for f in fam:
            n += 1
            try:
                r = _pnf(f, env)
            except Exception as e:
                viol.append({"key": "prenex-exception", "formula": f.serialize(), "error": repr(e)[:200]})
                break
            cex = equiv_exact(f, r, rng)
            if cex is not None:
                viol.append({"key": "prenex", "formula": f.serialize(), "result": r.serialize(), "interpretation": cex})
                break
            bad = shape_prenex(r)
            if bad:
                viol.append({"key": "prenex-shape", "formula": f.serialize(), "result": r.serialize(), "problem": bad})
                break
    # propagate_toplevel: every ordered conjunction of 2-3 equalities among three Int symbols and two constants (both
    # orientations), with one more conjunct that uses the symbols - exhaustive over the orders in which the classes are merged
    x, y, z = bg.ints[0], bg.ints[1], m.Symbol("i2", INT)
    eqs = []
    for a, b in ((x, y), (y, z), (x, z), (x, m.Int(0)), (y, m.Int(1)), (z, m.Int(0)), (y, m.Int(0))):
        eqs += [m.Equals(a, b), m.Equals(b, a)]
    use = m.LE(m.Plus(x, y), z)
    fam = [c for k in (2, 3) for c in itertools.permutations(eqs, k)]
    if tier == "quick":
        fam = [c for c in fam if len(c) == 2] + rng.sample([c for c in fam if len(c) == 3], 300)
    for conj in fam if not viol else []:
        f = m.And(list(conj) + [use])
        n += 1
        for pe in (True,):
            try:
                r = propagate_toplevel(f, env, preserve_equivalence=pe)
            except Exception as e:
                viol.append({"key": "propagate_toplevel-exception", "formula": f.serialize(), "error": repr(e)[:200]})
                break
            syms = sorted(refeval.free_symbols(f) | refeval.free_symbols(r), key=lambda s: s.symbol_name())
            for vals in all_interps(syms, rng, cap=64):
                if bool(refeval.evaluate(f, refeval.Interp(values=dict(vals)))) != bool(refeval.evaluate(r, refeval.Interp(values=dict(vals)))):
                    viol.append({"key": "propagate_toplevel", "formula": f.serialize(), "result": r.serialize(),
                                 "interpretation": {str(k): repr(v) for k, v in vals.items()}})
                    break
            if viol:
                break
        if viol:
            break
    # TimesDistributor on arithmetic terms
    g = Gen(env, seed=seed, consts_bias=0.4)
    for t in range(trials if not viol else 0):
        ty = rng.choice([INT, REAL])
        try:
            x = g.term(ty, 3)
        except Exception:
            continue
        st, seen, bad_ops = [x], set(), False
        while st:
            y = st.pop()
            if y in seen:
                continue
            seen.add(y)
            st.extend(y.args())
        n += 1
        try:
            r = TimesDistributor(env).walk(x)
        except Exception as e:
            continue
        d = refeval.equivalent(x, r, trials=12, seed=t)
        if d is not None:
            viol.append({"key": "times-distributor", "term": x.serialize(), "result": r.serialize(), "difference": d})
            break
    return {"name": "rewriters", "bounded": True, "evaluations": n, "distinct_nontrivial": nontriv,
            "rule": "%d generated formulas over 4 Bool / 2 Int / 2 BV2 symbols with Boolean ITE/IFF in both polarities, shared "
                    "sub-formulas and nested, shadowing quantifiers over Bool and BV2; every rewriter's result compared with the "
                    "input on all interpretations (quantifiers evaluated exactly) and checked for its advertised shape; "
                    "propagate_toplevel on every ordered conjunction of 2 (and 300 / all of 3) equalities among three Int symbols and two "
                    "constants; plus %d arithmetic terms through TimesDistributor; both partitions on 11 nesting shapes of one connective "
                    "(right / left / balanced nesting, shared and repeated sub-formulas, n-ary, mixed with the other connective); prenex on 48 nested "
                    "alternations and on every order of 3-4 siblings where a two-variable block is partly renamed and another sibling binds "
                    "or uses a variable it kept (both connectives, all four pairs of quantifier kinds: 240 formulas)" % (trials, trials),
            "samples": samples, "violations": viol}


def cnf_check(tier, seed):
    from pysmt.rewritings import CNFizer, PolarityCNFizer, Ackermannizer
    env = fresh_env()
    m = env.formula_manager
    rng = random.Random(seed)
    bg = BoolGen(env, seed)
    trials = 300 if tier == "quick" else 3000
    n = nontriv = 0
    viol, samples = [], []
    special = [m.And(bg.bools[0], m.FALSE()), m.Iff(m.FALSE(), m.TRUE()), m.Or(bg.bools[0], m.TRUE()), m.Not(m.TRUE()),
               m.Ite(m.And(bg.bools[0], bg.bools[1]), bg.bools[2], bg.bools[3]), m.FALSE(), m.TRUE()]
    for t in range(trials):
        f = special[t] if t < len(special) else bg.formula(rng.randint(1, 3), quant=False)
        n += 1
        if f.args():
            nontriv += 1
        for name, cls in (("cnf", CNFizer), ("polarity-cnf", PolarityCNFizer)):
            try:
                r = cls(env).convert_as_formula(f)
            except Exception as e:
                viol.append({"key": name + "-exception", "formula": f.serialize(), "error": repr(e)[:200]})
                break
            # shape: conjunction of clauses of literals
            clauses = list(r.args()) if r.is_and() else [r]
            okshape = True
            for c in clauses:
                lits = list(c.args()) if c.is_or() else [c]
                for l in lits:
                    a = l.arg(0) if l.is_not() else l
                    if a.is_bool_op() or (a.is_ite() and a.get_type().is_bool_type()):
                        okshape = False
            if not okshape:
                viol.append({"key": name + "-shape", "formula": f.serialize(), "result": r.serialize()})
                break
            orig = sorted(refeval.free_symbols(f), key=lambda s: s.symbol_name())
            aux = sorted(refeval.free_symbols(r) - set(orig), key=lambda s: s.symbol_name())
            if len(aux) > 10:
                continue
            for vals in all_interps(orig, rng, cap=32):
                fv = bool(refeval.evaluate(f, refeval.Interp(values=dict(vals))))
                ext = False
                for av in itertools.product([False, True], repeat=len(aux)):
                    vv = dict(vals)
                    vv.update(zip(aux, av))
                    rv = bool(refeval.evaluate(r, refeval.Interp(values=vv)))
                    if rv:
                        ext = True
                        if not fv:
                            viol.append({"key": name + "-unsound", "formula": f.serialize(), "result": r.serialize(),
                                         "interpretation": {str(k): repr(v) for k, v in vv.items()}})
                            break
                if viol:
                    break
                if fv and not ext:
                    viol.append({"key": name + "-not-extensible", "formula": f.serialize(), "result": r.serialize(),
                                 "interpretation": {str(k): repr(v) for k, v in vals.items()}})
                    break
            if viol:
                break
        if viol:
            break
    # Ackermannization: functions over Bool / BV1 arguments, all function interpretations enumerated
    fB = m.Symbol("af", FunctionType(BOOL, [BOOL, BOOL]))
    gB = m.Symbol("ag", FunctionType(BOOL, [BOOL]))
    a, b, c = bg.bools[0], bg.bools[1], bg.bools[2]
    forms = [m.And(m.Function(fB, [a, c]), m.Not(m.Function(fB, [b, c]))),
             m.Iff(m.Function(gB, [m.Function(gB, [a])]), m.Function(gB, [b])),
             m.Or(m.Function(fB, [a, m.Function(gB, [b])]), m.Function(gB, [a])),
             m.And(m.Function(fB, [a, b]), m.Function(fB, [b, a]), m.Not(m.Function(fB, [a, a]))),
             m.Not(m.Iff(m.Function(gB, [a]), m.Function(gB, [b]))),
             # applications nested in the same argument position of two applications of one function
             m.And(m.Function(fB, [m.Function(gB, [a]), c]), m.Not(m.Function(fB, [m.Function(gB, [b]), c])), m.Iff(a, b)),
             m.And(m.Not(m.Iff(m.Function(gB, [m.Function(gB, [a])]), m.Function(gB, [m.Function(gB, [b])]))), m.Iff(a, b)),
             m.And(m.Function(fB, [m.Function(gB, [a]), m.Function(gB, [b])]), m.Not(m.Function(fB, [m.Function(gB, [b]), m.Function(gB, [a])])),
                   m.Iff(a, b))]
    for f in forms if not viol else []:
        n += 1
        nontriv += 1
        try:
            r = Ackermannizer(env).do_ackermannization(f)
        except Exception as e:
            viol.append({"key": "ackermann-exception", "formula": f.serialize(), "error": repr(e)[:200]})
            break
        st, seen, uf = [r], set(), False
        while st:
            x = st.pop()
            if x in seen:
                continue
            seen.add(x)
            uf = uf or x.is_function_application()
            st.extend(x.args())
        if uf:
            viol.append({"key": "ackermann-shape", "formula": f.serialize(), "result": r.serialize()})
            break
        orig = [s for s in sorted(refeval.free_symbols(f), key=lambda s: s.symbol_name()) if not s.symbol_type().is_function_type()]
        aux = sorted(set(refeval.free_symbols(r)) - set(orig), key=lambda s: s.symbol_name())
        # all interpretations of the two functions (as truth tables)
        tables_f = list(itertools.product([False, True], repeat=4))
        tables_g = list(itertools.product([False, True], repeat=2))
        for vals in all_interps(orig, rng, cap=16):
            sat_in = False
            for tf in tables_f:
                for tg in tables_g:
                    I = refeval.Interp(values=dict(vals), funcs={fB: lambda x, y, tf=tf: tf[2 * int(x) + int(y)],
                                                                 gB: lambda x, tg=tg: tg[int(x)]})
                    if refeval.evaluate(f, I):
                        sat_in = True
            sat_out = False
            for av in itertools.product([False, True], repeat=len(aux)):
                vv = dict(vals)
                vv.update(zip(aux, av))
                if refeval.evaluate(r, refeval.Interp(values=vv)):
                    sat_out = True
            if sat_in != sat_out:
                viol.append({"key": "ackermann", "formula": f.serialize(), "result": r.serialize(),
                             "interpretation": {str(k): repr(v) for k, v in vals.items()}, "input_satisfiable_for_some_functions": sat_in,
                             "output_satisfiable_for_some_constants": sat_out})
                break
        if viol:
            break
    return {"name": "cnf", "bounded": True, "evaluations": n, "distinct_nontrivial": nontriv,
            "rule": "%d generated quantifier-free formulas (plus constant / ITE corner cases) through both CNF conversions: every "
                    "interpretation of the original symbols x every value of the introduced symbols evaluated (model extension and "
                    "restriction, clause shape); Ackermannization of 8 formulas with nested applications (also in the same argument position of two applications) of a binary and a unary "
                    "Boolean function against all function tables" % trials,
            "samples": samples, "violations": viol}


CHECKS.update({"rewriters": rewriters_check, "cnf": cnf_check})
