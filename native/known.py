"""Native re-check of each listed known finding: exit 1 when the listed witness
still fails on the real code (finding still present), 0 when it no longer does."""
import sys
import warnings

warnings.simplefilter("ignore")
from pysmt.shortcuts import *   # noqa
from pysmt.typing import INT, BOOL, REAL, BVType, ArrayType


def c02_array_equality():
    from pysmt.solvers.eager import EagerModel
    f = Equals(Array(INT, Int(0)), Array(INT, Int(1)))
    try:
        v = EagerModel({}).get_value(f)
    except Exception:
        return True                     # raises instead of answering False
    return not v.is_false()


def c03_single_argument():
    from pysmt.environment import get_env
    m = get_env().formula_manager
    try:
        r = m.Min(String("a"))
        return r is not None
    except Exception:
        return False


def c02_py_value_array():
    from pysmt.solvers.eager import EagerModel
    from pysmt.typing import PySMTType
    try:
        v = EagerModel({}).get_py_value(Array(INT, Int(0)))
    except Exception:
        return False
    return isinstance(v, PySMTType)


CHECKS = {"c02-py-value-array": c02_py_value_array, "c03-single-argument": c03_single_argument, "c02-array-equality": c02_array_equality}

if __name__ == "__main__":
    sys.exit(1 if CHECKS[sys.argv[1]]() else 0)
