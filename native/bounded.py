"""Bounded stand-ins (labelled 'bounded' in evidence, never counted as proved).
usage: bounded.py <name> <tier> <seed>   -> one JSON line"""
import itertools
import json
import os
import random
import sys
import warnings

warnings.simplefilter("ignore")
sys.path.insert(0, os.path.dirname(os.path.dirname(os.path.abspath(__file__))))

from pysmt.environment import Environment, push_env, get_env
from pysmt.typing import BOOL, INT, REAL, STRING, BVType, ArrayType, FunctionType, Type

from native import refeval


def fresh_env():
    env = Environment()
    env.enable_infix_notation = True
    push_env(env)
    return env


def subtypes(t):
    return list(t.args) if getattr(t, "args", None) else []


def expand_types(tier, seed):
    env = fresh_env()
    tm = env.type_manager
    S_, T_ = Type("S"), Type("T")
    U = Type("U", 1)
    P = Type("P", 2)
    base = [BOOL, INT, REAL, STRING, BVType(8), S_, T_]
    lvl1 = [ArrayType(INT, S_), ArrayType(S_, T_), ArrayType(BVType(8), BOOL), U(S_), U(T_), U(INT), P(S_, T_), P(INT, S_),
            FunctionType(S_, [T_, INT]), FunctionType(BOOL, [S_])]
    lvl2 = [ArrayType(U(T_), INT), U(U(T_)), P(U(S_), T_), ArrayType(INT, ArrayType(S_, T_)), U(ArrayType(T_, S_)),
            FunctionType(U(T_), [P(S_, S_)])]
    pool = base + lvl1 + lvl2
    viol, n, nontrivial, samples = [], 0, 0, []
    combos = [(t,) for t in pool] + list(itertools.combinations(pool, 2))
    if tier == "thorough":
        combos += list(itertools.combinations(lvl1 + lvl2, 3))
    for ts in combos:
        n += 1
        L = env.typeso.expand_types(list(ts))
        if any(subtypes(t) for t in ts):
            nontrivial += 1
        pos = {}
        for i, t in enumerate(L):
            pos.setdefault(t, i)
        err = None
        for t in ts:
            if t not in pos:
                err = "input sort %s missing" % t
        for t in L:
            for s in subtypes(t):
                if s not in pos:
                    err = "component %s of %s missing" % (s, t)
        if len(set(L)) != len(L):
            err = "duplicates"
        if err:
            viol.append({"key": "expand_types", "input": [str(t) for t in ts], "output": [str(t) for t in L], "error": err})
            break
        if len(samples) < 3 and subtypes(ts[0]):
            samples.append({"input": [str(t) for t in ts], "output": [str(t) for t in L]})
    # get_types on formulas mentioning these sorts
    m = env.formula_manager
    for i, t in enumerate(lvl1 + lvl2):
        if t.is_function_type():
            continue
        n += 1
        nontrivial += 1
        x, y = m.Symbol("x%d" % i, t), m.Symbol("y%d" % i, t)
        got = set(env.typeso.get_types(m.Equals(x, y), custom_only=True))
        want = set()
        stack = [t]
        while stack:
            u = stack.pop()
            if u.is_custom_type():
                want.add(u)
            stack.extend(subtypes(u))
        if got != want:
            viol.append({"key": "get_types", "sort": str(t), "got": sorted(map(str, got)), "want": sorted(map(str, want))})
            break
    return {"name": "expand_types", "bounded": True, "evaluations": n, "distinct_nontrivial": nontrivial,
            "rule": "all single sorts and pairs (thorough: triples) from a pool of %d sorts incl. unary/binary sort "
                    "constructors nested to depth 2; non-trivial = has component sorts" % len(pool),
            "exhaustive": True, "samples": samples, "violations": viol}


CHECKS = {"expand_types": expand_types}

if __name__ == "__main__":
    name, tier, seed = sys.argv[1], sys.argv[2], int(sys.argv[3])
    try:
        from native import bounded_more
        CHECKS.update(bounded_more.CHECKS)
    except ImportError:
        pass
    for extra in ("bounded_opt", "bounded_smt", "bounded_solver", "bounded_hashcons", "bounded_work", "bounded_round3"):
        try:
            CHECKS.update(__import__("native." + extra, fromlist=["CHECKS"]).CHECKS)
        except ImportError:
            pass
    print(json.dumps(CHECKS[name](tier, seed), default=str))
