"""C10, the two Boolean quantifier-elimination procedures (pysmt/solvers/qelim.py): the callbacks
for a quantifier node, on the real bodies.

Two dimensions (x, y) stand for the Boolean variables that can be quantified; the value of a node
is a function of their truth values:  sem(n, bx, by).  Substitution is used through its contract
(the substitution lemma, C05):  sem(f[v := t], bx, by) = sem(f, ..) with v's dimension replaced by
the value of t at (bx, by).  The callback receives a quantifier-free body that has the value of
the original body at every point (induction hypothesis of the traversal).

    forall Y. f  ==  AND over the values of Y        exists Y. f  ==  OR over the values of Y
Obligation: the callback's result has, at every point, exactly that value, for Y = {y} and
Y = {x, y}; and mentions no quantifier (it is built from the body by substitution and And / Or)."""
import itertools

import z3

from pyvc import sorts as S
from pyvc.sorts import Node, B
from pyvc.symex import Obj, DictVal, is_node, is_z3, PyRaise, ExcVal, Unsupported
from pyvc import builtins_impl as BI
from pyvc.harness import Variant
from pyvc.world import Contract
from . import core

DEADLINE = {"quick": 200, "thorough": 600}
REPLAY_KIND = "rewriter"
QE = "pysmt.solvers.qelim."
sem = z3.Function("sem2", Node, B, B, S.Val)
POINTS = list(itertools.product([False, True], repeat=2))


class QeVariant(Variant):
    prop_ids = ("C10",)
    bounded = "arity"

    def __init__(self, world, cls, kind, nq):
        self.world, self.cls, self.kind, self.nq = world, cls, kind, nq
        self.qualname = QE + cls + ".walk_" + kind
        self.name = "qelim:%s.walk_%s[%d bound]" % (cls, kind, nq)

    def setup(self, ex):
        W = self.world
        env = core.make_env(ex, W)
        mgr = env.fields["_formula_manager"]
        x, y = z3.Const("x", Node), z3.Const("y", Node)
        self.x, self.y = x, y
        for v in (x, y):
            W.touch(ex, v)
            ex.assume(S.op(v) == S.SYMBOL)
            W.learn(ex, v, op=S.SYMBOL, k=0)
            ex.assume(S.pl_ty(v) == S.BoolT)
        ex.assume(x != y)
        for bx, by in POINTS:
            ex.assume(sem(x, bx, by) == S.VBool(bx))
            ex.assume(sem(y, bx, by) == S.VBool(by))
        self.qvars = [y] if self.nq == 1 else [x, y]
        f = z3.Const("quantified", Node)
        Kop = S.FORALL if self.kind == "forall" else S.EXISTS
        ex.assume(S.op(f) == Kop)
        W.learn(ex, f, op=Kop, k=1)
        ex.assume(S.nqv(f) == self.nq)
        for i, v in enumerate(self.qvars):
            ex.assume(S.qv(f, S.K(i)) == v)
        ex.ghost.setdefault("qvars_len", {})[f.get_id()] = self.nq
        self.f = f
        body = z3.Const("processed_body", Node)
        W.touch(ex, body)
        ex.assume(S.type_of(body) == S.BoolT)
        self.body = body
        v = self

        def dims(exx, node, bx, by):
            """sem of a node that is one of the known constants / variables, else the uninterpreted function"""
            return sem(node, bx, by)

        def substitute(exx, a, kw):
            fm, subs = a[0], a[1] if len(a) > 1 else kw.get("subs")
            items = subs.items if isinstance(subs, DictVal) else list(subs.items())
            r = exx.fresh("substituted", Node)
            W.touch(exx, r)
            exx.assume(S.type_of(r) == S.type_of(fm))
            for bx, by in POINTS:
                nbx, nby = z3.BoolVal(bx), z3.BoolVal(by)
                for k, t in items:
                    # only the two dimensions can be substituted here (the quantified variables)
                    isx, isy = k == v.x, k == v.y
                    tv = S.vb(sem(t, bx, by))
                    nbx = z3.If(isx, tv, nbx)
                    nby = z3.If(isy, tv, nby)
                exx.assume(sem(r, bx, by) == sem(fm, nbx, nby))
            return r

        def bool_const(exx, a, kw):
            val = a[1]
            c = core.bool_node(exx, W, bool(val)) if isinstance(val, bool) else None
            if c is None:
                raise Unsupported("symbolic Bool()")
            for bx, by in POINTS:
                exx.assume(sem(c, bx, by) == S.VBool(bool(val)))
            return c

        def const_true(exx, a, kw):
            return bool_const(exx, [None, True], {})

        def const_false(exx, a, kw):
            return bool_const(exx, [None, False], {})

        def nary(is_and):
            def f_(exx, a, kw):
                args = a[1:]
                if len(args) == 1 and isinstance(args[0], (list, tuple)):
                    args = list(args[0])
                r = exx.fresh("and" if is_and else "or", Node)
                W.touch(exx, r)
                exx.assume(S.type_of(r) == S.BoolT)
                for bx, by in POINTS:
                    vs = [S.vb(sem(t, bx, by)) for t in args]
                    exx.assume(sem(r, bx, by) == S.VBool(z3.And(vs) if is_and else z3.Or(vs)))
                return r
            return f_

        def all_assignments(exx, a, kw):
            vs = list(BI.iterate(W, exx, a[0]))
            out = []
            for combo in itertools.product([False, True], repeat=len(vs)):
                out.append(DictVal([[vv, bool_const(exx, [None, b], {})] for vv, b in zip(vs, combo)]))
            return out

        class C(Contract):
            def __init__(self, q, fn):
                self.qualname, self.fn = q, fn

            def apply(self, exx, a, kw):
                return self.fn(exx, a, kw)
        for q, fn in (("pysmt.fnode.FNode.substitute", substitute), ("pysmt.formula.FormulaManager.Bool", bool_const),
                      ("pysmt.formula.FormulaManager.TRUE", const_true), ("pysmt.formula.FormulaManager.FALSE", const_false),
                      ("pysmt.formula.FormulaManager.And", nary(True)), ("pysmt.formula.FormulaManager.Or", nary(False)),
                      ("pysmt.utils.all_assignments", all_assignments)):
            c = C(q, fn)
            c.world = W
            W.contracts[q] = c
        walker = Obj(QE + self.cls, {"env": env, "mgr": mgr}, tag="qe")
        fi = W.repo.func(self.qualname)
        return W.wrap_func(fi, fi.module, bound=walker), [f], {"args": [body]}

    def check(self, ex, outcome):
        kind, r = outcome
        if kind == "raise" or not is_node(r):
            return [("no-exception", z3.BoolVal(False))]
        goals = []
        for bx, by in POINTS:
            if self.nq == 1:
                vals = [S.vb(sem(self.body, bx, b)) for b in (False, True)]
            else:
                vals = [S.vb(sem(self.body, b1, b2)) for b1, b2 in POINTS]
            want = z3.And(vals) if self.kind == "forall" else z3.Or(vals)
            goals.append(("same-value-at-x=%s-y=%s" % (bx, by), S.vb(sem(r, bx, by)) == want))
        return goals


def variants(world, tier="quick", only=None):
    out = []
    for cls in ("ShannonQuantifierEliminator", "SelfSubstitutionQuantifierEliminator"):
        for kind in ("forall", "exists"):
            for nq in (1, 2):
                out.append(QeVariant(world, cls, kind, nq))
    if only:
        out = [v for v in out if any(o in v.name for o in only)]
    return out
