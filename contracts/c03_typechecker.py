"""C03 (part a): every SimpleTypeChecker.walk_<op> computes the typing-rule table
of pyvc/spec.py: the type when the rule is defined, None or an error when not —
for ALL argument type tuples (well- and ill-sorted) and payloads."""
import z3

from pyvc import sorts as S
from pyvc import spec
from pyvc.sorts import Node, Ty
from pyvc.symex import is_ty
from pyvc.harness import Variant
from . import core

WALKER = "pysmt.type_checker.SimpleTypeChecker"
ARITIES = {S.AND: (2, 3), S.OR: (2, 3), S.PLUS: (2, 3), S.TIMES: (2, 3), S.STR_CONCAT: (2, 3),
           S.FUNCTION: (1, 2, 3), S.ARRAY_VALUE: (1, 3, 5)}
# the table only constrains applications with the operator's arity (the
# constructors never build others); wrong arities are exercised separately
DEADLINE = {"quick": 120, "thorough": 600}
REPLAY_KIND = "typing-rule"


class TypingRuleVariant(Variant):
    prop_ids = ("C03",)

    def __init__(self, world, Kop, k, target):
        self.world, self.Kop, self.k = world, Kop, k
        self.qualname = target
        self.name = "%s[%s/%d]" % (target.rsplit(".", 1)[1], S.OPNAMES[Kop], k)
        if Kop in ARITIES:
            self.bounded = "arity"

    def setup(self, ex):
        W = self.world
        env = core.make_env(ex, W)
        stc = env.fields["_stc"]
        stc.fields["be_nice"] = False
        f = z3.Const("formula", Node)
        self.formula = f
        # node under construction: content only, no invariant
        ex.assume(S.op(f) == self.Kop)
        ex.assume(S.nargs(f) == self.k)
        W.learn(ex, f, op=self.Kop, k=self.k, raw=True)
        self.at = [z3.Const("t%d" % i, Ty) for i in range(self.k)]
        for i, t in enumerate(self.at):
            c = S.arg(f, S.K(i))
            W.touch(ex, c)                      # children exist already: well-typed nodes
            ex.assume(S.type_of(c) == t)
            ex.assume(spec.valid_type(t))
            ex.assume(z3.Not(Ty.is_FunT(t)))      # arguments are terms, not function symbols (stated assumption)
        if self.Kop == S.FUNCTION:
            W.touch(ex, S.pl_node(f))           # the function name is an existing symbol node
            ex.assume(S.op(S.pl_node(f)) == S.SYMBOL)
            W.learn(ex, S.pl_node(f), op=S.SYMBOL, k=0)
        if self.Kop == S.POW:
            ex.assume(S.isconst(S.arg(f, S.K(1))))
        ex.assume(spec.payload_wf(self.Kop, f, self.at))
        if self.Kop in S.QUANT_OPS:
            for n in (1, 2, 3):
                ex.assume(z3.Implies(S.nqv(f) == n, S.qv_ok(f) == z3.And(
                    [S.op(S.qv(f, S.K(i))) == S.SYMBOL for i in range(n)])))
            for i in range(3):
                W.touch(ex, S.qv(f, S.K(i)))
        # accessors of the node under construction are executed from source
        self.saved = W.contracts.pop("pysmt.fnode.FNode.bv_width", None)
        fi = W.repo.func(self.qualname)
        fn = W.wrap_func(fi, fi.module, bound=stc)
        return fn, [f], {"args": list(self.at)}

    def check(self, ex, outcome):
        if self.saved is not None:
            self.world.contracts["pysmt.fnode.FNode.bv_width"] = self.saved
        ok, ty = spec.type_rule(self.Kop, self.formula, self.at)
        kind, v = outcome
        if kind == "raise":
            return [("error-only-if-ill-typed", z3.Not(ok))]
        if v is None:
            v = S.NoneT
        if not is_ty(v):
            return [("returns-type-or-None", z3.BoolVal(False))]
        return [("type-when-well-typed", z3.Implies(ok, v == ty)),
                ("rejected-when-ill-typed", z3.Implies(z3.Not(ok), v == S.NoneT))]

    def witness(self, model, ex):
        from pyvc.concretize import ty_to_json, node_to_json
        return {"op": S.OPNAMES[self.Kop], "argtypes": [ty_to_json(model, t) for t in self.at],
                "formula": node_to_json(model, self.formula, depth=0)}


def variants(world, tier="quick", only=None):
    disp = world.repo.dispatch(WALKER)
    out = []
    for Kop in range(S.NOPS):
        target = disp.get(Kop)
        if target is None or target.endswith("walk_error"):
            continue
        if Kop == S.ALGEBRAIC_CONSTANT:
            continue
        if only and S.OPNAMES[Kop] not in only and target.rsplit(".", 1)[1] not in only:
            continue
        for k in ARITIES.get(Kop, (S.FIXED_ARITY.get(Kop),)):
            out.append(TypingRuleVariant(world, Kop, k, target))
    return out
