"""C03 (part a): every SimpleTypeChecker.walk_<op> computes the typing-rule table
of pyvc/spec.py: the type when the rule is defined, None or an error when not —
for ALL argument type tuples (well- and ill-sorted) and payloads."""
import z3

from pyvc import sorts as S
from pyvc import spec
from pyvc.sorts import Node, Ty, I
from pyvc.symex import is_ty, is_z3, Unsupported
from pyvc import builtins_impl as BI
from pyvc.harness import Variant
from . import core

WALKER = "pysmt.type_checker.SimpleTypeChecker"
ARITIES = {S.AND: (2, 3), S.OR: (2, 3), S.PLUS: (2, 3), S.TIMES: (2, 3), S.STR_CONCAT: (2, 3),
           S.FUNCTION: (1, 2, 3), S.ARRAY_VALUE: (1, 3, 5)}
# the table only constrains applications with the operator's arity (the
# constructors never build others); wrong arities are exercised separately
DEADLINE = {"quick": 120, "thorough": 600}
REPLAY_KIND = "typing-rule"


class TypingRuleVariant(Variant):
    prop_ids = ("C03",)

    def __init__(self, world, Kop, k, target):
        self.world, self.Kop, self.k = world, Kop, k
        self.qualname = target
        self.name = "%s[%s/%d]" % (target.rsplit(".", 1)[1], S.OPNAMES[Kop], k)
        if Kop in ARITIES:
            self.bounded = "arity"

    def setup(self, ex):
        W = self.world
        env = core.make_env(ex, W)
        stc = env.fields["_stc"]
        stc.fields["be_nice"] = False
        f = z3.Const("formula", Node)
        self.formula = f
        # node under construction: content only, no invariant
        ex.assume(S.op(f) == self.Kop)
        ex.assume(S.nargs(f) == self.k)
        W.learn(ex, f, op=self.Kop, k=self.k, raw=True)
        self.at = [z3.Const("t%d" % i, Ty) for i in range(self.k)]
        for i, t in enumerate(self.at):
            c = S.arg(f, S.K(i))
            W.touch(ex, c)                      # children exist already: well-typed nodes
            ex.assume(S.type_of(c) == t)
            ex.assume(spec.valid_type(t))
            ex.assume(z3.Not(Ty.is_FunT(t)))      # arguments are terms, not function symbols (stated assumption)
        if self.Kop == S.FUNCTION:
            W.touch(ex, S.pl_node(f))           # the function name is an existing symbol node
            ex.assume(S.op(S.pl_node(f)) == S.SYMBOL)
            W.learn(ex, S.pl_node(f), op=S.SYMBOL, k=0)
        if self.Kop == S.POW:
            ex.assume(S.isconst(S.arg(f, S.K(1))))
        ex.assume(spec.payload_wf(self.Kop, f, self.at))
        if self.Kop in S.QUANT_OPS:
            for n in (1, 2, 3):
                ex.assume(z3.Implies(S.nqv(f) == n, S.qv_ok(f) == z3.And(
                    [S.op(S.qv(f, S.K(i))) == S.SYMBOL for i in range(n)])))
            for i in range(3):
                W.touch(ex, S.qv(f, S.K(i)))
        # accessors of the node under construction are executed from source
        self.saved = W.contracts.pop("pysmt.fnode.FNode.bv_width", None)
        fi = W.repo.func(self.qualname)
        fn = W.wrap_func(fi, fi.module, bound=stc)
        return fn, [f], {"args": list(self.at)}

    def check(self, ex, outcome):
        if self.saved is not None:
            self.world.contracts["pysmt.fnode.FNode.bv_width"] = self.saved
        ok, ty = spec.type_rule(self.Kop, self.formula, self.at)
        kind, v = outcome
        if kind == "raise":
            return [("error-only-if-ill-typed", z3.Not(ok))]
        if v is None:
            v = S.NoneT
        if not is_ty(v):
            return [("returns-type-or-None", z3.BoolVal(False))]
        return [("type-when-well-typed", z3.Implies(ok, v == ty)),
                ("rejected-when-ill-typed", z3.Implies(z3.Not(ok), v == S.NoneT))]

    def witness(self, model, ex):
        from pyvc.concretize import ty_to_json, node_to_json
        return {"op": S.OPNAMES[self.Kop], "argtypes": [ty_to_json(model, t) for t in self.at],
                "formula": node_to_json(model, self.formula, depth=0)}


def variants(world, tier="quick", only=None):
    disp = world.repo.dispatch(WALKER)
    out = []
    for Kop in range(S.NOPS):
        target = disp.get(Kop)
        if target is None or target.endswith("walk_error"):
            continue
        if Kop == S.ALGEBRAIC_CONSTANT:
            continue
        if only and S.OPNAMES[Kop] not in only and target.rsplit(".", 1)[1] not in only:
            continue
        for k in ARITIES.get(Kop, (S.FIXED_ARITY.get(Kop),)):
            out.append(TypingRuleVariant(world, Kop, k, target))
    return out


# ---------------------------------------------------------------------------
# pysmt/typing.py at the object level: which type objects are the same sort
# ---------------------------------------------------------------------------
class TypeIdentityVariant(Variant):
    """The other contracts use sorts as values of the datatype Ty (two sorts are equal iff they are the same built-in sort
    or instances of the same declaration on equal arguments).  Here the real constructors and the real __eq__ / __hash__ of
    the type objects run from source: a sort declared by the user (name arbitrary, also the name of a built-in sort) is
    never equal to a built-in sort, two declared nullary sorts are equal exactly when their names are, the built-in
    singletons are pairwise different and equal to themselves, and equal sorts have equal hashes."""
    prop_ids = ("C03",)
    replay_kind = "sort-identity"

    def __init__(self, world, left, right):
        self.world, self.left, self.right = world, left, right
        self.qualname = "pysmt.typing.PySMTType.__eq__"
        self.name = "sorts:%s==%s" % (left, right)

    BUILTIN = {"Bool": "_BoolType", "Int": "_IntType", "Real": "_RealType", "String": "_StringType"}

    def mk(self, ex, what, tag):
        from pyvc.symex import ClassRef
        W = self.world
        if what in self.BUILTIN:
            return W.instantiate(ex, ClassRef("pysmt.typing." + self.BUILTIN[what]), [], {}), what
        # a declared sort of arity 0: TypeManager.get_type_instance builds PySMTType(decl=<declaration>, args=<the tuple of arguments>)
        name = z3.Const("declared_name_" + tag, z3.StringSort())
        ex.assume(z3.Length(name) > 0)
        decl = W.instantiate(ex, ClassRef("pysmt.typing._TypeDecl"), [name, 0], {})
        ex.call(W.getattr(ex, decl, "set_custom_type_flag"), [], {})
        return W.instantiate(ex, ClassRef("pysmt.typing.PySMTType"), [], {"decl": decl, "args": ()}), name

    def setup(self, ex):
        W = self.world
        for q in [q for q in list(W.contracts) + list(W.builtins) if str(q).startswith("new:pysmt.typing.")]:
            W.contracts.pop(q, None)
        self.a, self.na = self.mk(ex, self.left, "a")
        self.b, self.nb = self.mk(ex, self.right, "b")
        return W.getattr(ex, self.a, "__eq__"), [self.b], {}

    def check(self, ex, outcome):
        kind, r = outcome
        if kind == "raise":
            return [("no-exception", z3.BoolVal(False))]
        W = self.world
        rz = r if is_z3(r) else z3.BoolVal(bool(r))
        lb, rb = self.left in self.BUILTIN, self.right in self.BUILTIN
        if lb and rb:
            want = z3.BoolVal(self.left == self.right)
        elif lb != rb:
            want = z3.BoolVal(False)          # a declared sort is not a built-in sort, whatever its name
        else:
            want = self.na == self.nb
        goals = [("same-sort-exactly-when-specified", rz == want)]
        ha = ex.call(W.getattr(ex, self.a, "__hash__"), [], {})
        hb = ex.call(W.getattr(ex, self.b, "__hash__"), [], {})
        try:
            he = BI._eq(W, ex, ha, hb)
            he = he if is_z3(he) else z3.BoolVal(bool(he))
            goals.append(("equal-sorts-have-equal-hashes", z3.Implies(rz, he)))
        except Exception:
            pass
        return goals


_base_variants3 = variants


def variants(world, tier="quick", only=None):
    out = _base_variants3(world, tier, None)
    kinds = ["Bool", "Int", "Real", "String", "declared"]
    for i, a in enumerate(kinds):
        for b in kinds[i:] if tier == "quick" else kinds:
            out.append(TypeIdentityVariant(world, a, b))
    if only:
        out = [v for v in out if any(o in v.name for o in only)]
    return out


def extras(prop, tier, seed):
    if prop != "C03":
        return []
    from pyvc.report import run_bounded
    return [run_bounded("sorts", tier, seed)]


class SortArityVariant(Variant):
    """PySMTType(decl, args): an instance of a declared sort constructor of arity n on k argument sorts exists exactly when
    k = n (an attempt with another number of arguments raises)."""
    prop_ids = ("C03",)
    replay_kind = "sort-identity"

    def __init__(self, world, n, k, spelling):
        self.world, self.n, self.k, self.spelling = world, n, k, spelling
        self.qualname = "pysmt.typing.PySMTType.__init__"
        self.name = "sorts:arity[declared %d/given %d as %s]" % (n, k, spelling)

    def setup(self, ex):
        from pyvc.symex import ClassRef, Obj
        W = self.world
        for q in [q for q in list(W.contracts) + list(W.builtins) if str(q).startswith("new:pysmt.typing.")]:
            W.contracts.pop(q, None)
        name = z3.Const("declared_name", z3.StringSort())
        ex.assume(z3.Length(name) > 0)
        decl = W.instantiate(ex, ClassRef("pysmt.typing._TypeDecl"), [name, self.n], {})
        ex.call(W.getattr(ex, decl, "set_custom_type_flag"), [], {})
        args = [S.IntT, S.BoolT][:self.k]
        args = tuple(args) if self.spelling == "tuple" else (list(args) if self.spelling == "list" else None)
        self.o = Obj("pysmt.typing.PySMTType", {}, tag="sort")
        fi = W.repo.method("pysmt.typing.PySMTType", "__init__")
        return W.wrap_func(fi, fi.module, bound=self.o), [], {"decl": decl, "args": args}

    def check(self, ex, outcome):
        kind, r = outcome
        ok = self.n == self.k
        return [("instance-exists-exactly-for-the-declared-arity", z3.BoolVal((kind == "return") == ok))]


_base_variants3b = variants


def variants(world, tier="quick", only=None):
    out = _base_variants3b(world, tier, None)
    for n in (0, 1, 2):
        for k in (0, 1, 2):
            for sp in (("tuple", "list") + (("none",) if k == 0 else ())):
                out.append(SortArityVariant(world, n, k, sp))
    if only:
        out = [v for v in out if any(o in v.name for o in only)]
    return out


class BvSortInternVariant(Variant):
    """TypeManager.BVType(w) on a table holding one bit-vector sort of an arbitrary positive width: a non-positive width is an
    error and leaves the table as it was (asking again fails again); a positive width returns THE sort of that width - the
    stored one or a new one of exactly that width, which is then stored."""
    prop_ids = ("C03", "C15")
    replay_kind = "sort-identity"

    def __init__(self, world, positive):
        self.world, self.positive = world, positive
        self.qualname = "pysmt.typing.TypeManager.BVType"
        self.name = "sorts:bit-vector-width[%s]" % ("positive" if positive else "non-positive")

    def setup(self, ex):
        from pyvc.symex import ClassRef, Obj, DictVal
        W = self.world
        for q in [q for q in list(W.contracts) + list(W.builtins) if str(q).startswith("new:pysmt.typing.")]:
            W.contracts.pop(q, None)
        I_ = z3.IntSort()
        self.w0 = z3.Const("stored_width", I_)
        ex.assume(self.w0 >= 1)
        self.t0 = Obj("pysmt.typing._BVType", {"_width": self.w0, "basename": None, "args": None, "arity": 0, "custom_type": False}, tag="stored-sort")
        self.table = DictVal([[self.w0, self.t0]])
        self.tm = Obj("pysmt.typing.TypeManager", {"_bv_types": self.table}, tag="type-manager")
        self.w = z3.Const("width", I_)
        ex.assume(self.w >= 1 if self.positive else self.w <= 0)
        fi = W.repo.method("pysmt.typing.TypeManager", "BVType")
        return W.wrap_func(fi, fi.module, bound=self.tm), [self.w], {}

    def check(self, ex, outcome):
        from pyvc.symex import Obj
        kind, r = outcome
        items = self.table.items
        if not self.positive:
            same = len(items) == 1 and items[0][1] is self.t0
            return [("non-positive-width-is-an-error", z3.BoolVal(kind == "raise")),
                    ("table-left-as-it-was", z3.BoolVal(bool(same)))]
        if kind == "raise":
            return [("no-exception", z3.BoolVal(False))]
        if not isinstance(r, Obj):
            return [("returns-a-sort-object", z3.BoolVal(False))]
        wr = r.fields.get("_width")
        wr = wr if is_z3(wr) else z3.IntVal(wr)
        goals = [("sort-of-exactly-that-width", wr == self.w),
                 ("stored-sort-reused-for-its-width", z3.Implies(self.w == self.w0, z3.BoolVal(r is self.t0))),
                 ("sort-is-in-the-table-afterwards", z3.BoolVal(any(v is r for _, v in items)))]
        return goals


_base_variants3c = variants


def variants(world, tier="quick", only=None):
    out = _base_variants3c(world, tier, None) + [BvSortInternVariant(world, True), BvSortInternVariant(world, False)]
    if only:
        out = [v for v in out if any(o in v.name for o in only)]
    return out


class CompositeSortIdentityVariant(Variant):
    """The real __eq__ / __hash__ of the composite sorts, run from source on instances built by the real constructors over
    built-in component sorts: two function sorts are equal exactly when the return sorts and the parameter sorts are, two array
    sorts exactly when index and element sorts are, two bit-vector sorts exactly when the widths are; sorts of different
    families are different; equal sorts have equal hashes."""
    prop_ids = ("C03",)
    replay_kind = "sort-identity"
    BUILTIN = TypeIdentityVariant.BUILTIN

    def __init__(self, world, family, left, right):
        self.world, self.family, self.left, self.right = world, family, left, right
        self.qualname = {"function": "pysmt.typing._FunctionType.__eq__", "array": "pysmt.typing.PySMTType.__eq__",
                         "bv": "pysmt.typing._BVType.__eq__", "mixed": "pysmt.typing.PySMTType.__eq__"}[family]
        self.name = "sorts:%s[%s vs %s]" % (family, "/".join(map(str, left)), "/".join(map(str, right)))

    def base(self, ex, what):
        # the built-in sorts are singletons (typing.BOOL / INT / REAL / STRING): one object per kind, shared by both sides
        from pyvc.symex import ClassRef
        cache = ex.ghost.setdefault("builtin_sort_objects", {})
        if what not in cache:
            cache[what] = self.world.instantiate(ex, ClassRef("pysmt.typing." + self.BUILTIN[what]), [], {})
        return cache[what]

    def mk(self, ex, fam, comps, tag):
        from pyvc.symex import ClassRef
        W = self.world
        if fam == "function":
            return W.instantiate(ex, ClassRef("pysmt.typing._FunctionType"), [self.base(ex, comps[0]), [self.base(ex, c) for c in comps[1:]]], {})
        if fam == "array":
            return W.instantiate(ex, ClassRef("pysmt.typing._ArrayType"), [self.base(ex, comps[0]), self.base(ex, comps[1])], {})
        if fam == "bv":
            w = z3.Const("width_" + tag, I)
            ex.assume(w >= 1)
            setattr(self, "w_" + tag, w)
            return W.instantiate(ex, ClassRef("pysmt.typing._BVType"), [w], {})
        raise KeyError(fam)

    def setup(self, ex):
        W = self.world
        for q in [q for q in list(W.contracts) + list(W.builtins) if str(q).startswith("new:pysmt.typing.")]:
            W.contracts.pop(q, None)
        if self.family == "mixed":
            self.a = self.mk(ex, self.left[0], self.left[1:], "a")
            self.b = self.mk(ex, self.right[0], self.right[1:], "b")
        else:
            self.a = self.mk(ex, self.family, self.left, "a")
            self.b = self.mk(ex, self.family, self.right, "b")
        return W.getattr(ex, self.a, "__eq__"), [self.b], {}

    def check(self, ex, outcome):
        kind, r = outcome
        if kind == "raise":
            return [("no-exception", z3.BoolVal(False))]
        W = self.world
        rz = r if is_z3(r) else z3.BoolVal(bool(r))
        if self.family == "bv":
            want = self.w_a == self.w_b
        elif self.family == "mixed":
            want = z3.BoolVal(False)
        else:
            want = z3.BoolVal(tuple(self.left) == tuple(self.right))
        goals = [("same-sort-exactly-when-the-components-are", rz == want)]
        if self.family in ("bv", "function"):
            return goals           # hash(width) / the sum of component hashes: Python's hash of an int and sum() over hashes are not modelled
        try:
            ha = ex.call(W.getattr(ex, self.a, "__hash__"), [], {})
            hb = ex.call(W.getattr(ex, self.b, "__hash__"), [], {})
            he = BI._eq(W, ex, ha, hb)
            he = he if is_z3(he) else z3.BoolVal(bool(he))
            goals.append(("equal-sorts-have-equal-hashes", z3.Implies(rz, he)))
        except Unsupported:
            pass
        return goals


_base_variants3z = variants


def variants(world, tier="quick", only=None):
    out = _base_variants3z(world, tier, None)
    fam = [("function", ("Int", "Int"), ("Int", "Int")), ("function", ("Int", "Int"), ("Real", "Int")), ("function", ("Int", "Int"), ("Int", "Real")),
           ("function", ("Bool", "Int", "Real"), ("Bool", "Int", "Real")), ("function", ("Bool", "Int", "Real"), ("Bool", "Real", "Int")),
           ("function", ("Int", "Int"), ("Int", "Int", "Int")),
           ("array", ("Int", "Real"), ("Int", "Real")), ("array", ("Int", "Real"), ("Real", "Int")), ("array", ("Int", "Real"), ("Int", "Int")),
           ("array", ("Int", "Real"), ("Real", "Real")), ("bv", (), ()),
           ("mixed", ("function", "Int", "Int"), ("array", "Int", "Int")), ("mixed", ("array", "Int", "Int"), ("function", "Int", "Int")),
           ("mixed", ("bv",), ("array", "Int", "Int")), ("mixed", ("function", "Int", "Int"), ("bv",))]
    for f, l, r in fam:
        out.append(CompositeSortIdentityVariant(world, f, l, r))
    if only:
        out = [v for v in out if any(o in v.name for o in only)]
    return out
