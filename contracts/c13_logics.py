"""C13: theory / logic ordering, selection of the closest logic, and bottom-up
theory detection.  Theories are records of 12 Booleans: the real method bodies
are executed on symbolic records, so the statements hold for EVERY theory that
satisfies the class invariant, not only the named ones."""
import z3

from pyvc import sorts as S
from pyvc import spec
from pyvc.sorts import Node, Ty, B
from pyvc.symex import Obj, is_z3, PyRaise, ExcVal
from pyvc.harness import Variant
from pyvc import builtins_impl as BI
from . import core

DEADLINE = {"quick": 200, "thorough": 900}
REPLAY_KIND = "logic"
FIELDS = ["arrays", "arrays_const", "bit_vectors", "floating_point", "integer_arithmetic", "real_arithmetic",
          "integer_difference", "real_difference", "linear", "uninterpreted", "custom_type", "strings"]
THEORY = "pysmt.logics.Theory"
LOGIC = "pysmt.logics.Logic"
ARITIES = {S.AND: (2, 3), S.OR: (2, 3), S.PLUS: (2, 3), S.TIMES: (2, 3), S.STR_CONCAT: (2, 3),
           S.FUNCTION: (1, 2), S.ARRAY_VALUE: (1, 3)}


def sym_theory(ex, name, invariant=True):
    o = Obj(THEORY, {f: z3.Const("%s_%s" % (name, f), B) for f in FIELDS}, tag=name)
    if invariant:
        ex.assume(inv(o))
    return o


def fld(o, f):
    v = o.fields[f]
    return v if is_z3(v) else z3.BoolVal(bool(v))


def inv(o):
    """class invariant of Theory (established by its constructor's assert and the set_* helpers)"""
    return z3.And(z3.Implies(fld(o, "integer_difference"), fld(o, "integer_arithmetic")),
                  z3.Implies(fld(o, "real_difference"), fld(o, "real_arithmetic")),
                  z3.Implies(fld(o, "arrays_const"), fld(o, "arrays")))


def same(a, b):
    return z3.And([fld(a, f) == fld(b, f) for f in FIELDS])


def spec_le(a, b):
    """'a is at most as expressive as b' (every feature a formula of a may use is available in b)"""
    mono = ["arrays", "arrays_const", "bit_vectors", "floating_point", "integer_arithmetic", "real_arithmetic",
            "uninterpreted", "custom_type", "strings"]
    cs = [z3.Implies(fld(a, f), fld(b, f)) for f in mono]
    cs.append(z3.Implies(fld(b, "linear"), fld(a, "linear")))
    cs.append(z3.Implies(fld(b, "integer_difference"), z3.Or(fld(a, "integer_difference"), z3.Not(fld(a, "integer_arithmetic")))))
    cs.append(z3.Implies(fld(b, "real_difference"), z3.Or(fld(a, "real_difference"), z3.Not(fld(a, "real_arithmetic")))))
    return z3.And(cs)


def call_method(ex, world, obj, name, args):
    fi = world.repo.method(obj.cls, name)
    return ex.call(world.wrap_func(fi, fi.module, bound=obj), list(args), {})


def tb(ex, v):
    t = ex.truth(v)
    return t if is_z3(t) else z3.BoolVal(bool(t))


class OrderVariant(Variant):
    """order axioms of Theory.__le__ / __eq__ / combine (and their lifting to Logic)"""
    prop_ids = ("C13",)

    def __init__(self, world, what):
        self.world, self.what = world, what
        self.qualname = "pysmt.logics.Theory.__le__" if "logic" not in what else "pysmt.logics.Logic.__le__"
        self.name = "order:" + what

    def setup(self, ex):
        W = self.world
        core.make_env(ex, W)
        a, b, c = (sym_theory(ex, n) for n in "abc")
        self.a, self.b, self.c = a, b, c

        def driver(exx, args, kw):
            w = self.what
            le = lambda x, y: tb(exx, call_method(exx, W, x, "__le__", [y]))
            eq = lambda x, y: tb(exx, call_method(exx, W, x, "__eq__", [y]))
            if w == "le-reflexive":
                return [("reflexive", le(a, a))]
            if w == "le-antisymmetric":
                return [("antisymmetric", z3.Implies(z3.And(le(a, b), le(b, a)), eq(a, b)))]
            if w == "le-transitive":
                return [("transitive", z3.Implies(z3.And(le(a, b), le(b, c)), le(a, c)))]
            if w == "le-meaning":
                return [("le-is-expressiveness", le(a, b) == spec_le(a, b))]
            if w == "eq-meaning":
                return [("eq-is-field-equality", eq(a, b) == same(a, b))]
            if w == "combine-upper-bound":
                u = call_method(exx, W, a, "combine", [b])
                return [("combine-preserves-invariant", inv(u)), ("upper-bound-left", le(a, u)), ("upper-bound-right", le(b, u)),
                        ("least-upper-bound", z3.Implies(z3.And(spec_le(a, c), spec_le(b, c)), spec_le(u, c)))]
            if w == "copy":
                u = call_method(exx, W, a, "copy", [])
                return [("copy-equal", same(u, a)), ("copy-fresh", z3.BoolVal(u is not a))]
            if w.startswith("set_"):
                # the helpers are used to ENABLE a feature (value True) or to clear linear / difference flags
                val = z3.Const("flag", B)
                if w in ("set_lira", "set_arrays", "set_strings", "set_arrays_const"):
                    val = True
                u = call_method(exx, W, a, w, [val])
                return [("setter-copies", z3.BoolVal(u is not a)), ("setter-preserves-invariant", inv(u)),
                        ("setter-only-grows" if val is True else "setter-sets-flag",
                         spec_le(a, u) if val is True else z3.BoolVal(True))]
            if w.startswith("logic-"):
                la, lb, lc = (Obj(LOGIC, {"name": "L%d" % i, "description": "", "quantifier_free": z3.Const("qf%d" % i, B),
                                          "theory": t}) for i, t in enumerate((a, b, c)))
                lle = lambda x, y: tb(exx, call_method(exx, W, x, "__le__", [y]))
                llt = lambda x, y: tb(exx, call_method(exx, W, x, "__lt__", [y]))
                if w == "logic-le-reflexive":
                    return [("reflexive", lle(la, la))]
                if w == "logic-le-transitive":
                    return [("transitive", z3.Implies(z3.And(lle(la, lb), lle(lb, lc)), lle(la, lc)))]
                if w == "logic-le-meaning":
                    return [("le-is-expressiveness", lle(la, lb) == z3.And(spec_le(a, b), z3.Implies(
                        z3.Not(la.fields["quantifier_free"]), z3.Not(lb.fields["quantifier_free"]))))]
                if w == "logic-lt-strict":
                    return [("lt-implies-le", z3.Implies(llt(la, lb), lle(la, lb))), ("lt-irreflexive", z3.Not(llt(la, la)))]
                if w == "logic-ge-gt":
                    ge = tb(exx, call_method(exx, W, la, "__ge__", [lb]))
                    gt = tb(exx, call_method(exx, W, la, "__gt__", [lb]))
                    return [("ge-is-converse", ge == lle(lb, la)), ("gt-is-converse", gt == llt(lb, la))]
            raise KeyError(w)
        from pyvc.symex import Builtin
        return Builtin("order-driver", driver), [], {}

    def check(self, ex, outcome):
        kind, r = outcome
        if kind == "raise":
            return [("no-exception", z3.BoolVal(False))]
        return r

    def witness(self, model, ex):
        def t(o):
            return {f: z3.is_true(model.eval(fld(o, f), model_completion=True)) for f in FIELDS}
        return {"a": t(self.a), "b": t(self.b), "c": t(self.c)}


class ClosestLogicVariant(Variant):
    """get_closer_logic(supported, target) for k supported logics with arbitrary theories"""
    prop_ids = ("C13",)
    qualname = "pysmt.logics.get_closer_logic"
    bounded = "arity"

    def __init__(self, world, k):
        self.world, self.k = world, k
        self.name = "select:get_closer_logic/%d" % k

    def mk_logic(self, ex, nm):
        t = sym_theory(ex, nm)
        return Obj(LOGIC, {"name": nm, "description": "", "quantifier_free": z3.Const("qf_" + nm, B), "theory": t}, tag=nm)

    def setup(self, ex):
        W = self.world
        core.make_env(ex, W)
        self.sup = [self.mk_logic(ex, "S%d" % i) for i in range(self.k)]
        self.target = self.mk_logic(ex, "T")
        # as for the named logics: two different supported logics are never equally expressive
        for i, x in enumerate(self.sup):
            for y in self.sup[i + 1:]:
                ex.assume(z3.Not(z3.And(self.lle(x, y), self.lle(y, x))))
        fi = W.repo.func(self.qualname)
        return W.wrap_func(fi, fi.module), [list(self.sup), self.target], {}

    def lle(self, x, y):
        return z3.And(spec_le(x.fields["theory"], y.fields["theory"]),
                      z3.Implies(z3.Not(x.fields["quantifier_free"]), z3.Not(y.fields["quantifier_free"])))

    def check(self, ex, outcome):
        kind, r = outcome
        cands = [self.lle(self.target, s) for s in self.sup]
        if kind == "raise":
            if r.cls == "NoLogicAvailableError":
                return [("error-only-without-candidate", z3.Not(z3.Or(cands)) if cands else z3.BoolVal(True))]
            return [("no-other-exception", z3.BoolVal(False))]
        if not any(r is s for s in self.sup):
            return [("result-is-supported", z3.BoolVal(False))]
        goals = [("result-above-target", self.lle(self.target, r))]
        for s in self.sup:
            if s is not r:
                goals.append(("nothing-strictly-between", z3.Not(z3.And(self.lle(self.target, s), self.lle(s, r),
                                                                        z3.Not(self.lle(r, s))))))
        return goals


class MostGenericVariant(Variant):
    prop_ids = ("C13",)
    qualname = "pysmt.logics.most_generic_logic"
    bounded = "arity"

    def __init__(self, world, k):
        self.world, self.k = world, k
        self.name = "select:most_generic_logic/%d" % k

    setup_logic = ClosestLogicVariant.mk_logic
    lle = ClosestLogicVariant.lle

    def setup(self, ex):
        W = self.world
        core.make_env(ex, W)
        self.sup = [ClosestLogicVariant.mk_logic(self, ex, "S%d" % i) for i in range(self.k)]
        fi = W.repo.func(self.qualname)
        return W.wrap_func(fi, fi.module), [list(self.sup)], {}

    def check(self, ex, outcome):
        kind, r = outcome
        if kind == "raise":
            return [("only-NoLogicAvailableError", z3.BoolVal(r.cls == "NoLogicAvailableError"))]
        if not any(r is s for s in self.sup):
            return [("result-is-member", z3.BoolVal(False))]
        return [("upper-bound-of-all", z3.And([self.lle(s, r) for s in self.sup]))]


# ---------------------------------------------------------------------------
# detection
# ---------------------------------------------------------------------------
def covers_type(T, t, depth=2):
    cs = [z3.Implies(t == S.IntT, fld(T, "integer_arithmetic")),
          z3.Implies(t == S.RealT, fld(T, "real_arithmetic")),
          z3.Implies(Ty.is_BVT(t), fld(T, "bit_vectors")),
          z3.Implies(t == S.StrT, fld(T, "strings")),
          z3.Implies(Ty.is_CustomT(t), fld(T, "custom_type")),
          z3.Implies(Ty.is_FunT(t), fld(T, "uninterpreted")),
          z3.Implies(Ty.is_ArrT(t), fld(T, "arrays"))]
    if depth > 0:
        cs.append(z3.Implies(Ty.is_ArrT(t), z3.And(covers_type(T, Ty.aidx(t), depth - 1), covers_type(T, Ty.aelem(t), depth - 1))))
    return z3.And(cs)


NONDIFF = (S.PLUS, S.TIMES, S.DIV)


class TheoryFromTypeSummary(core.Contract):
    """TheoryOracle._theory_from_type(ty): a fresh theory covering the sort (proved as
    detect:_theory_from_type for array nesting <= 2; the recursion follows the sort)"""
    qualname = "pysmt.oracles.TheoryOracle._theory_from_type"

    def when(self, ex, a, kw):
        return ex.depth > 0

    def apply(self, ex, a, kw):
        n = ex.ghost.get("tft", 0)
        ex.ghost["tft"] = n + 1
        R = sym_theory(ex, "tft%d" % n)
        ex.assume(covers_type(R, a[1], depth=3))
        return R


class DetectVariant(Variant):
    """TheoryOracle.walk_<op>: the theory returned covers the theories of the children, the
    sort of the node and what the operator itself needs; memoised argument theories are not written."""
    prop_ids = ("C13", "C14")

    def __init__(self, world, Kop, k, target):
        self.world, self.Kop, self.k = world, Kop, k
        self.qualname = target
        self.name = "detect:%s[%s/%d]" % (target.rsplit(".", 1)[1], S.OPNAMES[Kop], k)
        if Kop in ARITIES:
            self.bounded = "arity"

    def setup(self, ex):
        W = self.world
        env = core.make_env(ex, W)
        f = z3.Const("formula", Node)
        self.formula = f
        ex.assume(S.op(f) == self.Kop)
        W.learn(ex, f, op=self.Kop, k=self.k)
        self.args = []
        for i in range(self.k):
            T = sym_theory(ex, "t%d" % i)
            c = S.arg(f, S.K(i))
            ex.assume(covers_type(T, S.type_of(c), depth=3))
            if self.Kop == S.POW and i == 1:
                # the exponent is a constant: its theory is the one of its sort, nothing else
                for f_ in ("arrays", "arrays_const", "bit_vectors", "floating_point", "uninterpreted", "custom_type", "strings"):
                    ex.assume(z3.Not(fld(T, f_)))
                ex.assume(fld(T, "linear"))
                ex.assume(fld(T, "integer_difference") == fld(T, "integer_arithmetic"))
                ex.assume(fld(T, "real_difference") == fld(T, "real_arithmetic"))
                ex.assume(z3.Not(z3.And(fld(T, "integer_arithmetic"), fld(T, "real_arithmetic"))))
            # arithmetic sub-terms that are not difference-shaped have lost the difference flags already
            self.args.append(T)
        c = TheoryFromTypeSummary()
        c.world = W
        W.contracts[c.qualname] = c
        self.written = []
        frozen = set(id(a) for a in self.args)

        def on_setattr(exx, o, attr, v):
            if id(o) in frozen:
                self.written.append(attr)
        W.config["on_setattr"] = on_setattr
        fi = W.repo.func(self.qualname)
        return W.wrap_func(fi, fi.module, bound=env.fields["_theoryo"]), [f], {"args": list(self.args)}

    def needs(self, ex, R):
        f, K_ = self.formula, self.Kop
        # POW: pySMT types it Real even on Int operands; the label follows the operands' sort
        cs = [covers_type(R, S.type_of(f))] if K_ != S.POW else []
        if K_ == S.SYMBOL:
            cs.append(covers_type(R, S.pl_ty(f)))
        if K_ in NONDIFF:
            # sums, products and quotients are outside difference logic (only matters for linear theories)
            cs.append(z3.Implies(fld(R, "linear"), z3.And(z3.Not(fld(R, "integer_difference")),
                                                          z3.Not(fld(R, "real_difference")))))
        if K_ in (S.TOREAL,):
            cs += [fld(R, "integer_arithmetic"), fld(R, "real_arithmetic")]
        if K_ in (S.BV_TONATURAL, S.STR_LENGTH, S.STR_INDEXOF, S.STR_TO_INT):
            cs.append(fld(R, "integer_arithmetic"))
        if K_ == S.FUNCTION:
            cs.append(fld(R, "uninterpreted"))
        if K_ == S.ARRAY_VALUE:
            cs += [fld(R, "arrays"), fld(R, "arrays_const"), covers_type(R, S.pl_ty(f))]
        if K_ == S.POW:
            cs.append(z3.Not(fld(R, "linear")))
        if K_ == S.DIV:
            # linear only when dividing by a constant (no free symbol in the divisor)
            cs.append(z3.Implies(S.fv(S.arg(f, S.K(1))) != z3.EmptySet(Node), z3.Not(fld(R, "linear"))))
        if K_ == S.TIMES:
            nz = [z3.If(S.fv(S.arg(f, S.K(i))) != z3.EmptySet(Node), 1, 0) for i in range(self.k)]
            cs.append(z3.Implies(z3.Sum(nz) > 1, z3.Not(fld(R, "linear"))))
        if K_ in S.QUANT_OPS:
            n = BI.concretize_int(self.world, ex, S.nqv(f), 1, 2, "qvars-bound")
            for i in range(n):
                cs.append(covers_type(R, S.pl_ty(S.qv(f, S.K(i)))))
        return z3.And(cs)

    def check(self, ex, outcome):
        self.world.config.pop("on_setattr", None)
        kind, R = outcome
        if kind == "raise":
            return [("no-exception", z3.BoolVal(False))]
        if not isinstance(R, Obj) or R.cls != THEORY:
            return [("returns-theory", z3.BoolVal(False))]
        goals = [("C14:memoised-arguments-not-written", z3.BoolVal(not self.written)),
                 ("result-invariant", inv(R)),
                 ("covers-node-needs", self.needs(ex, R))]
        for i, a in enumerate(self.args):
            goals.append(("covers-child-theory[%d]" % i, spec_le(a, R)))
        return goals

    def witness(self, model, ex):
        from pyvc.concretize import node_to_json

        def t(o):
            return {f: z3.is_true(model.eval(fld(o, f), model_completion=True)) for f in FIELDS}
        return {"op": S.OPNAMES[self.Kop], "formula": node_to_json(model, self.formula, 1), "args": [t(a) for a in self.args]}


class TheoryFromTypeVariant(Variant):
    prop_ids = ("C13",)
    qualname = "pysmt.oracles.TheoryOracle._theory_from_type"
    name = "detect:_theory_from_type"

    def __init__(self, world):
        self.world = world
        self.max_depth = 60

    def setup(self, ex):
        W = self.world
        env = core.make_env(ex, W)
        W.contracts.pop(TheoryFromTypeSummary.qualname, None)
        self.t = z3.Const("ty", Ty)
        ex.assume(spec.valid_type(self.t))
        # nesting depth of array sorts bounded by 2 (the recursion follows the sort)
        for sub in (Ty.aidx(self.t), Ty.aelem(self.t)):
            ex.assume(z3.Implies(Ty.is_ArrT(self.t), z3.Implies(Ty.is_ArrT(sub), z3.And(z3.Not(Ty.is_ArrT(Ty.aidx(sub))),
                                                                                   z3.Not(Ty.is_ArrT(Ty.aelem(sub)))))))
        fi = W.repo.func(self.qualname)
        return W.wrap_func(fi, fi.module, bound=env.fields["_theoryo"]), [self.t], {}

    def check(self, ex, outcome):
        kind, R = outcome
        if kind == "raise":
            return [("no-exception", z3.BoolVal(False))]
        return [("covers-sort", covers_type(R, self.t, depth=3)), ("invariant", inv(R))]


def extras(prop, tier, seed):
    """complete for the finite set of named logics (all pairs / triples), sampled for detection"""
    if prop != "C13":
        return []
    from pyvc.report import run_bounded
    return [run_bounded("logics", tier, seed), run_bounded("factory", tier, seed)]


def variants(world, tier="quick", only=None):
    out = []
    for w in ("le-reflexive", "le-antisymmetric", "le-transitive", "le-meaning", "eq-meaning", "combine-upper-bound",
              "copy", "set_lira", "set_linear", "set_strings", "set_difference_logic", "set_arrays", "set_arrays_const",
              "logic-le-reflexive", "logic-le-transitive", "logic-le-meaning", "logic-lt-strict", "logic-ge-gt"):
        out.append(OrderVariant(world, w))
    for k in (1, 2, 3):
        out.append(ClosestLogicVariant(world, k))
        out.append(MostGenericVariant(world, k))
    disp = world.repo.dispatch("pysmt.oracles.TheoryOracle")
    for Kop in range(S.NOPS):
        if Kop == S.ALGEBRAIC_CONSTANT:
            continue
        target = disp.get(Kop)
        if target is None or target.endswith("walk_error"):
            continue
        for k in ARITIES.get(Kop, (S.FIXED_ARITY.get(Kop),)):
            out.append(DetectVariant(world, Kop, k, target))
    out.append(TheoryFromTypeVariant(world))
    if only:
        out = [v for v in out if any(o in v.name for o in only)]
    return out


# ---------------------------------------------------------------------------
# Factory._get_solver_class: the class is created with a logic it declares, at least as expressive as the request
# ---------------------------------------------------------------------------
class FactorySelectVariant(Variant):
    """_get_solver_class(solver_list, solver_type, default_logic, name, logic) with one or two registered classes, each
    declaring two logics of arbitrary theories; get_closer_logic / most_generic_logic / _filter_solvers enter through their
    contracts (proved above; _filter_solvers assumed: the sub-dictionary of the classes that support the logic).
    Post: the logic returned with the class is one of the logics that class declares and is at least as expressive as the
    requested one (when one was requested); a named class is the one returned."""
    prop_ids = ("C13",)
    qualname = "pysmt.factory.Factory._get_solver_class"
    bounded = "arity"
    replay_kind = "factory"

    def __init__(self, world, named, requested):
        self.world, self.named, self.requested = world, named, requested
        self.name = "select:factory[%s/%s]" % ("by-name" if named else "by-preference", "logic-given" if requested else "no-logic")

    def setup(self, ex):
        from pyvc.symex import DictVal, Builtin
        from pyvc.world import Contract
        W = self.world
        core.make_env(ex, W)
        mk = ClosestLogicVariant(W, 1).mk_logic
        self.lle = ClosestLogicVariant(W, 1).lle
        self.classes = []
        for c in range(2):
            logics = [mk(ex, "C%dL%d" % (c, i)) for i in range(2)]
            self.classes.append(Obj("builtins.type", {"LOGICS": logics}, tag="SolverClass%d" % c))
        self.target = mk(ex, "T") if self.requested else None
        self.default = mk(ex, "D")
        v = self

        class Closer(Contract):
            qualname = "pysmt.logics.get_closer_logic"

            def apply(self, exx, a, kw):
                sup, tgt = BI.iterate(W, exx, a[0]), a[1]
                for s in sup:
                    if exx.decide(exx.fresh("closest_is_" + s.tag, B)):
                        exx.assume(v.lle(tgt, s))
                        return s
                raise PyRaise(ExcVal("NoLogicAvailableError", ("no candidate",)))

        class MostGeneric(Contract):
            qualname = "pysmt.logics.most_generic_logic"

            def apply(self, exx, a, kw):
                sup = BI.iterate(W, exx, a[0])
                for s in sup:
                    if exx.decide(exx.fresh("most_generic_is_" + s.tag, B)):
                        return s
                raise PyRaise(ExcVal("NoLogicAvailableError", ("no most generic logic",)))

        class Convert(Contract):
            qualname = "pysmt.logics.convert_logic_from_string"

            def apply(self, exx, a, kw):
                return a[0]

        class Filter(Contract):
            qualname = "pysmt.factory.Factory._filter_solvers"

            def apply(self, exx, a, kw):
                lst = a[1]
                out = []
                for k_, cls in lst.items:
                    if exx.decide(exx.fresh("supports_" + cls.tag, B)):
                        out.append([k_, cls])
                return DictVal(out)
        for c in (Closer(), MostGeneric(), Convert(), Filter()):
            c.world = W
            W.contracts[c.qualname] = c
        self.slist = DictVal([["first", self.classes[0]], ["second", self.classes[1]]])
        self.factory = Obj("pysmt.factory.Factory", {"preferences": {"Solver": ["second", "first"]}}, tag="factory")
        fi = W.repo.func(self.qualname)
        return W.wrap_func(fi, fi.module, bound=self.factory), [], {"solver_list": self.slist, "solver_type": "Solver", "default_logic": self.default,
                                                                      "name": "first" if self.named else None, "logic": self.target}

    def check(self, ex, outcome):
        kind, r = outcome
        if kind == "raise":
            ok = r.cls in ("NoSolverAvailableError", "NoLogicAvailableError")
            return [("only-the-documented-errors", z3.BoolVal(bool(ok)))]
        if not (isinstance(r, tuple) and len(r) == 2):
            return [("returns-class-and-logic", z3.BoolVal(False))]
        cls, lg = r
        goals = [("returns-a-registered-class", z3.BoolVal(any(cls is c for c in self.classes)))]
        if self.named:
            goals.append(("the-named-class", z3.BoolVal(cls is self.classes[0])))
        declared = isinstance(cls, Obj) and any(lg is s for s in cls.fields.get("LOGICS", []))
        goals.append(("logic-is-one-the-class-declares", z3.BoolVal(bool(declared))))
        want = self.target if self.requested else None
        if want is not None and isinstance(lg, Obj):
            goals.append(("logic-covers-the-request", self.lle(want, lg)))
        return goals


_base_variants13 = variants


def variants(world, tier="quick", only=None):
    out = _base_variants13(world, tier, None)
    for named in (True, False):
        for req in (True, False):
            out.append(FactorySelectVariant(world, named, req))
    if only:
        out = [v for v in out if any(o in v.name for o in only)]
    return out


class FilterSolversVariant(Variant):
    """Factory._filter_solvers(solver_list, logic) with two registered classes declaring two logics each (arbitrary theories,
    quantified or not), `<=` of logics running from source: the result holds exactly the classes one of whose declared
    logics is at least as expressive as the requested one - theory AND quantifiers -, each under its own name; without a
    logic every class is kept."""
    prop_ids = ("C13",)
    qualname = "pysmt.factory.Factory._filter_solvers"
    bounded = "arity"
    replay_kind = "factory"

    def __init__(self, world, with_logic):
        self.world, self.with_logic = world, with_logic
        self.name = "select:filter[%s]" % ("logic-given" if with_logic else "no-logic")

    def setup(self, ex):
        from pyvc.symex import DictVal
        W = self.world
        core.make_env(ex, W)
        h = ClosestLogicVariant(W, 1)
        self.lle = h.lle
        self.classes = []
        for c in range(2):
            logics = [h.mk_logic(ex, "C%dL%d" % (c, i)) for i in range(2)]
            self.classes.append(Obj("builtins.type", {"LOGICS": logics}, tag="SolverClass%d" % c))
        self.target = h.mk_logic(ex, "T")
        self.names = ["first-solver", "second-solver"]
        self.lst = DictVal([[n, c] for n, c in zip(self.names, self.classes)])
        fac = Obj("pysmt.factory.Factory", {}, tag="factory")
        fi = W.repo.func(self.qualname)
        return W.wrap_func(fi, fi.module, bound=fac), [self.lst], ({"logic": self.target} if self.with_logic else {})

    def check(self, ex, outcome):
        from pyvc.symex import DictVal
        kind, r = outcome
        if kind == "raise":
            return [("no-exception", z3.BoolVal(False))]
        if not isinstance(r, DictVal):
            return [("returns-a-dictionary", z3.BoolVal(False))]
        goals = []
        for n, c in zip(self.names, self.classes):
            hit = [v_ for k_, v_ in r.items if k_ == n]
            present = len(hit) == 1 and hit[0] is c
            goals.append(("no-class-under-another-name", z3.BoolVal(len(hit) == 0 or present)))
            if self.with_logic:
                sup = z3.Or([self.lle(self.target, l) for l in c.fields["LOGICS"]])
                goals.append(("kept-exactly-when-a-declared-logic-covers-the-request", z3.BoolVal(present) == sup))
            else:
                goals.append(("every-class-kept-without-a-logic", z3.BoolVal(present)))
        goals.append(("nothing-else", z3.BoolVal(all(k_ in self.names for k_, _ in r.items))))
        return goals


_base_variants13f = variants


def variants(world, tier="quick", only=None):
    out = _base_variants13f(world, tier, None)
    out += [FilterSolversVariant(world, True), FilterSolversVariant(world, False)]
    if only:
        out = [v for v in out if any(o in v.name for o in only)]
    return out
