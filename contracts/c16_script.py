"""C16, the script side: SmtLibScript.get_last_formula replays a command list of ANY length on an
assertion stack.  The command loop is verified as a fold (pyvc.loops.ForStep): from an arbitrary
state satisfying the representation invariant and for an arbitrary command, one pass through
the real loop body performs exactly SMT-LIB's step on the (assertions, level marks) state

    assert f : A := A + [f]     push n : M := M + [len A] * n     pop n : A := A[:M[-n]], M := M[:-n]
    reset-assertions : A, M := [], []        every other command: nothing

and keeps the invariant (marks are ordered positions in A; the goal stack mirrors the levels).
The formula returned is the conjunction of A.  Scripts without optimisation commands (no
goals, no soft constraints): the goal bookkeeping stays empty and is carried as part of the
invariant; scripts with goals are covered by the bounded stand-in script_sequences."""
import z3

from pyvc import sorts as S
from pyvc.sorts import Node, I, B
from pyvc.symex import Obj, SeqList, PrefList, DictVal, Builtin, is_node, is_z3, PathAbort, Unsupported
from pyvc import builtins_impl as BI
from pyvc.harness import Variant
from pyvc.world import Contract
from pyvc.loops import ForStep
from . import core

DEADLINE = {"quick": 200, "thorough": 600}
REPLAY_KIND = "tracking"
SCRIPT = "pysmt.smtlib.script.SmtLibScript"
NodeSeq = z3.SeqSort(Node)


class AndOfStack(Contract):
    """FormulaManager.And(list): the conjunction of the list (C06); recorded to compare with the live assertions"""
    qualname = "pysmt.formula.FormulaManager.And"

    def apply(self, ex, a, kw):
        v = a[1] if len(a) > 1 else None
        ex.ghost["and_of"] = v
        return ex.fresh("conjunction", Node)


class DefaultDict(Contract):
    qualname = "new:collections.defaultdict"

    def apply(self, ex, a, kw):
        return DictVal([])


class ScriptFoldVariant(Variant):
    prop_ids = ("C16",)
    qualname = SCRIPT + ".get_last_formula"

    def __init__(self, world, kind, levels=None, k=3):
        """kind: the command of the arbitrary step (assert / push / pop / reset-assertions / other), or 'after' for the
        code after the loop; k explicit marks on top of an arbitrary older prefix"""
        self.world, self.kind, self.levels, self.k = world, kind, levels, k
        self.name = "script-fold:%s%s/marks%s" % (kind, "" if levels is None else "(%d)" % levels, k if k < 3 else ">=3")

    def setup(self, ex):
        W = self.world
        env = core.make_env(ex, W)
        mgr = env.fields["_formula_manager"]
        from pyvc.symex import ClassRef
        W.custom_globals[("pysmt.smtlib.script", "defaultdict")] = ClassRef("collections.defaultdict")
        for c in (AndOfStack(), DefaultDict()):
            c.world = W
            W.contracts[c.qualname] = c
        v = self
        k = self.k

        def havoc(exx, fr):
            v.A0 = exx.fresh("assertions", NodeSeq)
            v.ms0 = [exx.fresh("mark%d" % i, I) for i in range(k)]
            v.plen = exx.fresh("older_levels", I) if k >= 3 else 0
            v.pb = exx.fresh("older_marks_bound", I) if k >= 3 else z3.IntVal(0)
            fr.locs["stack"] = SeqList(v.A0)
            fr.locs["backtrack"] = PrefList(v.plen, list(v.ms0))
            fr.locs["goals"] = []
            fr.locs["goals_backtrack"] = PrefList(v.plen, [0] * k, tag="goal-marks")
            fr.locs["max_smt_goals"] = DictVal([])
            fr.locs["max_smt_goals_backtrack"] = DictVal([])

        def inv(exx, fr):
            st, bt = fr.locs["stack"], fr.locs["backtrack"]
            out = []
            if isinstance(st, list) and not st:
                st = SeqList(z3.Empty(NodeSeq))
            if isinstance(bt, list) and not bt:
                bt = PrefList(0, [])
            gb = fr.locs["goals_backtrack"]
            if isinstance(gb, list) and not gb:
                gb = PrefList(0, [], tag="goal-marks")
            ok = isinstance(st, SeqList) and isinstance(bt, PrefList) and isinstance(gb, PrefList)
            out.append(("state-shape", z3.BoolVal(bool(ok))))
            if not ok:
                return out
            prev = v.pb if (is_z3(bt.prefix_len) or bt.prefix_len) else z3.IntVal(0)
            cs = [prev >= 0]
            for m in bt.items:
                m = BI.to_int(m)
                cs.append(m >= prev)
                prev = m
            cs.append(prev <= z3.Length(st.expr))
            if is_z3(bt.prefix_len):
                cs.append(bt.prefix_len >= 0)
            out.append(("marks-are-ordered-positions", z3.And(cs)))
            out.append(("goal-levels-mirror-assertion-levels", z3.And(gb.prefix_len == bt.prefix_len, z3.BoolVal(len(gb.items) == len(bt.items)))))
            out.append(("no-goals", z3.BoolVal(fr.locs["goals"] == [] and not fr.locs["max_smt_goals"].items)))
            return out

        def pick(exx, fr):
            kind = v.kind
            v.f = exx.fresh("asserted", Node)
            if kind == "assert":
                return Obj("pysmt.smtlib.script.SmtLibCommand", {"name": "assert", "args": [v.f]})
            if kind in ("push", "pop"):
                return Obj("pysmt.smtlib.script.SmtLibCommand", {"name": kind, "args": [v.levels]})
            if kind == "reset-assertions":
                return Obj("pysmt.smtlib.script.SmtLibCommand", {"name": kind, "args": []})
            return Obj("pysmt.smtlib.script.SmtLibCommand", {"name": exx_other_name(exx), "args": []})

        def exx_other_name(exx):
            return "check-sat"

        def snapshot(exx, fr):
            return None

        def step_ok(exx, fr, before, cmd):
            st, bt = fr.locs["stack"], fr.locs["backtrack"]
            if isinstance(st, list) and not st:
                st = SeqList(z3.Empty(NodeSeq))
            if isinstance(bt, list) and not bt:
                bt = PrefList(0, [])
            if not (isinstance(st, SeqList) and isinstance(bt, PrefList)):
                return [("state-shape", z3.BoolVal(False))]
            A, M = st.expr, list(bt.items)
            kind, lv = v.kind, v.levels
            if kind == "assert":
                wantA, wantM, wantP = z3.Concat(v.A0, z3.Unit(v.f)), list(v.ms0), v.plen
            elif kind == "push":
                wantA, wantM, wantP = v.A0, list(v.ms0) + [z3.Length(v.A0)] * lv, v.plen
            elif kind == "pop":
                if lv > len(v.ms0):
                    return []          # below this variant's explicit depth (cut by the prefix bound)
                wantA = z3.Extract(v.A0, 0, v.ms0[len(v.ms0) - lv]) if lv else v.A0
                wantM, wantP = list(v.ms0[:len(v.ms0) - lv]), v.plen
            elif kind == "reset-assertions":
                wantA, wantM, wantP = z3.Empty(NodeSeq), [], 0
            else:
                wantA, wantM, wantP = v.A0, list(v.ms0), v.plen
            same_marks = z3.And(z3.BoolVal(len(M) == len(wantM)), bt.prefix_len == wantP,
                                *[BI.to_int(a) == BI.to_int(b) for a, b in zip(M, wantM)]) if len(M) == len(wantM) else z3.BoolVal(False)
            return [("assertions-as-specified", A == wantA), ("levels-as-specified", same_marks)]
        W.loop_contracts[(self.qualname, 0)] = ForStep(havoc, pick, inv, snapshot, step_ok, name="replay")
        self.script = Obj(SCRIPT, {"commands": [], "annotations": None}, tag="script")
        self.after = self.kind == "after"
        fi = W.repo.func(self.qualname)
        return W.wrap_func(fi, fi.module, bound=self.script), [], {"mgr": mgr}

    def check(self, ex, outcome):
        kind, r = outcome
        if kind == "raise":
            return [("no-exception", z3.BoolVal(False))]
        # reached only on the 'no more elements' path: the state is an arbitrary one satisfying the invariant
        v = ex.ghost.get("and_of")
        ok = isinstance(v, SeqList)
        goals = [("returns-the-conjunction-of-the-live-assertions", (v.expr == self.A0) if ok else z3.BoolVal(False))]
        return goals


def variants(world, tier="quick", only=None):
    out = []
    for k in (0, 1, 2, 3):
        out += [ScriptFoldVariant(world, "assert", k=k), ScriptFoldVariant(world, "reset-assertions", k=k),
                ScriptFoldVariant(world, "other", k=k)]
        for lv in (0, 1, 2):
            out.append(ScriptFoldVariant(world, "push", lv, k=k))
            if lv <= k:
                out.append(ScriptFoldVariant(world, "pop", lv, k=k))
    if only:
        out = [v for v in out if any(o in v.name for o in only)]
    return out
