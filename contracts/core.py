"""Core contracts shared by all properties: the per-path object graph
(Environment, FormulaManager, walkers) and the summaries of the functions every
callback calls (create_node, type queries, free variables, ...).

Each summary names the property under which the summarised function is itself
verified against this very statement (or says 'assumed')."""
import z3

from pyvc import sorts as S
from pyvc import spec
from pyvc import builtins_impl as BI
from pyvc.sorts import Node, Ty, I, B, R
from pyvc.symex import (Obj, PyRaise, ExcVal, Unsupported, PathAbort, ZSetTuple, QVars, ArgsView,
                        PayloadView, SetVal, is_node, is_ty, is_z3, is_zset, to_int, to_real,
                        to_bool, to_str, Opaque, FloatVal)
from pyvc.world import Contract, World

SERVICES = {
    "_stc": "pysmt.type_checker.SimpleTypeChecker",
    "_simplifier": "pysmt.simplifier.Simplifier",
    "_substituter": "pysmt.substituter.MGSubstituter",
    "_serializer": "pysmt.printers.HRSerializer",
    "_qfo": "pysmt.oracles.QuantifierOracle",
    "_theoryo": "pysmt.oracles.TheoryOracle",
    "_fvo": "pysmt.oracles.FreeVarsOracle",
    "_sizeo": "pysmt.oracles.SizeOracle",
    "_ao": "pysmt.oracles.AtomsOracle",
    "_typeso": "pysmt.oracles.TypesOracle",
    "_type_manager": "pysmt.typing.TypeManager",
}


def make_env(ex, world):
    """Fresh object graph for the current path (Environment.__init__ shape)."""
    env = Obj("pysmt.environment.Environment", tag="env")
    mgr = Obj("pysmt.formula.FormulaManager", {"env": env}, tag="mgr")
    env.fields["_formula_manager"] = mgr
    for f, cls in SERVICES.items():
        o = Obj(cls, {"env": env}, tag=f)
        if cls in ("pysmt.simplifier.Simplifier",):
            o.fields["manager"] = mgr
        if cls.startswith("pysmt.substituter."):
            o.fields["mgr"] = mgr
            o.fields["manager"] = mgr
        env.fields[f] = o
    env.fields["enable_infix_notation"] = True
    env.fields["enable_div_by_0"] = True
    env.fields["allow_empty_var_names"] = False
    env.fields["dwf"] = {}
    env.fields["_factory"] = None
    ex.ghost["env"] = env
    ex.ghost["mgr"] = mgr
    return env


def bool_node(ex, world, value):
    return world.new_node(ex, S.BOOL_CONSTANT, [], [z3.BoolVal(value)], check=False)


def payload_to_terms(ex, world, Kop, payload):
    """Python payload value -> list of z3 payload terms for mk_<op>."""
    if isinstance(payload, PayloadView):
        payload = BI.resolve_payload(world, ex, payload)
    if Kop == S.INT_CONSTANT:
        return [to_int(payload)]
    if Kop == S.REAL_CONSTANT:
        return [to_real(payload)]
    if Kop == S.BOOL_CONSTANT:
        return [to_bool(payload)]
    if Kop == S.STR_CONSTANT:
        return [to_str(payload)]
    if Kop == S.ALGEBRAIC_CONSTANT:
        return [ex.fresh("alg", I)]
    if Kop == S.BV_CONSTANT:
        return [to_int(payload[0]), to_int(payload[1])]
    if Kop == S.SYMBOL:
        return [to_str(payload[0]), payload[1]]
    if Kop == S.FUNCTION:
        return [payload]
    if Kop in S.QUANT_OPS:
        if isinstance(payload, ZSetTuple):
            return [payload.zset, z3.IntVal(0)]
        if isinstance(payload, QVars):
            return [S.qvset(payload.n), S.pl_alg(payload.n)]
        items = list(payload)
        z = z3.EmptySet(Node)
        for x in items:
            z = z3.SetAdd(z, x)
        # the very tuple of bound variables of an existing quantifier (same symbols, same order)?
        src = None
        if items and all(z3.is_app(x) and x.decl().eq(S.qv) for x in items):
            n0 = items[0].arg(0)
            if all(x.arg(0).eq(n0) and z3.is_int_value(x.arg(1)) and x.arg(1).as_long() == i for i, x in enumerate(items)) \
                    and ex.ghost.get("qvars_len", {}).get(n0.get_id()) == len(items):
                src = n0
        order = S.pl_alg(src) if src is not None else ex.fresh("qorder", I)
        return [z, order]
    if Kop == S.ARRAY_VALUE:
        return [payload]
    if Kop == S.BV_EXTRACT:
        return [to_int(payload[0]), to_int(payload[1]), to_int(payload[2])]
    if Kop in (S.BV_ROL, S.BV_ROR, S.BV_ZEXT, S.BV_SEXT):
        return [to_int(payload[0]), to_int(payload[1])]
    if Kop in S.BV_W_OPS:
        return [to_int(payload[0])]
    if payload is not None:
        raise Unsupported("payload for op %s" % S.OPNAMES[Kop])
    return []


class CreateNode(Contract):
    """FormulaManager.create_node(node_type, args, payload): the unique node with
    this content (hash-consing, C04), accepted by the typing rules or else an
    error (C03).  Verified against the real body in contracts/c03_c04.py."""
    qualname = "pysmt.formula.FormulaManager.create_node"

    def apply(self, ex, a, kw):
        names = ["self", "node_type", "args", "payload"]
        vals = dict(zip(names, a))
        vals.update(kw)
        Kop = vals["node_type"]
        if not isinstance(Kop, int):
            raise Unsupported("symbolic node_type in create_node")
        args = BI.iterate(self.world, ex, vals["args"])
        for x in args:
            if not is_node(x):
                raise Unsupported("non-node child in create_node")
        pl = payload_to_terms(ex, self.world, Kop, vals.get("payload"))
        if Kop in S.QUANT_OPS:
            # set-level lemma about bound variables: a subset of the (symbol) variables of an
            # existing quantifier consists of symbols
            m = self.world.mk_term(Kop, args, pl)
            for info in list(ex.ghost.get("nodeinfo", {}).values()):
                if info["op"] in S.QUANT_OPS and not info["t"].eq(m):
                    t = info["t"]
                    ex.assume(z3.Implies(z3.And(z3.IsSubset(pl[0], S.qvset(t)), S.qv_ok(t)), S.qv_ok(m)))
            p0 = vals.get("payload")
            if isinstance(p0, (tuple, list)):
                ex.assume(S.qv_ok(m) == z3.And([S.op(x) == S.SYMBOL for x in p0]) if p0 else S.qv_ok(m))
                ex.assume(S.nqv(m) == len(p0))
            elif isinstance(p0, ZSetTuple):
                ex.assume(S.nqv(m) == BI.length(self.world, ex, p0))
        n = self.world.new_node(ex, Kop, args, pl, check=True)
        p = vals.get("payload")
        if Kop in S.QUANT_OPS and isinstance(p, (tuple, list)):
            ex.assume(S.nqv(n) == len(p))
            for i, x in enumerate(p):
                ex.assume(S.qv(n, S.K(i)) == x)
        if Kop in S.QUANT_OPS and isinstance(p, ZSetTuple):
            ex.assume(S.nqv(n) == BI.length(self.world, ex, p))
        return n


class GetType(Contract):
    """SimpleTypeChecker.get_type / walk on an existing node: its type (every node
    that exists passed the type check at creation: C03)."""
    def __init__(self, qualname):
        self.qualname = qualname

    def apply(self, ex, a, kw):
        n = a[1]
        if not is_node(n):
            raise Unsupported("get_type of non-node")
        ex.assume(S.type_of(n) != S.NoneT)
        return S.type_of(n)


class FreeVars(Contract):
    """FreeVarsOracle.get_free_variables(f) == fv(f)   (C12)"""
    qualname = "pysmt.oracles.FreeVarsOracle.get_free_variables"

    def apply(self, ex, a, kw):
        return S.fv(a[1])


class IsConstantNoArgs(Contract):
    """FNode.is_constant() without _type/value == isconst(n) (recursive through
    ARRAY_VALUE children); verified in contracts/fnode.py"""
    qualname = "pysmt.fnode.FNode.is_constant"

    def when(self, ex, a, kw):
        rest = list(a[1:]) + list(kw.values())
        return all(x is None for x in rest)

    def apply(self, ex, a, kw):
        return S.isconst(a[0])


class BvWidth(Contract):
    """FNode.bv_width(): the width of the node's BV type; an error (failing assert
    or attribute look-up) for a node of any other type.  Proved on the body in
    contracts/c04_fnode.py."""
    qualname = "pysmt.fnode.FNode.bv_width"

    def apply(self, ex, a, kw):
        n = a[0]
        self.world.touch(ex, n)
        if not ex.decide(Ty.is_BVT(S.type_of(n))):
            # not BV-typed: one of the asserts / attribute look-ups of the body fails
            raise PyRaise(ExcVal("AssertionError", ("bv_width of a non bit-vector",)))
        w = Ty.bvw(S.type_of(n))
        fam = ex.ghost.get("width_family")
        if fam:
            # Pw: the proof is instantiated per width of a stated family
            for c in fam:
                if ex.decide(w == c):
                    # the value lemmas link pow2(<width / index term>) to 2**j for every j up to the width (sub-widths of
                    # extractions, shifts and rotations inside the word)
                    for j in range(c + 1):
                        S.pow2(z3.IntVal(j))
                    return c
            raise PathAbort("width-outside-family")
        return w


class IntConst(Contract):
    """FormulaManager.Int(v) for a Python int v: THE Int constant of value v.
    (Cache transparency and the rejection of other argument kinds are C04/C14
    obligations on the real body, contracts/c04_constants.py.)"""
    qualname = "pysmt.formula.FormulaManager.Int"

    def apply(self, ex, a, kw):
        v = a[1] if len(a) > 1 else kw["value"]
        if isinstance(v, PayloadView):
            v = BI.resolve_payload(self.world, ex, v)
        k = BI.pykind(self.world, v)
        ex.oblige("requires:Int:python-int-argument", z3.BoolVal(k == "int"))
        if k != "int":
            raise PyRaise(ExcVal("PysmtTypeError", ("Invalid type in constant",)))
        return self.world.new_node(ex, S.INT_CONSTANT, [], [to_int(v)], check=False)


class RealConst(Contract):
    """FormulaManager.Real(v) for v a Fraction / int / float / (n, d)"""
    qualname = "pysmt.formula.FormulaManager.Real"

    def apply(self, ex, a, kw):
        v = a[1] if len(a) > 1 else kw["value"]
        if isinstance(v, PayloadView):
            v = BI.resolve_payload(self.world, ex, v)
        k = BI.pykind(self.world, v)
        if k in ("int", "Fraction"):
            r = to_real(v)
        elif k == "float":
            r = BI.float_real(v)
        elif k == "tuple" and len(v) == 2:
            if ex.decide(to_real(v[1]) == 0):
                raise PyRaise(ExcVal("ZeroDivisionError"))
            r = to_real(v[0]) / to_real(v[1])
        else:
            ex.oblige("requires:Real:rational-argument", z3.BoolVal(False))
            raise PyRaise(ExcVal("PysmtTypeError", ("Invalid type in constant",)))
        return self.world.new_node(ex, S.REAL_CONSTANT, [], [r], check=False)


class StrConst(Contract):
    qualname = "pysmt.formula.FormulaManager.String"

    def apply(self, ex, a, kw):
        v = a[1] if len(a) > 1 else kw["value"]
        if isinstance(v, PayloadView):
            v = BI.resolve_payload(self.world, ex, v)
        k = BI.pykind(self.world, v)
        ex.oblige("requires:String:str-argument", z3.BoolVal(k == "str"))
        if k != "str":
            raise PyRaise(ExcVal("TypeError", ("Invalid type in constant",)))
        return self.world.new_node(ex, S.STR_CONSTANT, [], [to_str(v)], check=False)


class FamilyIndex(Contract):
    """Inside a per-width family (Pw) the integer payload accessors of BV nodes
    are enumerated as well: the real body runs, then its result is made concrete."""
    def __init__(self, name):
        self.qualname = "pysmt.fnode.FNode." + name
        self.name = name

    def when(self, ex, a, kw):
        return bool(ex.ghost.get("width_family")) and not ex.ghost.get("in_family_index")

    def apply(self, ex, a, kw):
        ex.ghost["in_family_index"] = True
        try:
            fi = self.world.repo.method("pysmt.fnode.FNode", self.name)
            v = ex.run_function(self.world.wrap_func(fi, "pysmt.fnode", bound=a[0]), [], {})
        finally:
            ex.ghost["in_family_index"] = False
        hi = max(ex.ghost["width_family"]) + 1
        return BI.concretize_int(self.world, ex, v, 0, hi, "family-index-bound")


class GetEnv(Contract):
    qualname = "pysmt.environment.get_env"
    assumed = "global environment stack: returns the single Environment of the path"

    def apply(self, ex, a, kw):
        return ex.ghost["env"]


def install_core(world):
    for c in (CreateNode(), GetType("pysmt.type_checker.SimpleTypeChecker.get_type"),
              GetType("pysmt.type_checker.SimpleTypeChecker.walk"),
              GetType("pysmt.type_checker.SimpleTypeChecker::walk"),
              FreeVars(), IsConstantNoArgs(), BvWidth(), GetEnv(), IntConst(), RealConst(), StrConst(),
              FamilyIndex("bv_rotation_step"), FamilyIndex("bv_extract_start"), FamilyIndex("bv_extract_end"),
              FamilyIndex("bv_extend_step")):
        c.world = world
        world.contracts[c.qualname] = c

    def missing_attr(ex, o, attr):
        if o.cls == "pysmt.formula.FormulaManager":
            if attr == "true_formula":
                return bool_node(ex, world, True)
            if attr == "false_formula":
                return bool_node(ex, world, False)
        return KeyError
    world.config["missing_attr"] = missing_attr
    return world


_KF = {}


def known_entries():
    if "k" not in _KF:
        import json
        import os
        p = os.path.join(os.path.dirname(os.path.dirname(os.path.abspath(__file__))), "known_findings.json")
        _KF["k"] = json.load(open(p)).get("known", []) if os.path.exists(p) else []
    return _KF["k"]


def make_world(repo):
    w = World(repo)
    install_core(w)
    return w
