"""C18: the search interval and the comparison tables of the generic optimiser
(pysmt/optimization/optimizer.py) against their specification, on the real
bodies.  The objective's value V(term) is the value of the goal term under the
fixed arbitrary interpretation, read as signed when the goal says so.

   better(a, b)   :=  a < b  (minimisation)      a > b  (maximisation)

   cut contracts      linear_search_cut()  denotes  better(V, bound)
                      binary_search_cut()  denotes  better(V, pivot), pivot strictly inside the
                                           interval on the open side (progress), stored in _pivot
   update contracts   search_is_sat(m)     best-known bound := the better of it and m's value
                      search_is_unsat()    proved bound := pivot (bisection) / best-known bound (linear)
   empty()            upper <= lower (both known)
   __init__           the initial bounds enclose every representable value (bit-vectors), none for Int
   OptPareto.get_constraint(strict)   denotes better(V, val) / better-or-equal(V, val)

The loops (_optimize, boxed, lexicographic, Pareto) over these contracts are
checked by the bounded stand-in native/bounded_opt.py (exhaustive oracle)."""
import z3

from pyvc import sorts as S
from pyvc.sorts import Node, Ty, I, B
from pyvc.symex import Obj, is_node, is_z3, PyRaise, ExcVal, to_int
from pyvc.harness import Variant
from pyvc.world import Contract
from . import core

DEADLINE = {"quick": 200, "thorough": 600}
REPLAY_KIND = "optimizer"
OSI = "pysmt.optimization.optimizer.OptSearchInterval"
PARETO = "pysmt.optimization.optimizer.OptPareto"
GOALS = {"min": "pysmt.optimization.goal.MinimizationGoal", "max": "pysmt.optimization.goal.MaximizationGoal"}
WIDTHS = {"quick": (1, 2, 3, 8), "thorough": (1, 2, 3, 4, 5, 8, 16, 32)}


class ModelGetValue(Contract):
    """Model.get_value(term): THE constant of the term's type carrying the model's value of the
    term (C02).  For the objective the value is a fresh, representable number."""
    qualname = "pysmt.solvers.solver.Model.get_value"

    def apply(self, ex, a, kw):
        term = a[1]
        g = ex.ghost
        if g["kind"] == "int":
            c = self.world.new_node(ex, S.INT_CONSTANT, [], [g["mv_raw"]], check=False)
        else:
            c = self.world.new_node(ex, S.BV_CONSTANT, [], [g["mv_raw"], g["width"]], check=False)
        return c


class WarnDiverge(Contract):
    qualname = "pysmt.optimization.optimizer._warn_diverge_real_goal"

    def apply(self, ex, a, kw):
        return None


def optional(v):
    return None if v is None else v


class IntervalVariant(Variant):
    prop_ids = ("C18",)

    def __init__(self, world, kind, direction, method, shape, tier="quick"):
        """kind: int | ubv | sbv; direction: min | max; shape: which of lower/upper/pivot are None ('lup' letters
        present = not None)"""
        self.world, self.kind, self.dir, self.method, self.shape, self.tier = world, kind, direction, method, shape, tier
        cls = PARETO if method == "get_constraint" else OSI
        self.qualname = cls + "." + method
        self.name = "interval:%s[%s/%s/%s]" % (method, kind, direction, shape or "-")
        if kind != "int":
            self.bounded = "width"

    # -- vocabulary ---------------------------------------------------------
    def V_of(self, raw):
        if self.kind == "sbv":
            return z3.If(raw >= S.pow2(self.w - 1), raw - S.pow2(self.w), raw)
        return raw

    def better(self, a, b, strict=True):
        if self.dir == "min":
            return a < b if strict else a <= b
        return a > b if strict else a >= b

    def minrep(self):
        return {"int": None, "ubv": z3.IntVal(0), "sbv": -S.pow2(self.w - 1) if self.kind == "sbv" else None}[self.kind]

    def maxrep(self):
        if self.kind == "ubv":
            return S.pow2(self.w) - 1
        if self.kind == "sbv":
            return S.pow2(self.w - 1) - 1
        return None

    def representable(self, x):
        if self.kind == "int":
            return z3.BoolVal(True)
        return z3.And(self.minrep() <= x, x <= self.maxrep())

    # -- set-up -------------------------------------------------------------
    def setup(self, ex):
        W = self.world
        env = core.make_env(ex, W)
        for c in (ModelGetValue(), WarnDiverge()):
            c.world = W
            W.contracts[c.qualname] = c
        for nm in ("LIA", "LRA", "BV", "QF_LIRA"):
            W.custom_globals[("pysmt.logics", nm)] = Obj("builtins.object", {"name": nm}, tag=nm)
        term = z3.Const("objective", Node)
        self.term = term
        W.touch(ex, term)
        if self.kind == "int":
            ex.assume(S.type_of(term) == S.IntT)
            self.w = None
            raw = S.vi(S.val(term))
        else:
            ex.assume(Ty.is_BVT(S.type_of(term)))
            w = Ty.bvw(S.type_of(term))
            fam = WIDTHS[self.tier]
            wc = None
            for c in fam:
                if ex.decide(w == c):
                    wc = c
                    break
            if wc is None:
                from pyvc.symex import PathAbort
                raise PathAbort("width-outside-family")
            self.w = wc
            S.pow2(z3.IntVal(wc))
            S.pow2(z3.IntVal(wc - 1))
            raw = S.vbv(S.val(term))
            ex.assume(z3.And(raw >= 0, raw < S.pow2(z3.IntVal(wc))))
            self.w = z3.IntVal(wc)
        self.V = self.V_of(raw)
        signed = self.kind == "sbv"
        goal = Obj(GOALS[self.dir], {"formula": term, "_bv_signed": signed}, tag="goal")
        self.goal = goal
        g = ex.ghost
        g["kind"] = "int" if self.kind == "int" else "bv"
        g["width"] = self.w
        # the model's value of the objective
        mv_raw = z3.Const("model_value_raw", I)
        if self.kind != "int":
            ex.assume(z3.And(mv_raw >= 0, mv_raw < S.pow2(self.w)))
        g["mv_raw"] = mv_raw
        self.mv = self.V_of(mv_raw)
        if self.method == "__init__":
            cref = W.class_value(OSI)
            self.obj = None

            def build(exx, a, kw):
                o = W.instantiate(exx, cref, [goal, env, []], {})
                self.obj = o
                return o
            from pyvc.symex import Builtin
            return Builtin("OptSearchInterval()", build), [], {}
        if self.method == "get_constraint":
            o = W.instantiate(ex, W.class_value(PARETO), [goal, env], {})
            self.obj = o
            c = z3.Const("bound", I)
            self.bound = c
            ex.assume(self.representable(c))
            if self.kind == "int":
                cn = W.new_node(ex, S.INT_CONSTANT, [], [c], check=False)
            else:
                rawc = z3.If(c < 0, c + S.pow2(self.w), c)
                cn = W.new_node(ex, S.BV_CONSTANT, [], [rawc, self.w], check=False)
            o.fields["val"] = cn
            fi = W.repo.method(PARETO, "get_constraint")
            return W.wrap_func(fi, fi.module, bound=o), [self.shape == "strict"], {}
        o = W.instantiate(ex, W.class_value(OSI), [goal, env, []], {})
        self.obj = o
        lo = z3.Const("lower", I) if "l" in self.shape else None
        up = z3.Const("upper", I) if "u" in self.shape else None
        pv = z3.Const("pivot", I) if "p" in self.shape else None
        self.lo, self.up, self.pv = lo, up, pv
        o.fields["_lower"], o.fields["_upper"], o.fields["_pivot"] = lo, up, pv
        # representation invariant of the interval for bit-vectors (established by __init__, kept by the updates)
        if self.kind != "int":
            if lo is not None:
                ex.assume(z3.And(lo >= self.minrep() - 1, lo <= self.maxrep() + 2))
            if up is not None:
                ex.assume(z3.And(up >= self.minrep() - 1, up <= self.maxrep() + 2))
        fi = W.repo.method(OSI, self.method)
        fn = W.wrap_func(fi, fi.module, bound=o)
        if self.method == "search_is_sat":
            model = Obj("pysmt.solvers.solver.Model", {"environment": env}, tag="model")
            return fn, [model], {}
        if self.method == "linear_search_cut":
            # called after a first model: the best-known bound is a model value
            b = up if self.dir == "min" else lo
            if b is not None:
                ex.assume(self.representable(b))
        if self.method in ("binary_search_cut", "_compute_pivot") and self.kind != "int":
            # called on a non-empty interval after a first model
            ex.assume(lo < up)
            if self.dir == "min":
                ex.assume(z3.And(lo >= self.minrep(), up <= self.maxrep()))
            else:
                ex.assume(z3.And(lo >= self.minrep(), up <= self.maxrep() + 1))
        return fn, [], {}

    # -- post-conditions ------------------------------------------------------
    def fields(self):
        f = self.obj.fields
        return f["_lower"], f["_upper"], f["_pivot"]

    def same(self, a, b):
        if a is None or b is None:
            return z3.BoolVal(a is None and b is None)
        return to_int(a) == to_int(b)

    def check(self, ex, outcome):
        kind, r = outcome
        m = self.method
        if kind == "raise":
            return [("no-exception", z3.BoolVal(False))]
        goals = []
        if m == "__init__":
            lo, up, pv = self.fields()
            goals.append(("pivot-unset", z3.BoolVal(pv is None)))
            if self.kind == "int":
                goals.append(("integer-objective-unbounded", z3.BoolVal(lo is None and up is None)))
            else:
                ok = lo is not None and up is not None
                goals.append(("bounds-set", z3.BoolVal(ok)))
                if ok:
                    lo, up = to_int(lo), to_int(up)
                    x = z3.Const("any_value", I)
                    if self.dir == "min":
                        # lower included, upper excluded
                        goals.append(("encloses-representable-values",
                                      z3.Implies(self.representable(x), z3.And(lo <= x, x < up))))
                        goals.append(("lower-bound-representable", lo >= self.minrep()))
                    else:
                        goals.append(("encloses-representable-values",
                                      z3.Implies(self.representable(x), z3.And(lo < x, x <= up))))
                        goals.append(("upper-bound-tight", up <= self.maxrep() + 1))
                    goals.append(("interval-invariant", z3.And(lo >= self.minrep() - 1, up <= self.maxrep() + 2)))
            return goals
        if m == "get_constraint":
            if not is_node(r):
                return [("returns-node", z3.BoolVal(False))]
            self.world.touch(ex, r)
            strict = self.shape == "strict"
            return [("constraint-type", S.type_of(r) == S.BoolT),
                    ("constraint-denotes-%s" % ("strictly-better" if strict else "not-worse"),
                     S.vb(S.val(r)) == self.better(self.V, self.bound, strict))]
        lo, up, pv = self.fields()
        if m == "empty":
            t = ex.truth(r)
            t = t if is_z3(t) else z3.BoolVal(bool(t))
            if self.lo is None or self.up is None:
                goals.append(("unknown-bound-never-empty", z3.Not(t)))
            else:
                goals.append(("empty-iff-bounds-meet", t == (self.up <= self.lo)))
            goals += [("frame", z3.And(self.same(lo, self.lo), self.same(up, self.up), self.same(pv, self.pv)))]
            return goals
        if m == "linear_search_cut":
            b = self.up if self.dir == "min" else self.lo
            if not is_node(r):
                return [("returns-node", z3.BoolVal(False))]
            self.world.touch(ex, r)
            goals.append(("cut-type", S.type_of(r) == S.BoolT))
            goals.append(("cut-denotes-strict-improvement", S.vb(S.val(r)) == self.better(self.V, b)))
            goals.append(("frame", z3.And(self.same(lo, self.lo), self.same(up, self.up), self.same(pv, self.pv))))
            return goals
        if m in ("binary_search_cut", "_compute_pivot"):
            if m == "_compute_pivot":
                p = to_int(r)
                goals.append(("frame", z3.And(self.same(lo, self.lo), self.same(up, self.up), self.same(pv, self.pv))))
            else:
                if pv is None:
                    return [("pivot-stored", z3.BoolVal(False))]
                p = to_int(pv)
                if not is_node(r):
                    return [("returns-node", z3.BoolVal(False))]
                self.world.touch(ex, r)
                goals.append(("cut-type", S.type_of(r) == S.BoolT))
                goals.append(("cut-denotes-improvement-on-pivot", S.vb(S.val(r)) == self.better(self.V, p)))
                goals.append(("frame", z3.And(self.same(lo, self.lo), self.same(up, self.up))))
            l, u = self.lo, self.up
            if l is not None and u is not None:
                if self.dir == "min":
                    goals.append(("pivot-inside", z3.Implies(l < u, z3.And(l < p, p <= u))))
                else:
                    goals.append(("pivot-inside", z3.Implies(l < u, z3.And(l <= p, p < u))))
            elif u is not None:
                goals.append(("pivot-inside", p <= u if self.dir == "min" else p < u))
            elif l is not None:
                goals.append(("pivot-inside", p > l if self.dir == "min" else p >= l))
            return goals
        if m == "search_is_sat":
            goals.append(("pivot-cleared", z3.BoolVal(pv is None)))
            mv = self.mv
            if self.dir == "min":
                want = mv if self.up is None else z3.If(self.up > mv, mv, self.up)
                goals.append(("best-known-bound-updated", z3.BoolVal(up is not None) if up is None else to_int(up) == want))
                goals.append(("frame", self.same(lo, self.lo)))
            else:
                want = mv if self.lo is None else z3.If(self.lo < mv, mv, self.lo)
                goals.append(("best-known-bound-updated", z3.BoolVal(lo is not None) if lo is None else to_int(lo) == want))
                goals.append(("frame", self.same(up, self.up)))
            return goals
        if m == "search_is_unsat":
            src = self.pv if self.pv is not None else (self.up if self.dir == "min" else self.lo)
            if self.dir == "min":
                goals.append(("proved-bound-updated", self.same(lo, src)))
                goals.append(("frame", self.same(up, self.up)))
            else:
                goals.append(("proved-bound-updated", self.same(up, src)))
                goals.append(("frame", self.same(lo, self.lo)))
            return goals
        return goals

    def witness(self, model, ex):
        def ev(e):
            return None if e is None else str(model.eval(e, model_completion=True))
        d = {"kind": self.kind, "direction": self.dir, "method": self.method, "shape": self.shape,
             "objective_value": ev(self.V)}
        for k in ("lo", "up", "pv", "bound"):
            if getattr(self, k, None) is not None:
                d[k] = ev(getattr(self, k))
        d["width"] = ev(self.w) if self.w is not None else None
        d["model_value"] = ev(self.mv)
        return d


def extras(prop, tier, seed):
    if prop != "C18":
        return []
    from pyvc.report import run_bounded
    return [run_bounded("optimizer", tier, seed)]


def variants(world, tier="quick", only=None):
    out = []
    for kind in ("int", "ubv", "sbv"):
        for d in ("min", "max"):
            out.append(IntervalVariant(world, kind, d, "__init__", "", tier))
            out.append(IntervalVariant(world, kind, d, "get_constraint", "strict", tier))
            out.append(IntervalVariant(world, kind, d, "get_constraint", "non-strict", tier))
            shapes = ["lu", "l", "u", ""] if kind == "int" else ["lu"]
            for sh in shapes:
                out.append(IntervalVariant(world, kind, d, "empty", sh, tier))
                if ("u" if d == "min" else "l") in sh:      # only requested after a first model: best-known bound set
                    out.append(IntervalVariant(world, kind, d, "linear_search_cut", sh, tier))
                out.append(IntervalVariant(world, kind, d, "_compute_pivot", sh, tier))
                out.append(IntervalVariant(world, kind, d, "binary_search_cut", sh, tier))
                for p in ("", "p"):
                    out.append(IntervalVariant(world, kind, d, "search_is_sat", sh + p, tier))
                    out.append(IntervalVariant(world, kind, d, "search_is_unsat", sh + p, tier))
    if only:
        out = [v for v in out if any(o in v.name for o in only)]
    return out
