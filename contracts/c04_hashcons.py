"""C04: hash-consing, faithful accessors, canonical constant arrays, symbol table and
constant caches - on the real bodies.

Two models are used.
  * heap model (this file, create_node / accessors): a node is an object with a content
    record (node_type, args, payload) and an id; the memoisation table is a dictionary from
    content records to nodes.  Obligations: create_node returns the node already stored for
    an equal content, otherwise a node with exactly the given content and a fresh id, adds
    exactly that entry and touches nothing else; every accessor returns the component of
    the content it is documented to return.
  * term model (everywhere else in /verif): nodes are terms of an uninterpreted sort with
    constructor functions mk_<op>; 'same content = same node' is then an axiom - justified
    by the heap-model proof of create_node (the one place that creates nodes).

Also here: FormulaManager.Array builds the canonical argument list (default first, the
assignments that differ from the default, strictly ordered by id) and FNode.array_value_get
finds an assignment by bisection over that order; get_or_create_symbol / _create_symbol /
new_fresh_symbol (search loop by an inductive invariant); Int / Real / String caches are
transparent (same result as without the cache, arguments of the wrong kind rejected whatever
the cache holds)."""
import z3

from pyvc import sorts as S
from pyvc.sorts import Node, Ty, I, B
from pyvc.symex import Obj, DictVal, Builtin, FloatVal, is_node, is_z3, PyRaise, ExcVal, Unsupported, PathAbort
from pyvc import builtins_impl as BI
from pyvc.harness import Variant
from pyvc.world import Contract
from . import core

DEADLINE = {"quick": 200, "thorough": 600}
REPLAY_KIND = "hashcons"
MGR = "pysmt.formula.FormulaManager"
FNODE = "pysmt.fnode.FNode"
Str = z3.StringSort()


# ---------------------------------------------------------------------------
# heap model
# ---------------------------------------------------------------------------
class Content(tuple):
    """FNodeContent record: a named tuple, compared and hashed structurally"""
    FIELDS = ("node_type", "args", "payload")


class NewContent(Contract):
    qualname = "new:pysmt.fnode.FNodeContent"

    def apply(self, ex, a, kw):
        vals = list(a) + [kw[f] for f in Content.FIELDS[len(a):]]
        return Content(vals)


class NewFNode(Contract):
    qualname = "new:" + FNODE

    def apply(self, ex, a, kw):
        n = Obj(FNODE, {"_content": a[0], "_node_id": a[1]}, tag="node")
        ex.ghost.setdefault("created", []).append(n)
        return n


class TypeCheckHook(Contract):
    """_do_type_check(n): the typing rules accept the node or raise (C03); no effect on the table"""
    qualname = MGR + "._do_type_check"

    def apply(self, ex, a, kw):
        ex.ghost["type_checked"] = ex.ghost.get("type_checked", 0) + 1
        if ex.decide(ex.fresh("ill_typed", B)):
            raise PyRaise(ExcVal("PysmtTypeError", ("not well-formed",)))
        return None


def content_eq(ex, W, c1, c2):
    """structural equality of two content records -> z3 Bool"""
    c = BI._eq(W, ex, tuple(c1), tuple(c2))
    return c if is_z3(c) else z3.BoolVal(bool(c))


class CreateNodeVariant(Variant):
    """table with m stored entries; the requested content is arbitrary (it may equal a stored one)"""
    prop_ids = ("C04", "C15", "C03")
    qualname = MGR + ".create_node"

    def __init__(self, world, m, nargs):
        self.world, self.m, self.nargs = world, m, nargs
        self.name = "create_node[table %d/args %d]" % (m, nargs)

    def setup(self, ex):
        W = self.world
        for c in (NewContent(), NewFNode(), TypeCheckHook()):
            c.world = W
            W.contracts[c.qualname] = c
        from pyvc.symex import ClassRef
        W.custom_globals[("pysmt.fnode", "FNodeContent")] = ClassRef("pysmt.fnode.FNodeContent")
        # children are existing nodes: identity is what matters
        kids = lambda p: tuple(z3.Const("%s_child%d" % (p, i), Node) for i in range(self.nargs))
        self.stored = []
        entries = []
        for j in range(self.m):
            c = Content([z3.Const("stored%d_op" % j, I), kids("stored%d" % j), z3.Const("stored%d_payload" % j, I)])
            n = Obj(FNODE, {"_content": c, "_node_id": z3.Const("stored%d_id" % j, I)}, tag="stored%d" % j)
            self.stored.append((c, n))
            entries.append([c, n])
        # representation invariant of the table: keys pairwise different, ids below the counter, each node stored under its content
        self.next0 = z3.Const("next_free_id", I)
        for j, (c, n) in enumerate(self.stored):
            ex.assume(n.fields["_node_id"] < self.next0)
            for j2 in range(j):
                ex.assume(z3.Not(content_eq(ex, W, c, self.stored[j2][0])))
        self.req = Content([z3.Const("op", I), kids("req"), z3.Const("payload", I)])
        self.mgr = Obj(MGR, {"formulae": DictVal(entries), "_next_free_id": self.next0, "env": None}, tag="mgr")
        fi = W.repo.func(self.qualname)
        return W.wrap_func(fi, fi.module, bound=self.mgr), [self.req[0], self.req[1], self.req[2]], {}

    def check(self, ex, outcome):
        kind, r = outcome
        W = self.world
        table = self.mgr.fields["formulae"].items
        nxt = BI.to_int(self.mgr.fields["_next_free_id"])
        hit = [content_eq(ex, W, self.req, c) for c, _ in self.stored]
        anyhit = z3.Or(hit) if hit else z3.BoolVal(False)
        goals = []
        if kind == "return":
            # whatever the table held: a node is only handed out after the typing rules accepted it in this call (the table
            # may hold a node whose construction was rejected earlier - it is registered before it is checked)
            goals.append(("C03:returned-node-passed-the-type-check", z3.BoolVal(ex.ghost.get("type_checked", 0) >= 1)))
        # which case are we in?  (decided so that the structure of the final table can be compared)
        case = None
        for j, h in enumerate(hit):
            if ex.decide(h):
                case = j
                break
        created = ex.ghost.get("created", [])
        if case is not None:
            goals.append(("no-second-node-for-the-same-content", z3.BoolVal(len(created) == 0)))
            goals.append(("counter-unchanged", nxt == self.next0))
            goals.append(("table-unchanged", z3.BoolVal(len(table) == self.m and all(table[j][1] is self.stored[j][1] for j in range(self.m)))))
            if kind == "return":
                goals.append(("returns-the-stored-node", z3.BoolVal(r is self.stored[case][1])))
            # a node is stored before it is type-checked: a stored node is checked again, so that an ill-typed
            # node left behind by a failed construction is rejected again instead of being handed out
            goals.append(("C15:stored-node-is-type-checked-again", z3.BoolVal(ex.ghost.get("type_checked", 0) == 1)))
            return goals
        # new content
        goals.append(("exactly-one-node-created", z3.BoolVal(len(created) == 1)))
        if len(created) != 1:
            return goals
        n = created[0]
        goals.append(("node-has-exactly-the-given-content", content_eq(ex, W, n.fields["_content"], self.req)))
        goals.append(("fresh-id", z3.And(BI.to_int(n.fields["_node_id"]) == self.next0, nxt == self.next0 + 1)))
        ok = len(table) == self.m + 1 and all(table[j][1] is self.stored[j][1] for j in range(self.m)) and table[-1][1] is n
        if kind == "raise":
            # a rejected construction: the property does not say whether the rejected node stays registered (it is re-checked
            # when met again) or is removed; the other entries are untouched either way
            same = len(table) == self.m and all(table[j][1] is self.stored[j][1] for j in range(self.m))
            goals.append(("rejected-construction-touches-no-other-entry", z3.BoolVal(bool(ok or same))))
        else:
            goals.append(("table-extended-by-exactly-this-entry", z3.BoolVal(bool(ok))))
        if ok:
            goals.append(("stored-under-its-content", content_eq(ex, W, table[-1][0], self.req)))
        if kind == "return":
            goals.append(("returns-the-new-node", z3.BoolVal(r is n)))
        goals.append(("type-checked-once", z3.BoolVal(ex.ghost.get("type_checked", 0) == 1)))
        return goals


# ---- accessors on a heap node -------------------------------------------------------
def _accessor_cases():
    """(accessor, operator, payload (python structure over symbols), expected component)"""
    i0, i1, i2 = (z3.Const("payload_int%d" % k, I) for k in range(3))
    s0 = z3.Const("payload_str", Str)
    t0 = z3.Const("payload_type", Ty)
    n0 = z3.Const("payload_node", Node)
    q = (z3.Const("qvar0", Node), z3.Const("qvar1", Node))
    return [
        ("symbol_name", S.SYMBOL, (s0, t0), s0), ("symbol_type", S.SYMBOL, (s0, t0), t0),
        ("constant_value", S.INT_CONSTANT, i0, i0), ("constant_value", S.BV_CONSTANT, (i0, i1), i0),
        ("bv_width", S.BV_CONSTANT, (i0, i1), i1), ("bv_width", S.BV_ADD, (i0,), i0), ("bv_width", S.BV_EXTRACT, (i0, i1, i2), i0),
        ("bv_extract_start", S.BV_EXTRACT, (i0, i1, i2), i1), ("bv_extract_end", S.BV_EXTRACT, (i0, i1, i2), i2),
        ("bv_rotation_step", S.BV_ROL, (i0, i1), i1), ("bv_rotation_step", S.BV_ROR, (i0, i1), i1),
        ("bv_extend_step", S.BV_ZEXT, (i0, i1), i1), ("bv_extend_step", S.BV_SEXT, (i0, i1), i1),
        ("function_name", S.FUNCTION, n0, n0), ("quantifier_vars", S.FORALL, q, q), ("quantifier_vars", S.EXISTS, q, q),
        ("array_value_index_type", S.ARRAY_VALUE, t0, t0), ("bv_unsigned_value", S.BV_CONSTANT, (i0, i1), i0),
        # the signed reading of a well-formed constant (0 <= value < 2**width): the integer SBV() maps to it
        ("bv_signed_value", S.BV_CONSTANT, (i0, i1), z3.If(i0 >= S.pow2(i1 - 1), i0 - S.pow2(i1), i0)),
    ]


class AccessorVariant(Variant):
    prop_ids = ("C04",)

    def __init__(self, world, acc, Kop, payload, want, nargs=2):
        self.world, self.acc, self.Kop, self.payload, self.want, self.nargs = world, acc, Kop, payload, want, nargs
        self.qualname = FNODE + "." + acc
        self.name = "accessor:%s[%s]" % (acc, S.OPNAMES[Kop] if Kop is not None else "any")

    def setup(self, ex):
        W = self.world
        for q in [q for q in W.contracts if q.startswith(FNODE + ".")]:
            del W.contracts[q]          # heap model: the accessors themselves run from source
        self.kids = tuple(z3.Const("child%d" % i, Node) for i in range(self.nargs))
        Kop = self.Kop if self.Kop is not None else z3.Const("op", I)
        c = Obj("pysmt.fnode.FNodeContent", {"node_type": Kop, "args": self.kids, "payload": self.payload}, tag="content")
        self.nid = z3.Const("node_id", I)
        self.n = Obj(FNODE, {"_content": c, "_node_id": self.nid}, tag="node")
        if self.acc == "bv_signed_value":
            v, w = self.payload
            ex.assume(z3.And(w >= 1, v >= 0, v < S.pow2(w)))
        fi = W.repo.method(FNODE, self.acc)
        fn = W.wrap_func(fi, fi.module, bound=self.n)
        if self.acc == "arg":
            self.idx = 1
            return fn, [1], {}
        return fn, [], {}

    def check(self, ex, outcome):
        kind, r = outcome
        if kind == "raise":
            return [("no-exception", z3.BoolVal(False))]
        W = self.world
        a = self.acc
        if a == "node_type":
            want = self.n.fields["_content"].fields["node_type"]
        elif a == "args":
            want = self.kids
        elif a == "arg":
            want = self.kids[1]
        elif a in ("node_id", "__hash__"):
            want = self.nid
        else:
            want = self.want
        c = BI._eq(W, ex, r, want)
        return [("returns-what-the-node-was-built-from", c if is_z3(c) else z3.BoolVal(bool(c)))]


# ---------------------------------------------------------------------------
# constant arrays: canonical argument list and look-up by bisection
# ---------------------------------------------------------------------------
class RecordingCreateNode(core.CreateNode):
    def apply(self, ex, a, kw):
        names = ["self", "node_type", "args", "payload"]
        vals = dict(zip(names, a))
        vals.update(kw)
        ex.ghost["create_node_call"] = (vals["node_type"], list(BI.iterate(self.world, ex, vals["args"])), vals.get("payload"))
        return core.CreateNode.apply(self, ex, a, kw)


class ArrayVariant(Variant):
    prop_ids = ("C04",)
    qualname = MGR + ".Array"
    bounded = "arity"

    def __init__(self, world, n):
        self.world, self.n = world, n
        self.name = "Array[%d assignments]" % n

    def setup(self, ex):
        W = self.world
        env = core.make_env(ex, W)
        c = RecordingCreateNode()
        c.world = W
        W.contracts[c.qualname] = c
        self.d = z3.Const("default", Node)
        self.ks = [z3.Const("index%d" % i, Node) for i in range(self.n)]
        self.vs = [z3.Const("value%d" % i, Node) for i in range(self.n)]
        for x in [self.d] + self.ks + self.vs:
            W.touch(ex, x)
        for k in self.ks:
            ex.assume(S.isconst(k))
        if self.n > 1:
            ex.assume(z3.Distinct(self.ks))          # keys of a dict
        self.it = z3.Const("index_type", Ty)
        from pyvc import spec
        ex.assume(spec.valid_type(self.it))
        fi = W.repo.func(self.qualname)
        mgr = env.fields["_formula_manager"]
        return W.wrap_func(fi, fi.module, bound=mgr), [self.it, self.d, DictVal([[k, v] for k, v in zip(self.ks, self.vs)])], {}

    def check(self, ex, outcome):
        kind, r = outcome
        call = ex.ghost.get("create_node_call")
        if call is None:
            return [("builds-a-node", z3.BoolVal(kind == "raise"))] if kind == "raise" else [("builds-a-node", z3.BoolVal(False))]
        Kop, args, payload = call
        goals = [("operator", z3.BoolVal(Kop == S.ARRAY_VALUE)), ("default-first", args[0] == self.d if args else z3.BoolVal(False)),
                 ("index-sort-is-the-payload", payload == self.it if is_z3(payload) else z3.BoolVal(False)),
                 ("pairs", z3.BoolVal(len(args) % 2 == 1))]
        pairs = list(zip(args[1::2], args[2::2]))
        # exactly the assignments that differ from the default
        for k, v in zip(self.ks, self.vs):
            present = z3.Or([z3.And(pk == k, pv == v) for pk, pv in pairs]) if pairs else z3.BoolVal(False)
            goals.append(("keeps-exactly-the-non-default-assignments", present == (v != self.d)))
        for pk, pv in pairs:
            goals.append(("only-given-assignments", z3.Or([z3.And(pk == k, pv == v) for k, v in zip(self.ks, self.vs)])))
        for (k1, _), (k2, _) in zip(pairs, pairs[1:]):
            goals.append(("strictly-ordered-by-id", S.nid(k1) < S.nid(k2)))
        return goals


class ArrayGetVariant(Variant):
    """array_value_get on a node whose assignments are strictly ordered by id (what Array establishes)"""
    prop_ids = ("C04",)
    qualname = FNODE + ".array_value_get"
    bounded = "arity"

    def __init__(self, world, n):
        self.world, self.n = world, n
        self.name = "array_value_get[%d assignments]" % n
        self.loop_bound = 6

    def setup(self, ex):
        W = self.world
        env = core.make_env(ex, W)
        f = z3.Const("array_value", Node)
        self.f = f
        k = 1 + 2 * self.n
        ex.assume(S.op(f) == S.ARRAY_VALUE)
        W.learn(ex, f, op=S.ARRAY_VALUE, k=k)
        self.args = [S.arg(f, S.K(i)) for i in range(k)]
        keys = self.args[1::2]
        for a, b in zip(keys, keys[1:]):
            ex.assume(S.nid(a) < S.nid(b))
        for a in keys:
            for b in keys:
                if not a.eq(b):
                    ex.assume((S.nid(a) == S.nid(b)) == (a == b))
        self.idx = z3.Const("index", Node)
        W.touch(ex, self.idx)
        ex.assume(S.isconst(self.idx))
        for a in keys:
            ex.assume((S.nid(a) == S.nid(self.idx)) == (a == self.idx))       # ids are injective
        fi = W.repo.func(self.qualname)
        return W.wrap_func(fi, fi.module, bound=f), [self.idx], {}

    def check(self, ex, outcome):
        kind, r = outcome
        if kind == "raise" or not is_node(r):
            return [("no-exception", z3.BoolVal(False))]
        want = self.args[0]
        for k, v in reversed(list(zip(self.args[1::2], self.args[2::2]))):
            want = z3.If(self.idx == k, v, want)
        return [("finds-the-assignment-or-the-default", r == want)]


# ---------------------------------------------------------------------------
# symbol table
# ---------------------------------------------------------------------------
class SymbolTableVariant(Variant):
    prop_ids = ("C04",)

    def __init__(self, world, method, stored):
        self.world, self.method, self.nstored = world, method, stored
        self.qualname = MGR + "." + method
        self.name = "symbols:%s[%d stored]" % (method, stored)

    def setup(self, ex):
        from pyvc.loops import LoopInvariant
        W = self.world
        env = core.make_env(ex, W)
        c = RecordingCreateNode()
        c.world = W
        W.contracts[c.qualname] = c
        mgr = env.fields["_formula_manager"]
        self.mgr = mgr
        self.names = [z3.Const("stored_name%d" % i, Str) for i in range(self.nstored)]
        self.syms = [z3.Const("stored_symbol%d" % i, Node) for i in range(self.nstored)]
        if self.nstored > 1:
            ex.assume(z3.Distinct(self.names))
        for nm, s in zip(self.names, self.syms):
            W.touch(ex, s)
            ex.assume(S.op(s) == S.SYMBOL)
            W.learn(ex, s, op=S.SYMBOL, k=0)
            ex.assume(S.pl_str(s) == nm)             # invariant: a symbol is stored under its own name
        mgr.fields["symbols"] = DictVal([[nm, s] for nm, s in zip(self.names, self.syms)])
        self.name_ = z3.Const("name", Str)
        self.ty = z3.Const("typename", Ty)
        from pyvc import spec
        ex.assume(spec.valid_type(self.ty))
        ex.assume(z3.Length(self.name_) > 0)
        fi = W.repo.func(self.qualname)
        fn = W.wrap_func(fi, fi.module, bound=mgr)
        if self.method == "new_fresh_symbol":
            self.g0 = z3.Const("fresh_guess", I)
            ex.assume(self.g0 >= 0)
            mgr.fields["_fresh_guess"] = self.g0

            from pyvc import loops as L
            CNT = (L.stored_names(L.loop_node(W.repo, self.qualname, 0)) or ["count"])[0]      # the counter: the local the loop assigns

            def havoc(exx, fr):
                fr.locs[CNT] = exx.fresh("count", I)

            def inv(exx, fr):
                return [("count-never-moves-back", BI.to_int(fr.locs[CNT]) >= self.g0)]
            W.loop_contracts[(self.qualname, 0)] = LoopInvariant(havoc, inv, name="search")
            # Symbol(name, type) for a name that is not in the table: creates and registers it (proved below)
            return fn, [self.ty], {}
        return fn, [self.name_, self.ty], {}

    def check(self, ex, outcome):
        kind, r = outcome
        W = self.world
        table = self.mgr.fields["symbols"].items
        hits = [self.name_ == nm for nm in self.names]
        if self.method == "new_fresh_symbol":
            if kind == "raise":
                # only the (modelled) clash inside Symbol: cannot happen for a name that is not in the table
                return [("no-exception", z3.BoolVal(False))]
            if not is_node(r):
                return [("returns-symbol", z3.BoolVal(False))]
            W.unfold(ex, r, S.SYMBOL, 0)
            g1 = BI.to_int(self.mgr.fields["_fresh_guess"])
            return [("name-was-not-in-the-table", z3.And([S.pl_str(r) != nm for nm in self.names]) if self.names else z3.BoolVal(True)),
                    ("has-the-requested-sort", S.pl_ty(r) == self.ty),
                    ("counter-moves-past-the-name", z3.And(g1 - 1 >= self.g0,
                                                           S.pl_str(r) == z3.Concat(z3.StringVal("FV"), z3.IntToStr(g1 - 1))))]
        goals = []
        case = None
        for j, h in enumerate(hits):
            if ex.decide(h):
                case = j
                break
        if case is not None:
            s = self.syms[case]
            same_type = S.pl_ty(s) == self.ty
            if kind == "raise":
                goals.append(("error-only-for-a-different-sort", z3.Not(same_type)))
            else:
                goals.append(("returns-the-stored-symbol", z3.And(r == s, same_type) if is_node(r) else z3.BoolVal(False)))
            goals.append(("table-unchanged", z3.BoolVal(len(table) == self.nstored)))
            goals.append(("no-node-created", z3.BoolVal(ex.ghost.get("create_node_call") is None)))
            return goals
        if kind == "raise":
            return [("no-exception", z3.BoolVal(False))]
        call = ex.ghost.get("create_node_call")
        ok = call is not None and call[0] == S.SYMBOL and not call[1]
        goals.append(("creates-a-symbol-node", z3.BoolVal(bool(ok))))
        if ok:
            pl = call[2]
            goals.append(("payload-is-name-and-sort", z3.And(pl[0] == self.name_, pl[1] == self.ty)))
        goals.append(("registered-under-its-name", z3.BoolVal(len(table) == self.nstored + 1) if len(table) != self.nstored + 1
                      else z3.And(table[-1][0] == self.name_, table[-1][1] == r)))
        return goals


# ---------------------------------------------------------------------------
# constant caches
# ---------------------------------------------------------------------------
class ConstCacheVariant(Variant):
    """Int / String on a cache holding one arbitrary entry; argument of the right kind, or a float / a non-string"""
    prop_ids = ("C04", "C14")

    def __init__(self, world, ctor, argkind):
        self.world, self.ctor, self.argkind = world, ctor, argkind
        self.qualname = MGR + "." + ctor
        self.name = "const-cache:%s[%s]" % (ctor, argkind)

    def setup(self, ex):
        W = self.world
        env = core.make_env(ex, W)
        c = RecordingCreateNode()
        c.world = W
        W.contracts[c.qualname] = c
        mgr = env.fields["_formula_manager"]
        self.mgr = mgr
        fi = W.repo.func(self.qualname)
        fn = W.wrap_func(fi, fi.module, bound=mgr)
        if self.ctor == "Int":
            self.k0 = z3.Const("cached_value", I)
            self.n0 = W.new_node(ex, S.INT_CONSTANT, [], [self.k0], check=False)      # invariant: the cache maps v to THE constant v
            mgr.fields["int_constants"] = DictVal([[self.k0, self.n0]])
            if self.argkind == "int":
                self.v = z3.Const("value", I)
                return fn, [self.v], {}
            # a float: never an acceptable argument, whether or not it equals a cached integer
            self.v = FloatVal(sym=z3.Const("float_value", z3.RealSort()))
            return fn, [self.v], {}
        if self.ctor == "Real":
            # a cache entry for an integer-valued key; the argument is a Python bool (True == 1, False == 0 as dictionary keys):
            # never an acceptable argument, whether or not a constant of that value was made before
            self.k0 = z3.Const("cached_value", I)
            self.n0 = W.new_node(ex, S.REAL_CONSTANT, [], [z3.ToReal(self.k0)], check=False)
            mgr.fields["real_constants"] = DictVal([[self.k0, self.n0]])
            self.v = (self.argkind == "bool-true")
            return fn, [self.v], {}
        if self.ctor == "String":
            self.k0 = z3.Const("cached_value", Str)
            self.n0 = W.new_node(ex, S.STR_CONSTANT, [], [self.k0], check=False)
            mgr.fields["string_constants"] = DictVal([[self.k0, self.n0]])
            self.v = z3.Const("value", Str)
            return fn, [self.v], {}
        raise KeyError(self.ctor)

    def check(self, ex, outcome):
        kind, r = outcome
        W = self.world
        if self.argkind == "float" or self.argkind.startswith("bool"):
            return [("wrong-kind-rejected-whatever-the-cache-holds", z3.BoolVal(kind == "raise"))]
        if kind == "raise" or not is_node(r):
            return [("no-exception", z3.BoolVal(False))]
        Kop = S.INT_CONSTANT if self.ctor == "Int" else S.STR_CONSTANT
        want = W.mk_term(Kop, [], [self.v])
        cache = self.mgr.fields["int_constants" if self.ctor == "Int" else "string_constants"].items
        goals = [("cache-transparent:the-constant-of-that-value", r == want)]
        # cache invariant kept: every entry maps a value to THE constant of that value
        for k, n in cache:
            goals.append(("cache-invariant", n == W.mk_term(Kop, [], [k])))
        return goals


def extras(prop, tier, seed):
    if prop != "C04":
        return []
    from pyvc.report import run_bounded
    return [run_bounded("hashcons", tier, seed)]


def variants(world, tier="quick", only=None):
    out = []
    for m in (0, 1, 2):
        for na in (0, 2):
            out.append(CreateNodeVariant(world, m, na))
    for acc, Kop, payload, want in _accessor_cases():
        out.append(AccessorVariant(world, acc, Kop, payload, want))
    for acc in ("node_type", "args", "arg", "node_id", "__hash__"):
        out.append(AccessorVariant(world, acc, None, z3.Const("payload_any", I), None))
    for n in (0, 1, 2, 3):
        out.append(ArrayVariant(world, n))
        out.append(ArrayGetVariant(world, n))
    for meth in ("get_or_create_symbol", "_create_symbol", "new_fresh_symbol"):
        for st in (0, 1, 2):
            if meth == "_create_symbol" and st > 0:
                continue
            out.append(SymbolTableVariant(world, meth, st))
    out += [ConstCacheVariant(world, "Int", "int"), ConstCacheVariant(world, "Int", "float"), ConstCacheVariant(world, "String", "str"),
            ConstCacheVariant(world, "Real", "bool-true"), ConstCacheVariant(world, "Real", "bool-false")]
    if only:
        out = [v for v in out if any(o in v.name for o in only)]
    return out


# ---- the is_<operator>() predicates ---------------------------------------------------
PREDICATE_OPS = {"is_function_application": "FUNCTION", "is_select": "ARRAY_SELECT", "is_store": "ARRAY_STORE",
                 "is_array_value": "ARRAY_VALUE", "is_algebraic_constant": "ALGEBRAIC_CONSTANT", "is_symbol": "SYMBOL"}
PREDICATE_SETS = {"is_quantifier": ("FORALL", "EXISTS")}
NOT_OPERATOR_PREDICATES = ("is_constant", "is_term", "is_literal", "is_true", "is_false", "is_one", "is_zero", "is_bool_op", "is_theory_op",
                           "is_theory_relation", "is_ira_op", "is_lira_op", "is_bv_op", "is_array_op", "is_str_op", "is_bool_constant",
                           "is_real_constant", "is_int_constant", "is_bv_constant", "is_string_constant")


def operator_predicates(repo):
    """-> [(method name, tuple of operator codes)] for the argument-less is_<operator>() methods of FNode"""
    mi, ci = repo.find_class(FNODE)
    byname = {n: k for k, n in enumerate(S.OPNAMES)} if isinstance(S.OPNAMES, (list, tuple)) else {n: k for k, n in S.OPNAMES.items()}
    out = []
    for name, fi in sorted(ci["methods"].items()):
        if not name.startswith("is_") or name in NOT_OPERATOR_PREDICATES or len(fi.node.args.args) != 1:
            continue
        if name in PREDICATE_SETS:
            out.append((name, tuple(byname[o] for o in PREDICATE_SETS[name])))
            continue
        opn = PREDICATE_OPS.get(name, name[3:].upper())
        if opn in byname:
            out.append((name, (byname[opn],)))
    return out


class PredicateVariant(Variant):
    """is_<operator>() is true exactly for nodes of that operator (the operator is named by the method)"""
    prop_ids = ("C04",)

    def __init__(self, world, name, ops):
        self.world, self.pname, self.ops = world, name, ops
        self.qualname = FNODE + "." + name
        self.name = "predicate:%s" % name

    def setup(self, ex):
        W = self.world
        for q in [q for q in W.contracts if q.startswith(FNODE + ".")]:
            del W.contracts[q]
        self.K = z3.Const("node_type", I)
        c = Obj("pysmt.fnode.FNodeContent", {"node_type": self.K, "args": (), "payload": None}, tag="content")
        n = Obj(FNODE, {"_content": c, "_node_id": z3.Const("node_id", I)}, tag="node")
        fi = W.repo.method(FNODE, self.pname)
        return W.wrap_func(fi, fi.module, bound=n), [], {}

    def check(self, ex, outcome):
        kind, r = outcome
        if kind == "raise":
            return [("no-exception", z3.BoolVal(False))]
        t = ex.truth(r)
        t = t if is_z3(t) else z3.BoolVal(bool(t))
        return [("true-exactly-for-its-operator", t == z3.Or([self.K == o for o in self.ops]))]


_base_variants4 = variants


def variants(world, tier="quick", only=None):
    out = _base_variants4(world, tier, only)
    extra = [PredicateVariant(world, n, ops) for n, ops in operator_predicates(world.repo)]
    if only:
        extra = [v for v in extra if any(o in v.name for o in only)]
    return out + extra


# ---------------------------------------------------------------------------
# cross-environment copies: the symbol case of FormulaContextualizer
# ---------------------------------------------------------------------------
class CopySymbolVariant(Variant):
    """FormulaContextualizer.walk_symbol(s) with a target manager whose symbol table holds 0-1 symbols (possibly one of the same
    name): the copy is a symbol of the target with the NAME and the SORT of the source symbol (through get_or_create_symbol,
    proved above: the stored symbol when name and sort agree, a new one when the name is free); a target symbol of that name
    but another sort is an error, never an answer."""
    prop_ids = ("C04",)
    qualname = "pysmt.formula.FormulaContextualizer.walk_symbol"

    def __init__(self, world, stored):
        self.world, self.nstored = world, stored
        self.name = "copy:walk_symbol[%d in the target]" % stored

    def setup(self, ex):
        W = self.world
        env = core.make_env(ex, W)
        c = RecordingCreateNode()
        c.world = W
        W.contracts[c.qualname] = c
        mgr = env.fields["_formula_manager"]
        self.mgr = mgr
        self.src = z3.Const("source_symbol", Node)
        W.touch(ex, self.src)
        ex.assume(S.op(self.src) == S.SYMBOL)
        W.learn(ex, self.src, op=S.SYMBOL, k=0)
        from pyvc import spec
        ex.assume(spec.valid_type(S.pl_ty(self.src)))
        ex.assume(z3.Length(S.pl_str(self.src)) > 0)
        self.syms = []
        entries = []
        for i in range(self.nstored):
            s = z3.Const("target_symbol%d" % i, Node)
            W.touch(ex, s)
            ex.assume(S.op(s) == S.SYMBOL)
            W.learn(ex, s, op=S.SYMBOL, k=0)
            ex.assume(s != self.src)              # (another environment: no node is shared)
            self.syms.append(s)
            entries.append([S.pl_str(s), s])
        mgr.fields["symbols"] = DictVal(entries)
        self.w = Obj("pysmt.formula.FormulaContextualizer", {"env": env, "mgr": mgr, "memoization": DictVal(), "stack": [],
                                                           "type_normalize": Builtin("type_normalize", lambda exx, a, kw: a[0])}, tag="contextualizer")
        fi = W.repo.func(self.qualname)
        return W.wrap_func(fi, fi.module, bound=self.w), [self.src], {"args": []}

    def check(self, ex, outcome):
        kind, r = outcome
        clash = z3.Or([z3.And(S.pl_str(s) == S.pl_str(self.src), S.pl_ty(s) != S.pl_ty(self.src)) for s in self.syms]) if self.syms else z3.BoolVal(False)
        if kind == "raise":
            return [("error-only-for-a-target-symbol-of-that-name-with-another-sort", clash)]
        if not is_node(r):
            return [("returns-symbol", z3.BoolVal(False))]
        W = self.world
        W.touch(ex, r)
        return [("copy-is-a-symbol", S.op(r) == S.SYMBOL), ("copy-has-the-name-of-the-source", S.pl_str(r) == S.pl_str(self.src)),
                ("copy-has-the-sort-of-the-source", S.pl_ty(r) == S.pl_ty(self.src)),
                ("clash-is-not-answered", z3.Not(clash))]


_base_variants4c = variants


def variants(world, tier="quick", only=None):
    out = _base_variants4c(world, tier, None) + [CopySymbolVariant(world, 0), CopySymbolVariant(world, 1)]
    if only:
        out = [v for v in out if any(o in v.name for o in only)]
    return out


class RealCtorVariant(Variant):
    """FormulaManager.Real(v) for v an int, a Fraction, a pair (n, d) or a float, on a cache with one arbitrary entry: THE Real
    constant whose value is exactly the rational value of v (a float stands for the binary fraction it is - never a rounded
    one), the same object for every spelling of that value; the cache stays a map from spellings to the constant of their value."""
    prop_ids = ("C04", "C06", "C14")

    def __init__(self, world, kind):
        self.world, self.kind = world, kind
        self.qualname = MGR + ".Real"
        self.name = "const:Real[%s]" % kind

    def setup(self, ex):
        from fractions import Fraction
        W = self.world
        env = core.make_env(ex, W)
        for q in ("pysmt.formula.FormulaManager.Real",):
            W.contracts.pop(q, None)                 # the constructor itself runs from source here
        c = RecordingCreateNode()
        c.world = W
        W.contracts[c.qualname] = c
        mgr = env.fields["_formula_manager"]
        self.mgr = mgr
        R_ = z3.RealSort()
        self.k0 = z3.Const("cached_key", I)
        self.n0 = W.new_node(ex, S.REAL_CONSTANT, [], [z3.ToReal(self.k0)], check=False)
        mgr.fields["real_constants"] = DictVal([[self.k0, self.n0]])
        if self.kind == "int":
            v = z3.Const("value", I)
            self.exact = z3.ToReal(v)
        elif self.kind == "pair":
            n_, d_ = z3.Const("numerator", I), z3.Const("denominator", I)
            ex.assume(d_ != 0)
            v = (n_, d_)
            self.exact = z3.ToReal(n_) / z3.ToReal(d_)
        elif self.kind == "float":
            v = FloatVal(sym=z3.Const("float_value", R_))
            self.exact = BI.float_real(v)
        else:
            raise KeyError(self.kind)
        self.v = v
        fi = W.repo.func(self.qualname)
        return W.wrap_func(fi, fi.module, bound=mgr), [v], {}

    def check(self, ex, outcome):
        kind, r = outcome
        if kind == "raise" or not is_node(r):
            return [("no-exception", z3.BoolVal(False))]
        W = self.world
        want = W.mk_term(S.REAL_CONSTANT, [], [self.exact])
        goals = [("the-constant-of-exactly-that-value", r == want)]
        for k, n in self.mgr.fields["real_constants"].items:
            kv = BI.to_real(k) if not isinstance(k, (tuple, FloatVal)) else (BI.float_real(k) if isinstance(k, FloatVal) else z3.ToReal(k[0]) / z3.ToReal(k[1]))
            goals.append(("cache-invariant", n == W.mk_term(S.REAL_CONSTANT, [], [kv])))
        return goals


_base_variants4d = variants


def variants(world, tier="quick", only=None):
    out = _base_variants4d(world, tier, None) + [RealCtorVariant(world, k) for k in ("int", "pair", "float")]
    if only:
        out = [v for v in out if any(o in v.name for o in only)]
    return out


class BvConstantPredicateVariant(AccessorVariant):
    """FNode.is_bv_constant(value, width) on a bit-vector constant built from (v, w): true exactly when every argument given
    agrees with what the node was built from (a width alone is compared too); on a constant of another kind: false."""
    prop_ids = ("C04",)

    def __init__(self, world, with_value, with_width, on_bv=True):
        self.with_value, self.with_width, self.on_bv = with_value, with_width, on_bv
        self.v, self.w = z3.Const("built_value", I), z3.Const("built_width", I)
        AccessorVariant.__init__(self, world, "is_bv_constant", S.BV_CONSTANT if on_bv else S.INT_CONSTANT,
                                 (self.v, self.w) if on_bv else self.v, None, nargs=0)
        self.name = "accessor:is_bv_constant[%s%s%s]" % ("value" if with_value else "", "+width" if with_width else "",
                                                        "" if on_bv else " on an Int constant") if (with_value or with_width) else \
            "accessor:is_bv_constant[no arguments%s]" % ("" if on_bv else " on an Int constant")

    def setup(self, ex):
        fn, a, kw = AccessorVariant.setup(self, ex)
        ex.assume(z3.And(self.w >= 1, self.v >= 0, self.v < S.pow2(self.w)))
        self.qv, self.qw = z3.Const("asked_value", I), z3.Const("asked_width", I)
        ex.assume(self.qw >= 1)
        kw = {}
        if self.with_value:
            kw["value"] = self.qv
        if self.with_width:
            kw["width"] = self.qw
        return fn, [], kw

    def check(self, ex, outcome):
        kind, r = outcome
        if kind == "raise":
            return [("no-exception", z3.BoolVal(False))]
        t = ex.truth(r) if not isinstance(r, bool) else z3.BoolVal(r)
        t = t if is_z3(t) else z3.BoolVal(bool(t))
        if not self.on_bv:
            return [("another-kind-of-constant-is-not-a-bit-vector-constant", z3.Not(t))]
        conds = []
        if self.with_value:
            conds.append(self.qv == self.v)
        if self.with_width:
            conds.append(self.qw == self.w)
        return [("true-exactly-when-the-given-value-and-width-are-the-node's", t == (z3.And(conds) if conds else z3.BoolVal(True)))]


_base_variants4z = variants


def variants(world, tier="quick", only=None):
    out = _base_variants4z(world, tier, None)
    for wv, ww in ((False, False), (True, False), (False, True), (True, True)):
        out.append(BvConstantPredicateVariant(world, wv, ww))
    out.append(BvConstantPredicateVariant(world, False, True, on_bv=False))
    out.append(BvConstantPredicateVariant(world, False, False, on_bv=False))
    if only:
        out = [v for v in out if any(o in v.name for o in only)]
    return out
