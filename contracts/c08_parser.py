"""C08: the scoping machinery of the SMT-LIB parser against the standard's scoping rules,
on the real bodies, with the token stream abstracted.

    SmtLibExecutionCache   name -> stack of bindings (+ global definitions)
        get(n)    = innermost binding of n, else the definition of n, else None
        bind / unbind / update / unbind_all: push / pop on the named stacks only (frame)
    let        (let ((n1 t1) .. (nk tk)) body)   every ti is read in the ENCLOSING scope
               (simultaneous); in the body ni denotes ti; on exit the scope is as on entry
    quantifier the bound names denote the bound variables inside the body only
    define-fun the parameters denote fresh variables inside the body only; the definition
               maps the name to (parameters, body); applying it substitutes exactly
               parameter i by argument i

Token stream: `Tokenizer.consume / consume_maybe` hand out the tokens of a scripted
abstract stream; `get_expression` and `parse_type` consume one TERM / SORT token and are
assumed to return what the token denotes *in the scope at that moment* - the contract
observes that scope through the real cache.get for every name under watch.
The tokenizer, the term reader's stack machine and the literals are covered by the
bounded stand-ins smtlib_import / smtlib_malformed (independent reader)."""
import z3

from pyvc import sorts as S
from pyvc.sorts import Node, Ty, I, B
from pyvc.symex import Obj, DictVal, Builtin, FuncVal, is_node, is_z3, PyRaise, ExcVal, Unsupported, PathAbort
from pyvc import builtins_impl as BI
from pyvc.harness import Variant
from pyvc.world import Contract
from . import core
from . import c05_substitution as c05

DEADLINE = {"quick": 200, "thorough": 600}
REPLAY_KIND = "parser"
CACHE = "pysmt.smtlib.parser.parser.SmtLibExecutionCache"
PARSER = "pysmt.smtlib.parser.parser.SmtLibParser"
TOK = "pysmt.smtlib.parser.parser.Tokenizer"
Str = z3.StringSort()


def mk_cache(env, keys=(), defs=()):
    return Obj(CACHE, {"keys": DictVal([[k, list(v)] for k, v in keys]), "definitions": DictVal([[k, v] for k, v in defs]),
                       "substitute": Builtin("substitute", record_substitute), "annotations": None}, tag="cache")


def record_substitute(ex, a, kw):
    ex.ghost.setdefault("substitute_calls", []).append((a[0], a[1] if len(a) > 1 else kw.get("subs")))
    r = ex.fresh("substituted", Node)
    return r


def stack_of(ex, world, cache, name):
    """python list bound to `name` in cache.keys (None if the name has no entry)"""
    for k, v in cache.fields["keys"].items:
        c = BI._eq(world, ex, k, name)
        c = c if is_z3(c) else z3.BoolVal(bool(c))
        if ex.decide(c):
            return v
    return None


# ---------------------------------------------------------------------------
# the execution cache
# ---------------------------------------------------------------------------
class CacheVariant(Variant):
    """two named stacks (depths d1, d2) and one definition; the queried name is arbitrary"""
    prop_ids = ("C08",)

    def __init__(self, world, method, d1, d2, defparams):
        self.world, self.method, self.d1, self.d2, self.defparams = world, method, d1, d2, defparams
        self.qualname = CACHE + "." + method
        self.name = "cache:%s[stacks %d,%d/def%d]" % (method, d1, d2, defparams)

    def setup(self, ex):
        W = self.world
        env = core.make_env(ex, W)
        self.n1, self.n2, self.nd, self.q = (z3.Const(x, Str) for x in ("name1", "name2", "defname", "query"))
        ex.assume(z3.Distinct(self.n1, self.n2))
        self.s1 = [z3.Const("b1_%d" % i, Node) for i in range(self.d1)]
        self.s2 = [z3.Const("b2_%d" % i, Node) for i in range(self.d2)]
        self.dexpr = z3.Const("defbody", Node)
        self.dparams = [z3.Const("formal%d" % i, Node) for i in range(self.defparams)]
        if self.defparams > 1:
            ex.assume(z3.Distinct(self.dparams))       # the formal parameters of a definition are distinct variables
        c = mk_cache(env, [(self.n1, self.s1), (self.n2, self.s2)], [(self.nd, (list(self.dparams), self.dexpr))])
        self.c = c
        self.val = z3.Const("value", Node)
        fi = W.repo.method(CACHE, self.method)
        fn = W.wrap_func(fi, fi.module, bound=c)
        if self.method == "bind":
            return fn, [self.q, self.val], {}
        if self.method == "unbind":
            # pre-condition: the name has a binding to remove
            ex.assume(z3.Or(z3.And(self.q == self.n1, z3.BoolVal(self.d1 > 0)), z3.And(self.q == self.n2, z3.BoolVal(self.d2 > 0))))
            return fn, [self.q], {}
        if self.method == "get":
            return fn, [self.q], {}
        if self.method == "define":
            self.newparams = [z3.Const("p0", Node)]
            self.newbody = z3.Const("newbody", Node)
            return fn, [self.q, list(self.newparams), self.newbody], {}
        raise KeyError(self.method)

    def view(self, ex):
        """final stacks of name1, name2, the queried name"""
        out = {}
        for k, v in self.c.fields["keys"].items:
            out[k] = v
        return out

    def check(self, ex, outcome):
        kind, r = outcome
        W = self.world
        if kind == "raise":
            return [("no-exception", z3.BoolVal(False))]
        keys = self.c.fields["keys"].items
        goals = []

        def final(name):
            for k, v in keys:
                c = BI._eq(W, ex, k, name)
                if c is True or (is_z3(c) and ex.decide(c)):
                    return list(v)
            return None
        f1, f2 = final(self.n1), final(self.n2)

        def same(lst, want):
            return z3.BoolVal(lst is not None and len(lst) == len(want)) if lst is None or len(lst) != len(want) \
                else (z3.And([a == b for a, b in zip(lst, want)]) if want else z3.BoolVal(True))
        q1, q2 = self.q == self.n1, self.q == self.n2
        if self.method == "bind":
            goals.append(("binding-pushed", z3.And(z3.Implies(q1, same(f1, self.s1 + [self.val])), z3.Implies(q2, same(f2, self.s2 + [self.val])))))
            goals.append(("frame:other-names-untouched", z3.And(z3.Implies(z3.Not(q1), same(f1, self.s1)), z3.Implies(z3.Not(q2), same(f2, self.s2)))))
            if ex.decide(z3.And(z3.Not(q1), z3.Not(q2))):
                fq = final(self.q)
                goals.append(("new-name-gets-a-stack", same(fq, [self.val])))
        elif self.method == "unbind":
            goals.append(("innermost-binding-removed", z3.And(z3.Implies(q1, same(f1, self.s1[:-1])), z3.Implies(q2, same(f2, self.s2[:-1])))))
            goals.append(("frame:other-names-untouched", z3.And(z3.Implies(z3.Not(q1), same(f1, self.s1)), z3.Implies(z3.Not(q2), same(f2, self.s2)))))
        elif self.method == "get":
            goals.append(("frame:state-unchanged", z3.And(same(f1, self.s1), same(f2, self.s2))))
            # the specification of name resolution
            if ex.decide(z3.And(q1, z3.BoolVal(self.d1 > 0))):
                goals.append(("innermost-binding-wins", z3.BoolVal(is_node(r)) if not is_node(r) else r == self.s1[-1]))
            elif ex.decide(z3.And(q2, z3.BoolVal(self.d2 > 0))):
                goals.append(("innermost-binding-wins", z3.BoolVal(is_node(r)) if not is_node(r) else r == self.s2[-1]))
            elif ex.decide(self.q == self.nd):
                if self.defparams == 0:
                    goals.append(("definition-when-unbound", z3.BoolVal(is_node(r)) if not is_node(r) else r == self.dexpr))
                else:
                    # a function of the actual parameters: apply it and look at the substitution requested
                    acts = [z3.Const("actual%d" % i, Node) for i in range(self.defparams)]
                    res = W.call(ex, r, acts, {}, None)
                    calls = ex.ghost.get("substitute_calls", [])
                    ok = len(calls) == 1
                    goals.append(("definition-applied-by-substitution", z3.BoolVal(ok)))
                    if ok:
                        body, subs = calls[0]
                        items = subs.items if isinstance(subs, DictVal) else list(subs.items())
                        goals.append(("substitutes-in-the-definition-body", body == self.dexpr))
                        goals.append(("parameter-i-by-argument-i",
                                      z3.And([z3.And(k == p, v == a) for (k, v), p, a in zip(items, self.dparams, acts)])
                                      if len(items) == len(acts) else z3.BoolVal(False)))
            else:
                goals.append(("unknown-name-is-none", z3.BoolVal(r is None)))
        elif self.method == "define":
            goals.append(("frame:bindings-untouched", z3.And(same(f1, self.s1), same(f2, self.s2))))
            d = None
            for k, v in self.c.fields["definitions"].items:
                c = BI._eq(W, ex, k, self.q)
                if c is True or (is_z3(c) and ex.decide(c)):
                    d = v
            ok = d is not None and isinstance(d, tuple) and len(d) == 2
            goals.append(("definition-recorded", z3.BoolVal(bool(ok))))
            if ok:
                okp = len(d[0]) == 1
                goals.append(("definition-content", z3.And(d[1] == self.newbody, d[0][0] == self.newparams[0]) if okp else z3.BoolVal(False)))
        return goals


# ---------------------------------------------------------------------------
# abstract token stream
# ---------------------------------------------------------------------------
class Term:
    def __init__(self, i):
        self.i = i


class Sort:
    def __init__(self, i):
        self.i = i


class Consume(Contract):
    qualname = TOK + ".consume"

    def apply(self, ex, a, kw):
        ts = ex.ghost["tokens"]
        if not ts:
            raise PyRaise(ExcVal("PysmtSyntaxError", ("end of stream",)))
        t = ts.pop(0)
        if isinstance(t, (Term, Sort)):
            raise Unsupported("protocol: a term / sort token consumed as a plain token")
        return t


class ConsumeMaybe(Consume):
    qualname = TOK + ".consume_maybe"


class GetExpression(Contract):
    """get_expression(tokens): consumes one term; what the names under watch resolve to at that
    moment is recorded (through the real cache.get)"""
    qualname = PARSER + ".get_expression"

    def apply(self, ex, a, kw):
        ts = ex.ghost["tokens"]
        t = ts.pop(0)
        if not isinstance(t, Term):
            raise Unsupported("protocol: get_expression at a non-term token")
        parser = a[0]
        cache = parser.fields["cache"]
        snap = {}
        fi = self.world.repo.method(CACHE, "get")
        for nm in ex.ghost["watch"]:
            snap[nm.get_id()] = self.world.call(ex, self.world.wrap_func(fi, fi.module, bound=cache), [nm], {}, None)
        ex.ghost.setdefault("snapshots", {})[t.i] = snap
        e = z3.Const("term%d" % t.i, Node)
        self.world.touch(ex, e)
        h = ex.ghost.get("term_hook")
        if h:
            h(ex, t.i, e)
        return e


class ParseType(Contract):
    qualname = PARSER + ".parse_type"

    def apply(self, ex, a, kw):
        ts = ex.ghost["tokens"]
        t = ts.pop(0)
        if not isinstance(t, Sort):
            raise Unsupported("protocol: parse_type at a non-sort token")
        return ex.ghost["sorts"][t.i]


class FreshSymbol(Contract):
    """FormulaManager.FreshSymbol / new_fresh_symbol: a symbol that did not exist before (C04)"""
    qualname = "pysmt.formula.FormulaManager.FreshSymbol"

    def apply(self, ex, a, kw):
        ty = kw.get("typename", a[1] if len(a) > 1 else S.BoolT)
        n = ex.ghost.get("nfresh", 0)
        ex.ghost["nfresh"] = n + 1
        v = z3.Const("fresh_symbol%d" % n, Node)
        self.world.touch(ex, v)
        ex.assume(S.op(v) == S.SYMBOL)
        self.world.learn(ex, v, op=S.SYMBOL, k=0)
        ex.assume(S.pl_ty(v) == ty)
        prev = ex.ghost.setdefault("fresh_symbols", [])
        for u in prev + list(ex.ghost.get("existing_nodes", [])):
            ex.assume(v != u)                     # fresh: different from every symbol that existed before
        prev.append(v)
        return v


class SymbolCtor8(c05.SymbolCtor):
    """as in C05; the symbols handed out are remembered: a later fresh symbol differs from them"""
    def apply(self, ex, a, kw):
        r = c05.SymbolCtor.apply(self, ex, a, kw)
        ex.ghost.setdefault("existing_nodes", []).append(r)
        return r


def parser_obj(ex, W, env, cache):
    from pyvc.symex import SetVal
    return Obj(PARSER, {"env": env, "cache": cache, "logic": None, "interactive": False, "_invented_vars": SetVal()}, tag="parser")


class ScopeVariant(Variant):
    """kind: let | quantifier | define-fun ; k binders; outer = bitmask of binder names that are already bound outside"""
    prop_ids = ("C08",)
    bounded = "arity"

    def __init__(self, world, kind, k, outer, outer_defined=False):
        self.world, self.kind, self.k, self.outer, self.outer_defined = world, kind, k, outer, outer_defined
        target = {"let": "_enter_let", "quantifier": "_enter_quantifier", "define-fun": "_cmd_define_fun"}[kind]
        self.qualname = PARSER + "." + target
        # outer names are bound (let / quantifier / parameter of an enclosing scope) or DEFINED (define-fun without parameters)
        self.name = "scope:%s[%d binders/outer-%s %s]" % (kind, k, "defined" if outer_defined else "bound", format(outer, "0%db" % k))

    def setup(self, ex):
        W = self.world
        env = core.make_env(ex, W)
        for c in (SymbolCtor8(), Consume(), ConsumeMaybe(), GetExpression(), ParseType(), FreshSymbol()):
            c.world = W
            W.contracts[c.qualname] = c
        k = self.k
        self.names = [z3.Const("binder%d" % i, Str) for i in range(k)]
        self.probe = z3.Const("other_name", Str)
        allnames = self.names + [self.probe]
        ex.assume(z3.Distinct(allnames))
        for nm in allnames:       # names are symbol tokens
            ex.assume(z3.And(nm != z3.StringVal("("), nm != z3.StringVal(")")))
        # enclosing scope: some binder names and the probe name are bound there
        self.outerv = {}
        keys, defs = [], []
        for i, nm in enumerate(self.names):
            if self.outer >> i & 1:
                o = z3.Const("outer%d" % i, Node)
                self.outerv[i] = o
                if self.outer_defined:
                    defs.append((nm, ([], o)))
                else:
                    keys.append((nm, [o]))
        self.probev = z3.Const("outer_other", Node)
        keys.append((self.probe, [self.probev]))
        ex.ghost["existing_nodes"] = list(self.outerv.values()) + [self.probev]
        self.cache = mk_cache(env, keys, defs)
        self.parser = parser_obj(ex, W, env, self.cache)
        g = ex.ghost
        g["watch"] = list(allnames)
        self.sorts = [z3.Const("sort%d" % i, Ty) for i in range(k + 1)]
        from pyvc import spec
        for t in self.sorts:
            ex.assume(spec.valid_type(t))          # parse_type returns a sort
        g["sorts"] = self.sorts
        toks = ["("]
        if self.kind == "let":
            for i in range(k):
                toks += ["(", self.names[i], Term(i), ")"]
            toks += [")"]
        elif self.kind == "quantifier":
            for i in range(k):
                toks += ["(", self.names[i], Sort(i), ")"]
            toks += [")"]
        else:
            # (define-fun NAME ((p1 S1) ..) S body)
            self.fname = z3.Const("defined_name", Str)
            ex.assume(z3.Distinct(allnames + [self.fname]))
            ex.assume(z3.And(self.fname != z3.StringVal("("), self.fname != z3.StringVal(")")))
            toks = [self.fname, "("]
            for i in range(k):
                toks += ["(", self.names[i], Sort(i), ")"]
            toks += [")", Sort(k), Term(0), ")"]
            # the body has the declared return sort (otherwise the command is rejected: other path)
            g["term_hook"] = lambda exx, i, e: exx.assume(S.type_of(e) == self.sorts[k])
        g["tokens"] = toks
        self.stack = [[]]
        self.tokens = Obj(TOK, {"pos_info": None}, tag="tokens")
        fi = W.repo.func(self.qualname)
        fn = W.wrap_func(fi, fi.module, bound=self.parser)
        if self.kind == "let":
            return fn, [self.stack, self.tokens, "let"], {}
        if self.kind == "quantifier":
            return fn, [self.stack, self.tokens, "forall"], {}
        return fn, ["define-fun", self.tokens], {}

    def resolve(self, ex, nm):
        W = self.world
        fi = W.repo.method(CACHE, "get")
        return W.call(ex, W.wrap_func(fi, fi.module, bound=self.cache), [nm], {}, None)

    def is_(self, v, want):
        if want is None:
            return z3.BoolVal(v is None)
        return (v == want) if is_node(v) else z3.BoolVal(False)

    def check(self, ex, outcome):
        kind, r = outcome
        W = self.world
        goals = []
        if kind == "raise":
            # only a clash of a bound name with an existing symbol of another sort may fail (then a fresh symbol is used): never here
            return [("no-exception", z3.BoolVal(False))]
        snaps = ex.ghost.get("snapshots", {})
        outer_of = lambda i: self.outerv.get(i)
        if self.kind == "let":
            # (1) simultaneous: while the i-th bound term is read, every name that is bound in the enclosing scope denotes
            #     what it denotes there
            for i in range(self.k):
                sn = snaps.get(i, {})
                for j, nm in enumerate(self.names):
                    if j in self.outerv:
                        goals.append(("bound-term-%d-reads-%d-in-enclosing-scope" % (i, j), self.is_(sn.get(nm.get_id()), self.outerv[j])))
                goals.append(("bound-term-%d-reads-other-names-in-enclosing-scope" % i, self.is_(sn.get(self.probe.get_id()), self.probev)))
            # (2) inside the body the names denote the bound terms
            for i, nm in enumerate(self.names):
                goals.append(("body-sees-binding-%d" % i, self.is_(self.resolve(ex, nm), z3.Const("term%d" % i, Node))))
            goals.append(("body-sees-other-names", self.is_(self.resolve(ex, self.probe), self.probev)))
            # (3) the exit handler restores the enclosing scope and returns the body
            top = self.stack[-1]
            ok = len(top) == 2
            goals.append(("exit-handler-scheduled", z3.BoolVal(ok)))
            if ok:
                body = z3.Const("let_body", Node)
                res = W.call(ex, top[0], [top[1], body], {}, None)
                goals.append(("let-denotes-its-body", self.is_(res, body)))
                for i, nm in enumerate(self.names):
                    goals.append(("scope-restored-%d" % i, self.is_(self.resolve(ex, nm), outer_of(i))))
                goals.append(("scope-restored-other", self.is_(self.resolve(ex, self.probe), self.probev)))
            return goals
        if self.kind == "quantifier":
            top = self.stack[-1]
            ok = len(top) == 3
            goals.append(("exit-handler-scheduled", z3.BoolVal(ok)))
            if not ok:
                return goals
            vrs = top[2]
            goals.append(("one-variable-per-binder", z3.BoolVal(len(vrs) == self.k)))
            vars_ = []
            for i, nm in enumerate(self.names):
                v = self.resolve(ex, nm)
                vars_.append(v)
                okv = is_node(v)
                if okv:
                    W.unfold(ex, v, S.SYMBOL, 0)
                goals.append(("body-sees-variable-%d" % i, z3.BoolVal(okv)))
                if okv:
                    goals.append(("variable-%d-is-a-symbol-of-the-declared-sort" % i,
                                  z3.And(S.op(v) == S.SYMBOL, S.pl_ty(v) == self.sorts[i])))
            goals.append(("body-sees-other-names", self.is_(self.resolve(ex, self.probe), self.probev)))
            if len(vars_) > 1 and all(is_node(v) for v in vars_):
                goals.append(("distinct-binders-distinct-variables", z3.Distinct(vars_)))
            # exit: scope restored (the construction of the quantifier node is C06's contract)
            fi = W.repo.method(PARSER, "_exit_quantifier")
            got = {}

            def quant(exx, a, kw):
                got["vars"], got["body"] = a[0], a[1]
                return exx.fresh("quantified", Node)
            body = z3.Const("q_body", Node)
            W.call(ex, W.wrap_func(fi, fi.module, bound=self.parser), [Builtin("ForAll", quant), vrs, body], {}, None)
            for i, nm in enumerate(self.names):
                goals.append(("scope-restored-%d" % i, self.is_(self.resolve(ex, nm), outer_of(i))))
            goals.append(("scope-restored-other", self.is_(self.resolve(ex, self.probe), self.probev)))
            qv = got.get("vars")
            items = BI.iterate(W, ex, qv) if qv is not None else []
            goals.append(("quantifies-exactly-the-binders", z3.BoolVal(len(items) == len(vars_)) if len(items) != len(vars_) else
                          z3.And([z3.Or([x == v for x in items]) for v in vars_ if is_node(v)] or [z3.BoolVal(True)])))
            goals.append(("quantifies-the-body", self.is_(got.get("body"), body)))
            return goals
        # define-fun
        sn = snaps.get(0, {})
        fresh = ex.ghost.get("fresh_symbols", [])
        goals.append(("one-fresh-variable-per-parameter", z3.BoolVal(len(fresh) == self.k)))
        for i, nm in enumerate(self.names):
            if i < len(fresh):
                goals.append(("body-sees-parameter-%d" % i, self.is_(sn.get(nm.get_id()), fresh[i])))
                goals.append(("parameter-%d-has-the-declared-sort" % i, S.pl_ty(fresh[i]) == self.sorts[i]))
        goals.append(("body-sees-other-names", self.is_(sn.get(self.probe.get_id()), self.probev)))
        for i, nm in enumerate(self.names):
            goals.append(("scope-restored-%d" % i, self.is_(self.resolve(ex, nm), outer_of(i))))
        d = None
        for kx, v in self.cache.fields["definitions"].items:
            c = BI._eq(W, ex, kx, self.fname)
            if c is True or (is_z3(c) and ex.decide(c)):
                d = v
        ok = d is not None and isinstance(d, tuple) and len(d) == 2 and len(d[0]) == len(fresh)
        goals.append(("definition-recorded", z3.BoolVal(bool(ok))))
        if ok:
            goals.append(("definition-is-parameters-and-body",
                          z3.And([a == b for a, b in zip(d[0], fresh)] + [d[1] == z3.Const("term0", Node)])))
        return goals


def extras(prop, tier, seed):
    from pyvc.report import run_bounded
    if prop == "C15":
        return [run_bounded("parser_reset", tier, seed), run_bounded("declarations", tier, seed)]
    if prop in ("C09", "C14"):
        return [run_bounded("parser_reset", tier, seed)]
    if prop != "C08":
        return []
    return [run_bounded("smtlib_import", tier, seed), run_bounded("smtlib_malformed", tier, seed), run_bounded("parser_reset", tier, seed),
            run_bounded("annotations", tier, seed), run_bounded("declarations", tier, seed)]


def variants(world, tier="quick", only=None):
    out = []
    for m in ("bind", "unbind", "get"):
        for d1, d2 in ((0, 0), (1, 0), (2, 1), (1, 2)):
            if m == "unbind" and d1 == 0 and d2 == 0:
                continue
            for dp in ((0, 1, 2) if m == "get" else (0,)):
                out.append(CacheVariant(world, m, d1, d2, dp))
    out.append(CacheVariant(world, "define", 1, 0, 0))
    for kind in ("let", "quantifier", "define-fun"):
        for k in (1, 2, 3):
            for outer in range(1 << k):
                out.append(ScopeVariant(world, kind, k, outer))
                if kind == "let" and outer:
                    out.append(ScopeVariant(world, kind, k, outer, outer_defined=True))
    if only:
        out = [v for v in out if any(o in v.name for o in only)]
    return out


# ---------------------------------------------------------------------------
# the parser's own operator helpers: (- t)  (- a b)  (= a b)  (/ a b)  (div a b)
# ---------------------------------------------------------------------------
class TypeManagerConst(Contract):
    def __init__(self, name, ty):
        self.qualname = "pysmt.typing.TypeManager." + name
        self.ty = ty

    def apply(self, ex, a, kw):
        return self.ty


class HelperVariant(Variant):
    """value-level specification (SMT-LIB Ints / Reals / Core): what the text denotes"""
    prop_ids = ("C08", "C09")

    def __init__(self, world, helper, shape):
        self.world, self.helper, self.shape = world, helper, shape
        self.qualname = PARSER + "." + helper
        self.name = "helper:%s[%s]" % (helper, shape)

    def setup(self, ex):
        W = self.world
        env = core.make_env(ex, W)
        for c in (TypeManagerConst("INT", S.IntT), TypeManagerConst("BOOL", S.BoolT), TypeManagerConst("REAL", S.RealT)):
            c.world = W
            W.contracts[c.qualname] = c
        mgr = env.fields["_formula_manager"]
        stc = env.fields["_stc"]

        def bound(clsq, meth, obj):
            fi = W.repo.method(clsq, meth)
            return W.wrap_func(fi, fi.module, bound=obj)
        p = Obj(PARSER, {"env": env, "cache": None, "logic": None}, tag="parser")
        # the fix_real wrappers (functools.partial objects made in __init__): on well-sorted arguments they are the constructors
        for nm in ("Minus", "Equals", "Div", "Plus", "Times", "LT", "LE", "GT", "GE", "Ite"):
            p.fields[nm] = bound("pysmt.formula.FormulaManager", nm, mgr)
        p.fields["get_type"] = bound("pysmt.type_checker.SimpleTypeChecker", "get_type", stc)
        self.a, self.b = z3.Const("a", Node), z3.Const("b", Node)
        for x in (self.a, self.b):
            W.touch(ex, x)
            ex.assume(z3.Not(Ty.is_FunT(S.type_of(x))))
        ta, tb = S.type_of(self.a), S.type_of(self.b)
        sh = self.shape
        if sh == "neg-int-literal":
            ex.assume(z3.And(S.op(self.a) == S.INT_CONSTANT))
            W.learn(ex, self.a, op=S.INT_CONSTANT, k=0)
            args = [self.a]
        elif sh == "neg-real-literal":
            ex.assume(S.op(self.a) == S.REAL_CONSTANT)
            W.learn(ex, self.a, op=S.REAL_CONSTANT, k=0)
            args = [self.a]
        elif sh == "neg-int-term":
            ex.assume(ta == S.IntT)
            args = [self.a]
        elif sh == "neg-real-term":
            ex.assume(ta == S.RealT)
            args = [self.a]
        elif sh == "binary-int":
            ex.assume(z3.And(ta == S.IntT, tb == S.IntT))
            args = [self.a, self.b]
        elif sh == "binary-real":
            ex.assume(z3.And(ta == S.RealT, tb == S.RealT))
            args = [self.a, self.b]
        elif sh in ("ternary-int", "ternary-real"):
            self.c = z3.Const("c", Node)
            W.touch(ex, self.c)
            T_ = S.IntT if sh == "ternary-int" else S.RealT
            ex.assume(z3.And(ta == T_, tb == T_, S.type_of(self.c) == T_))
            args = [self.a, self.b, self.c]
        elif sh == "bool":
            ex.assume(z3.And(ta == S.BoolT, tb == S.BoolT))
            args = [self.a, self.b]
        elif sh == "same-sort":
            ex.assume(z3.And(ta == tb, ta != S.BoolT, ta != S.NoneT))
            args = [self.a, self.b]
        else:
            raise KeyError(sh)
        fi = W.repo.method(PARSER, self.helper)
        return W.wrap_func(fi, fi.module, bound=p), args, {}

    def check(self, ex, outcome):
        kind, r = outcome
        sh, h = self.shape, self.helper
        va, vb = S.val(self.a), S.val(self.b)
        if sh.startswith("ternary"):
            # (- a b c) is left-associative in SMT-LIB; pySMT may refuse it, but must not read it as something else
            if kind == "raise":
                return [("more-than-two-operands-refused-or-read-left-associatively", z3.BoolVal(True))]
            if not is_node(r):
                return [("returns-node", z3.BoolVal(False))]
            self.world.touch(ex, r)
            acc = S.vi if sh == "ternary-int" else S.vr
            return [("more-than-two-operands-refused-or-read-left-associatively", acc(S.val(r)) == acc(va) - acc(vb) - acc(S.val(self.c)))]
        if kind == "raise":
            return [("no-exception", z3.BoolVal(False))]
        if not is_node(r):
            return [("returns-node", z3.BoolVal(False))]
        self.world.touch(ex, r)
        t, v = S.type_of(r), S.val(r)
        if h == "_minus_or_uminus":
            if sh.startswith("neg-int"):
                return [("sort", t == S.IntT), ("denotes-negation", S.vi(v) == -S.vi(va))] + \
                    ([("literal-stays-a-literal", S.op(r) == S.INT_CONSTANT)] if sh == "neg-int-literal" else [])
            if sh.startswith("neg-real"):
                return [("sort", t == S.RealT), ("denotes-negation", S.vr(v) == -S.vr(va))] + \
                    ([("literal-stays-a-literal", S.op(r) == S.REAL_CONSTANT)] if sh == "neg-real-literal" else [])
            if sh == "binary-int":
                return [("sort", t == S.IntT), ("denotes-difference", S.vi(v) == S.vi(va) - S.vi(vb)),
                        ("C09:rebuilds-the-minus-node", r == self.world.mk_term(S.MINUS, [self.a, self.b], []))]
            return [("sort", t == S.RealT), ("denotes-difference", S.vr(v) == S.vr(va) - S.vr(vb)),
                    ("C09:rebuilds-the-minus-node", r == self.world.mk_term(S.MINUS, [self.a, self.b], []))]
        if h == "_equals_or_iff":
            goals = [("sort", t == S.BoolT), ("denotes-equality", S.vb(v) == (va == vb))]
            Kop = S.IFF if sh == "bool" else S.EQUALS
            goals.append(("C09:rebuilds-the-node", r == self.world.mk_term(Kop, [self.a, self.b], [])))
            return goals
        if h == "_division":
            # '/' is the division of Reals; integer operands are converted
            ra = S.vr(va) if sh == "binary-real" else z3.ToReal(S.vi(va))
            rb = S.vr(vb) if sh == "binary-real" else z3.ToReal(S.vi(vb))
            return [("sort", t == S.RealT), ("denotes-real-division", z3.Implies(rb != 0, S.vr(v) == ra / rb))]
        if h == "_int_division":
            from pyvc import spec
            return [("sort", t == S.IntT),
                    ("denotes-integer-division", z3.Implies(S.vi(vb) != 0, z3.And(S.vi(va) == S.vi(vb) * S.vi(v) + (S.vi(va) - S.vi(vb) * S.vi(v)),
                                                                               S.vi(va) - S.vi(vb) * S.vi(v) >= 0,
                                                                               S.vi(va) - S.vi(vb) * S.vi(v) < z3.If(S.vi(vb) < 0, -S.vi(vb), S.vi(vb))))),
                    ("C09:rebuilds-the-div-node", r == self.world.mk_term(S.DIV, [self.a, self.b], []))]
        return []


_base_variants8 = variants


def variants(world, tier="quick", only=None):
    out = _base_variants8(world, tier, only)
    extra = []
    for sh in ("neg-int-literal", "neg-real-literal", "neg-int-term", "neg-real-term", "binary-int", "binary-real", "ternary-int", "ternary-real"):
        extra.append(HelperVariant(world, "_minus_or_uminus", sh))
    for sh in ("bool", "same-sort"):
        extra.append(HelperVariant(world, "_equals_or_iff", sh))
    for sh in ("binary-int", "binary-real"):
        extra.append(HelperVariant(world, "_division", sh))
    extra.append(HelperVariant(world, "_int_division", "binary-int"))
    if only:
        extra = [v for v in extra if any(o in v.name for o in only)]
    return out + extra


# ---------------------------------------------------------------------------
# the operator table: every standard function name is bound to the constructor that denotes it
# (a static obligation decided exactly on the AST of SmtLibParser.__init__; what the constructors
#  denote is C06)
# ---------------------------------------------------------------------------
import ast as _ast

STANDARD_TABLE = {
    # Core
    "not": "Not", "and": "And", "or": "Or", "xor": "Xor", "=>": "Implies", "ite": "Ite", "distinct": "AllDifferent",
    "=": "_equals_or_iff",
    # Ints / Reals / Reals_Ints
    "+": "Plus", "*": "Times", "-": "_minus_or_uminus", "/": "_division", "div": "_int_division",
    "<": "LT", "<=": "LE", ">": "GT", ">=": "GE", "to_real": "ToReal",
    # FixedSizeBitVectors + the QF_BV logic's abbreviations
    "concat": "BVConcat", "bvnot": "BVNot", "bvneg": "BVNeg", "bvand": "BVAnd", "bvor": "BVOr", "bvxor": "BVXor",
    "bvnand": "BVNand", "bvnor": "BVNor", "bvxnor": "BVXnor", "bvcomp": "BVComp",
    "bvadd": "BVAdd", "bvsub": "BVSub", "bvmul": "BVMul", "bvudiv": "BVUDiv", "bvurem": "BVURem", "bvsdiv": "BVSDiv",
    "bvsrem": "BVSRem", "bvsmod": "BVSMod", "bvshl": "BVLShl", "bvlshr": "BVLShr", "bvashr": "BVAShr",
    "bvult": "BVULT", "bvule": "BVULE", "bvugt": "BVUGT", "bvuge": "BVUGE", "bvslt": "BVSLT", "bvsle": "BVSLE",
    "bvsgt": "BVSGT", "bvsge": "BVSGE", "bv2nat": "BVToNatural",
    # ArraysEx
    "select": "Select", "store": "Store",
    # Strings (2.5 names as used by pySMT)
    "str.len": "StrLength", "str.++": "StrConcat", "str.at": "StrCharAt", "str.contains": "StrContains",
    "str.indexof": "StrIndexOf", "str.replace": "StrReplace", "str.substr": "StrSubstr", "str.prefixof": "StrPrefixOf",
    "str.suffixof": "StrSuffixOf", "str.to.int": "StrToInt", "int.to.str": "IntToStr",
    # binders and syntax
    "let": "_enter_let", "!": "_enter_annotation", "forall": "_enter_quantifier", "exists": "_enter_quantifier",
    "_": "_smtlib_underscore", "as": "_enter_smtlib_as",
}
EXTENSIONS = {"pow": "Pow", "<->": "Iff"}        # not SMT-LIB; must at least be what their name says


def read_operator_table(repo):
    """-> {smt name: constructor / handler name} from the AST of SmtLibParser.__init__"""
    fi = repo.method(PARSER, "__init__")
    partials, table = {}, {}
    for n in _ast.walk(fi.node):
        target = None
        if isinstance(n, _ast.Assign) and len(n.targets) == 1:
            target = n.targets[0]
        elif isinstance(n, _ast.AnnAssign) and n.value is not None:
            target = n.target
        if isinstance(target, _ast.Attribute) and isinstance(target.value, _ast.Name) and target.value.id == "self":
            tgt = target.attr
            v = n.value
            # self.X = functools.partial(fix_real, mgr.Y)
            if isinstance(v, _ast.Call) and _ast.unparse(v.func).endswith("partial") and len(v.args) == 2 \
                    and isinstance(v.args[1], _ast.Attribute):
                partials[tgt] = v.args[1].attr
            if tgt == "interpreted" and isinstance(v, _ast.Dict):
                for k, val in zip(v.keys, v.values):
                    if not isinstance(k, _ast.Constant):
                        continue
                    if isinstance(val, _ast.Call) and _ast.unparse(val.func) == "self._operator_adapter" and len(val.args) == 1 \
                            and isinstance(val.args[0], _ast.Attribute):
                        a = val.args[0]
                        owner = _ast.unparse(a.value)
                        name = a.attr
                        if owner == "self" and name in partials:
                            name = partials[name]
                        table[k.value] = name
                    elif isinstance(val, _ast.Attribute):
                        table[k.value] = val.attr
                    else:
                        table[k.value] = _ast.unparse(val)
    return table


class OperatorTableVariant(Variant):
    prop_ids = ("C08",)
    qualname = PARSER + ".__init__"
    name = "static:operator-table"

    def __init__(self, world):
        self.world = world

    def setup(self, ex):
        self.table = read_operator_table(self.world.repo)
        return Builtin("static-scan", lambda exx, a, kw: None), [], {}

    def check(self, ex, outcome):
        goals = [("table-found", z3.BoolVal(len(self.table) > 40))]
        for name, want in sorted(list(STANDARD_TABLE.items()) + list(EXTENSIONS.items())):
            goals.append(("operator-table:%s-is-%s" % (name, want), z3.BoolVal(self.table.get(name) == want)))
        unknown = [name for name in sorted(self.table) if name not in STANDARD_TABLE and name not in EXTENSIONS]
        if unknown:
            # a name the specification table does not list cannot be judged here: undecided (out of reach), never a violation
            ex.notes.append("operator-table entries outside the specification table: %s" % ", ".join(unknown))
            self.unknown = unknown
        return goals

    def witness(self, model, ex):
        return {"table": {k: v for k, v in self.table.items() if STANDARD_TABLE.get(k, EXTENSIONS.get(k)) != v}}


_base_variants8b = variants


def variants(world, tier="quick", only=None):
    out = _base_variants8b(world, tier, only)
    extra = [OperatorTableVariant(world)]
    if only:
        extra = [v for v in extra if any(o in v.name for o in only)]
    return out + extra


class UnderscoreVariant(Variant):
    """(_ op i j) heads: the function built for the indexed operator applies the standard's operator with the
    indices in the standard's order ((_ extract HIGH LOW); (_ bvN W) is the literal of value N and width W)"""
    prop_ids = ("C08", "C09")
    qualname = PARSER + "._smtlib_underscore"

    def __init__(self, world, op, idx):
        self.world, self.op, self.idx = world, op, idx
        self.name = "indexed:(_ %s %s)" % (op, " ".join(map(str, idx)))

    def setup(self, ex):
        W = self.world
        env = core.make_env(ex, W)
        for c in (Consume(), ConsumeMaybe()):
            c.world = W
            W.contracts[c.qualname] = c
        ex.ghost["tokens"] = [self.op] + [str(i) for i in self.idx]
        self.parser = Obj(PARSER, {"env": env, "cache": None, "logic": None}, tag="parser")
        self.stack = [[]]
        fi = W.repo.func(self.qualname)
        return W.wrap_func(fi, fi.module, bound=self.parser), [self.stack, Obj(TOK, {"pos_info": None}), "_"], {}

    def check(self, ex, outcome):
        kind, r = outcome
        W = self.world
        if kind == "raise":
            return [("no-exception", z3.BoolVal(False))]
        top = self.stack[-1]
        if len(top) != 1:
            return [("one-handler-scheduled", z3.BoolVal(False))]
        fun = W.call(ex, top[0], [], {}, None)
        if self.op.startswith("bv"):
            v, w = int(self.op[2:]), self.idx[0]
            want = W.mk_term(S.BV_CONSTANT, [], [z3.IntVal(v), z3.IntVal(w)])
            return [("denotes-the-literal", (fun == want) if is_node(fun) else z3.BoolVal(False))]
        x = z3.Const("operand", Node)
        W.touch(ex, x)
        wx = 8
        ex.assume(S.type_of(x) == S.BVT(wx))
        res = W.call(ex, fun, [x], {}, None)
        if not is_node(res):
            return [("returns-node", z3.BoolVal(False))]
        if self.op == "extract":
            hi, lo = self.idx
            want = W.mk_term(S.BV_EXTRACT, [x], [z3.IntVal(hi - lo + 1), z3.IntVal(lo), z3.IntVal(hi)])
        elif self.op in ("zero_extend", "sign_extend"):
            K = S.BV_ZEXT if self.op == "zero_extend" else S.BV_SEXT
            want = W.mk_term(K, [x], [z3.IntVal(wx + self.idx[0]), z3.IntVal(self.idx[0])])
        elif self.op in ("rotate_left", "rotate_right"):
            K = S.BV_ROL if self.op == "rotate_left" else S.BV_ROR
            want = W.mk_term(K, [x], [z3.IntVal(wx), z3.IntVal(self.idx[0])])
        else:
            return []
        return [("applies-the-indexed-operator", res == want)]


_base_variants8c = variants


def variants(world, tier="quick", only=None):
    out = _base_variants8c(world, tier, only)
    extra = [UnderscoreVariant(world, "extract", (6, 2)), UnderscoreVariant(world, "extract", (3, 3)),
             UnderscoreVariant(world, "zero_extend", (3,)), UnderscoreVariant(world, "sign_extend", (5,)),
             UnderscoreVariant(world, "rotate_left", (3,)), UnderscoreVariant(world, "rotate_right", (1,)),
             UnderscoreVariant(world, "bv5", (4,)), UnderscoreVariant(world, "bv0", (1,))]
    if only:
        extra = [v for v in extra if any(o in v.name for o in only)]
    return out + extra


# ---------------------------------------------------------------------------
# _reset: a parser that has been used reads the next script as a new parser would
# ---------------------------------------------------------------------------
MUTATORS = ("add", "update", "append", "extend", "clear", "pop", "remove", "discard", "bind", "unbind", "define", "insert", "setdefault")


def parse_time_state(repo):
    """attributes of the parser object that some method other than __init__/_reset writes or mutates
    (read from the class body on every run): the state a script can leave behind"""
    out = {}
    methods = {}
    for c in reversed(repo.mro(PARSER)):
        mi, ci = repo.find_class(c)
        if ci:
            methods.update(ci["methods"])
    for name, fi in sorted(methods.items()):
        if name in ("__init__", "_reset"):
            continue
        for n in _ast.walk(fi.node):
            tgts = []
            if isinstance(n, _ast.Assign):
                tgts = n.targets
            elif isinstance(n, (_ast.AugAssign, _ast.AnnAssign)) and getattr(n, "value", None) is not None:
                tgts = [n.target]
            for t in tgts:
                for tt in (t.elts if isinstance(t, (_ast.Tuple, _ast.List)) else [t]):
                    if isinstance(tt, _ast.Subscript):
                        tt = tt.value
                    if isinstance(tt, _ast.Attribute) and isinstance(tt.value, _ast.Name) and tt.value.id == "self":
                        out.setdefault(tt.attr, set()).add(name)
            if isinstance(n, _ast.Call) and isinstance(n.func, _ast.Attribute) and n.func.attr in MUTATORS:
                o = n.func.value
                if isinstance(o, _ast.Attribute) and isinstance(o.value, _ast.Name) and o.value.id == "self":
                    out.setdefault(o.attr, set()).add(name)
    return out


class ResetVariant(Variant):
    """_reset() on a parser in an arbitrary used state: every attribute that parsing can write is afterwards what a newly
    constructed parser holds (the construction is observed natively on the same tree: probe 'fresh')."""
    prop_ids = ("C08", "C09", "C14", "C15")
    qualname = PARSER + "._reset"
    replay_kind = "parser-reset"
    name = "reset:used-parser-reads-as-a-new-one"

    def __init__(self, world):
        self.world = world

    def setup(self, ex):
        from pyvc.symex import SetVal
        W = self.world
        env = core.make_env(ex, W)
        self.env = env
        self.state = parse_time_state(W.repo)
        # per-stream attributes are set by every _parse_handle / get_command_generator call, not by _reset
        self.fresh = W.repo.probe.get("fresh", {}).get(PARSER)
        n1, nd = z3.Const("left_over_name", Str), z3.Const("left_over_definition", Str)
        self.dirty = {}
        fields = {"env": env, "interactive": False}
        for attr in self.state:
            if attr == "cache":
                d = mk_cache(env, [(n1, [z3.Const("left_over_binding", Node)])], [(nd, ([], z3.Const("left_over_body", Node)))])
            elif attr == "_invented_vars":
                d = SetVal([z3.Const("left_over_variable", Node)])
            else:
                d = Obj("builtins.object", {}, tag="left-over:" + attr)
            self.dirty[attr] = d
            fields[attr] = d
        self.p = Obj(PARSER, fields, tag="parser")
        fi = W.repo.method(PARSER, "_reset")
        return W.wrap_func(fi, fi.module, bound=self.p), [], {}

    def check(self, ex, outcome):
        from pyvc.symex import SetVal
        kind, r = outcome
        if kind == "raise":
            return [("no-exception", z3.BoolVal(False))]
        W = self.world
        goals = [("state-found", z3.BoolVal(len(self.state) >= 1 and self.fresh is not None))]
        if self.fresh is None:
            return goals
        mgr = self.env.fields["_formula_manager"]
        for attr in sorted(self.state):
            want = self.fresh.get(attr)
            if want is None:
                # never set by the constructor: created and dropped within one parsing call (stream position etc.)
                continue
            got = self.p.fields.get(attr)
            label = "reset:%s-as-in-a-new-parser" % attr
            if got is self.dirty[attr]:
                goals.append((label, z3.BoolVal(False)))
            elif want["kind"] == "const":
                c = BI._eq(W, ex, got, want["value"]) if want["value"] is not None else (got is None)
                goals.append((label, c if is_z3(c) else z3.BoolVal(bool(c))))
            elif want["kind"] in ("set", "frozenset"):
                goals.append((label, z3.BoolVal(isinstance(got, SetVal) and len(got.items) == want["len"] == 0 and not got.zextra)))
            elif want["kind"] == "cache":
                ok = isinstance(got, Obj) and got.cls == CACHE and isinstance(got.fields.get("keys"), DictVal) \
                    and isinstance(got.fields.get("definitions"), DictVal)
                if ok:
                    keys = got.fields["keys"].items
                    ok = len(got.fields["definitions"].items) == want["definitions"] and len(keys) == len(want["keys"])
                    for k, st in keys:
                        ks = k if isinstance(k, str) else (k.as_string() if is_z3(k) and z3.is_string_value(k) else None)
                        ok = ok and ks in want["keys"] and isinstance(st, list) and len(st) == len(want["keys"][ks])
                goals.append((label, z3.BoolVal(bool(ok))))
            else:
                goals.append((label + "(unmodelled-kind)", z3.BoolVal(False)))
        return goals

    def witness(self, model, ex):
        return {"state": {k: sorted(v) for k, v in self.state.items()}}


_base_variants8d = variants


def variants(world, tier="quick", only=None):
    out = _base_variants8d(world, tier, only)
    extra = [ResetVariant(world)]
    if only:
        extra = [v for v in extra if any(o in v.name for o in only)]
    return out + extra


# ---------------------------------------------------------------------------
# (! term :kw value ... ): each attribute gets exactly its own value (or none)
# ---------------------------------------------------------------------------
class AnnotationVariant(Variant):
    """_enter_annotation on the token stream  <term> a1 ... an ')'  where attribute ai is `:ki` alone, `:ki v` or
    `:ki ( ... )`: the annotations recorded for the term are exactly (ki, value of ai or None) in order, the closing
    parenthesis is handed back to the term reader and the term is what the annotation denotes."""
    prop_ids = ("C08",)
    bounded = "arity"
    replay_kind = "annotations"

    def __init__(self, world, shape):
        self.world, self.shape = world, tuple(shape)          # per attribute: 0 no value, 1 simple value, 2 parenthesised value
        self.qualname = PARSER + "._enter_annotation"
        self.name = "annotation:[%s]" % ",".join({0: "bare", 1: "valued", 2: "list-valued"}[s] for s in shape)

    def setup(self, ex):
        W = self.world
        env = core.make_env(ex, W)
        for c in (Consume(), GetExpression()):
            c.world = W
            W.contracts[c.qualname] = c
        toks, self.want = [Term(0)], []
        for i, s in enumerate(self.shape):
            kw = ":attr%d" % i
            toks.append(kw)
            if s == 0:
                self.want.append((kw[1:], None))
            elif s == 1:
                toks.append("value%d" % i)
                self.want.append((kw[1:], "value%d" % i))
            else:
                toks += ["(", "x%d" % i, "(", "y", ")", ")"]
                self.want.append((kw[1:], "(x%d(y))" % i))
        toks.append(")")
        ex.ghost["tokens"] = toks
        ex.ghost["watch"] = []
        self.added, self.extra = [], []
        v = self
        ann = Obj("pysmt.smtlib.annotations.Annotations", {}, tag="annotations")
        ann.fields["add"] = Builtin("annotations.add", lambda exx, a, kw: v.added.append(tuple(a[1:4])), bound=ann)
        cache = mk_cache(env)
        cache.fields["annotations"] = ann
        self.p = parser_obj(ex, W, env, cache)

        def raw_read(exx, a, kw):
            ts = exx.ghost["tokens"]
            return ts.pop(0)
        tk = Obj(TOK, {"pos_info": None}, tag="tokens")
        tk.fields["raw_read"] = Builtin("raw_read", raw_read, bound=tk)
        tk.fields["add_extra_token"] = Builtin("add_extra_token", lambda exx, a, kw: v.extra.append(a[1]), bound=tk)
        self.stack = [[]]
        fi = W.repo.method(PARSER, "_enter_annotation")
        return W.wrap_func(fi, fi.module, bound=self.p), [self.stack, tk, "!"], {}

    def check(self, ex, outcome):
        kind, r = outcome
        if kind == "raise":
            return [("no-exception", z3.BoolVal(False))]
        W = self.world
        term = z3.Const("term0", Node)
        goals = [("every-token-consumed", z3.BoolVal(len(ex.ghost["tokens"]) == 0)),
                 ("one-record-per-attribute", z3.BoolVal(len(self.added) == len(self.want)))]
        for i, (got, want) in enumerate(zip(self.added, self.want)):
            t, k, val = got
            ok_t = (t == term) if is_node(t) else z3.BoolVal(False)
            kk = BI._eq(W, ex, k, want[0])
            vv = (val is None) if want[1] is None else BI._eq(W, ex, val, want[1])
            goals.append(("attribute-%d-on-the-term" % i, ok_t))
            goals.append(("attribute-%d-keyword" % i, kk if is_z3(kk) else z3.BoolVal(bool(kk))))
            goals.append(("attribute-%d-has-exactly-its-own-value" % i, vv if is_z3(vv) else z3.BoolVal(bool(vv))))
        goals.append(("closing-parenthesis-handed-back", z3.BoolVal(self.extra == [")"])))
        top = self.stack[-1]
        ok = len(top) == 1
        if ok:
            try:
                res = ex.call(top[0], [], {})
                goals.append(("denotes-the-annotated-term", (res == term) if is_node(res) else z3.BoolVal(False)))
            except Exception:
                goals.append(("denotes-the-annotated-term", z3.BoolVal(False)))
        else:
            goals.append(("denotes-the-annotated-term", z3.BoolVal(False)))
        return goals


_base_variants8e = variants


def variants(world, tier="quick", only=None):
    import itertools
    out = _base_variants8e(world, tier, None)
    for n in (1, 2, 3):
        for shape in itertools.product((0, 1, 2), repeat=n):
            if n == 3 and tier == "quick" and 2 in shape and shape.count(2) > 1:
                continue
            out.append(AnnotationVariant(world, shape))
    if only:
        out = [v for v in out if any(o in v.name for o in only)]
    return out


# ---------------------------------------------------------------------------
# declarations: (declare-const n S) / (declare-fun n () S) - well-formed, with a stray token before the closing
# parenthesis, and cut short
# ---------------------------------------------------------------------------
class RecordingSymbolCtor(SymbolCtor8):
    def apply(self, ex, a, kw):
        ex.ghost.setdefault("symbol_calls", []).append(a[1] if len(a) > 1 else kw.get("name"))
        return SymbolCtor8.apply(self, ex, a, kw)


class DeclareVariant(Variant):
    """_cmd_declare_const / _cmd_declare_fun on the ghost token stream.  Well-formed: the name resolves to the symbol of that
    name and of the declared sort afterwards, every other name as before.  Malformed (a stray token where the command must
    close, or the stream ends): a syntax error, and neither the environment was asked for the symbol nor the name bound -
    the next script (or the rest of this one, in interactive use) reads as if the command had never been there (C15)."""
    prop_ids = ("C08", "C15")
    replay_kind = "parser-declare"

    def __init__(self, world, kind, tail):
        self.world, self.kind, self.tail = world, kind, tail
        self.qualname = PARSER + "." + {"declare-const": "_cmd_declare_const", "declare-fun": "_cmd_declare_fun"}[kind]
        self.name = "declare:%s[%s]" % (kind, tail)

    def setup(self, ex):
        W = self.world
        env = core.make_env(ex, W)
        for c in (RecordingSymbolCtor(), Consume(), ConsumeMaybe(), GetExpression(), ParseType(), FreshSymbol()):
            c.world = W
            W.contracts[c.qualname] = c
        self.dname = z3.Const("declared_name", Str)
        self.probe = z3.Const("other_name", Str)
        self.stray = z3.Const("stray_token", Str)
        ex.assume(z3.Distinct(self.dname, self.probe))
        for nm in (self.dname, self.probe):
            ex.assume(z3.And(nm != z3.StringVal("("), nm != z3.StringVal(")")))
        ex.assume(self.stray != z3.StringVal(")"))
        self.probev = z3.Const("outer_other", Node)
        ex.ghost["existing_nodes"] = [self.probev]
        self.cache = mk_cache(env, [(self.probe, [self.probev])], [])
        self.parser = parser_obj(ex, W, env, self.cache)
        g = ex.ghost
        g["watch"] = [self.dname, self.probe]
        self.sort = z3.Const("sort0", Ty)
        from pyvc import spec
        ex.assume(spec.valid_type(self.sort))
        ex.assume(z3.Not(Ty.is_FunT(self.sort)))
        g["sorts"] = [self.sort]
        toks = [self.dname] + (["(", ")"] if self.kind == "declare-fun" else []) + [Sort(0)]
        toks += {"closed": [")"], "stray": [self.stray, ")"], "cut": []}[self.tail]
        g["tokens"] = toks
        self.tokens = Obj(TOK, {"pos_info": None}, tag="tokens")
        fi = W.repo.func(self.qualname)
        return W.wrap_func(fi, fi.module, bound=self.parser), [self.kind, self.tokens], {}

    def resolve(self, ex, nm):
        W = self.world
        fi = W.repo.method(CACHE, "get")
        return W.call(ex, W.wrap_func(fi, fi.module, bound=self.cache), [nm], {}, None)

    def check(self, ex, outcome):
        kind, r = outcome
        W = self.world
        calls = ex.ghost.get("symbol_calls", [])
        if kind == "raise":
            now = self.resolve(ex, self.dname)
            other = self.resolve(ex, self.probe)
            goals = [("failure:name-not-bound", z3.BoolVal(now is None)),
                     ("failure:other-names-as-before", (other == self.probev) if is_node(other) else z3.BoolVal(False))]
            if self.tail == "closed":
                # only the environment may refuse (a symbol of that name with another sort exists)
                goals.append(("error-only-when-the-environment-refuses-the-symbol", z3.BoolVal(len(calls) == 1)))
            else:
                goals.append(("failure:environment-not-asked-for-the-symbol", z3.BoolVal(len(calls) == 0)))
            return goals
        if self.tail != "closed":
            return [("malformed-command-rejected", z3.BoolVal(False))]
        v = self.resolve(ex, self.dname)
        ok = is_node(v)
        goals = [("name-bound-to-a-term", z3.BoolVal(ok))]
        if ok:
            W.unfold(ex, v, S.SYMBOL, 0)
            goals.append(("bound-to-the-symbol-of-that-name-and-sort",
                          z3.And(S.op(v) == S.SYMBOL, S.pl_ty(v) == self.sort, S.pl_str(v) == self.dname)))
        other = self.resolve(ex, self.probe)
        goals.append(("other-names-as-before", (other == self.probev) if is_node(other) else z3.BoolVal(False)))
        goals.append(("environment-asked-once", z3.BoolVal(len(calls) == 1)))
        return goals


_base_variants8f = variants


def variants(world, tier="quick", only=None):
    out = _base_variants8f(world, tier, None)
    for kind in ("declare-const", "declare-fun"):
        for tail in ("closed", "stray", "cut"):
            out.append(DeclareVariant(world, kind, tail))
    if only:
        out = [v for v in out if any(o in v.name for o in only)]
    return out
