"""C16 (and the solver part of C15): IncrementalTrackingSolver keeps exactly the
live assertions.  The real method bodies (with the real clear_pending_pop
decorator) run on a symbolic state: assertion list and backtrack points of
unknown length (z3 sequences), an arbitrary pending_pop flag.  The proxy methods
_add_assertion/_push/_pop/_solve/_reset_assertions are abstract in this class:
their assumed contract is 'touches no tracking field, may raise'.

Specification = SMT-LIB's assertion stack, on the same (assertions, level marks)
representation:   assert f : A := A + [f]        push : M := M + [len(A)]
                  pop      : A := A[:M[-1]], M := M[:-1]      reset : A, M := [], []
A pending pop (left behind by a one-shot query) is part of the abstraction:
the state denoted is the one after that pop."""
import z3

from pyvc import sorts as S
from pyvc.sorts import Node, I, B
from pyvc.symex import Obj, SeqList, PyRaise, ExcVal, Builtin, is_node, is_z3
from pyvc.harness import Variant
from pyvc.world import Contract
from . import core

CLS = "pysmt.solvers.solver.IncrementalTrackingSolver"
DEADLINE = {"quick": 200, "thorough": 600}
REPLAY_KIND = "tracking"
NodeSeq = z3.SeqSort(Node)
IntSeq = z3.SeqSort(I)


def as_seq(v, sort):
    if isinstance(v, SeqList):
        return v.expr
    if isinstance(v, list):
        if not v:
            return z3.Empty(sort)
        us = [z3.Unit(x if is_z3(x) else z3.IntVal(x)) for x in v]
        return us[0] if len(us) == 1 else z3.Concat(us)
    return None


def spec_pop(A, ms):
    """A: z3 Seq of assertions, ms: python list of marks (top = last)"""
    return z3.Extract(A, 0, ms[-1]), ms[:-1]


class Proxy(Contract):
    assumed = "abstract proxy of IncrementalTrackingSolver: touches no tracking field, may raise"

    def __init__(self, name):
        self.qualname = CLS + "." + name
        self.name = name

    def apply(self, ex, a, kw):
        g = ex.ghost
        n = g.get("proxy_calls", 0)
        g["proxy_calls"] = n + 1
        if ex.decide(ex.fresh("proxy_%s_raises" % self.name, B)):
            g["proxy_raised"] = True
            raise PyRaise(ExcVal("SolverError", (self.name,)))
        lv = kw.get("levels", a[1] if len(a) > 1 and self.name in ("_push", "_pop") else 1)
        if self.name == "_push":
            g["solver_levels"] = g["solver_levels"] + lv
        elif self.name == "_pop":
            ex.oblige("legal-stream:pop-has-levels", g["solver_levels"] >= lv)
            g["solver_levels"] = g["solver_levels"] - lv
        elif self.name == "_reset_assertions":
            g["solver_levels"] = z3.IntVal(0)
        elif self.name == "_add_assertion":
            t = ex.fresh("tracked", Node)
            g["tracked"] = t
            return t
        elif self.name == "_solve":
            return ex.fresh("sat", B)
        return None


class Contains(Contract):
    qualname = "pysmt.formula.FormulaManager.__contains__"
    assumed = "the formula belongs to the solver's formula manager"

    def apply(self, ex, a, kw):
        return True


class TrackingVariant(Variant):
    """k = number of explicit level marks on top of an untouched, arbitrary prefix of older
    marks (k < 3: no older marks).  No operation with levels <= 2 reaches below 3 marks."""
    prop_ids = ("C16", "C15")
    bounded = None

    def __init__(self, world, op, levels=None, k=3):
        self.world, self.op, self.levels, self.k = world, op, levels, k
        self.qualname = CLS.replace("IncrementalTrackingSolver", "Solver") + "." + op \
            if op in ("is_sat", "is_valid", "is_unsat") else CLS + "." + op
        self.name = "tracking:%s%s/marks%s" % (op, "" if levels is None else "(%d)" % levels, "%d" % k if k < 3 else ">=3")

    def setup(self, ex):
        from pyvc.symex import PrefList
        W = self.world
        env = core.make_env(ex, W)
        for n in ("_add_assertion", "_push", "_pop", "_solve", "_reset_assertions"):
            c = Proxy(n)
            c.world = W
            W.contracts[c.qualname] = c
        cc = Contains()
        cc.world = W
        W.contracts[cc.qualname] = cc
        self.A0 = z3.Const("A0", NodeSeq)
        self.ms0 = [z3.Const("m%d" % i, I) for i in range(self.k)]
        self.plen = z3.Const("older_marks", I) if self.k >= 3 else 0
        self.pb = z3.Const("older_marks_bound", I) if self.k >= 3 else z3.IntVal(0)
        if self.k >= 3:
            ex.assume(self.plen >= 0)
        # representation invariant: marks are positions in the assertion list, in order
        ex.assume(self.pb >= 0)
        prev = self.pb
        for m in self.ms0:
            ex.assume(m >= prev)
            prev = m
        ex.assume(prev <= z3.Length(self.A0))
        self.p0 = z3.Const("pending0", B)
        if self.k == 0:
            ex.assume(z3.Not(self.p0))          # a pending pop exists only after the push of a one-shot query
        s = Obj(CLS, {"environment": env, "pending_pop": self.p0, "logic": None,
                      "options": Obj("pysmt.solvers.options.SolverOptions", {"incremental": True}),
                      "_destroyed": False, "_last_result": None, "_last_command": None,
                      "_assertion_stack": SeqList(self.A0), "_backtrack_points": PrefList(self.plen, self.ms0)}, tag="solver")
        self.s = s
        ex.ghost["solver_levels"] = self.plen + len(self.ms0)      # the real solver mirrors the level marks
        self.f = z3.Const("f", Node)
        W.touch(ex, self.f)
        ex.assume(S.type_of(self.f) == S.BoolT)
        op, lv = self.op, self.levels
        if op == "pop" and self.k < 3:
            # legal in SMT-LIB: at least as many live levels as are popped
            ex.assume(z3.Or(z3.And(z3.Not(self.p0), z3.BoolVal(self.k >= lv)), z3.And(self.p0, z3.BoolVal(self.k - 1 >= lv))))
        if op == "assertions":
            def get(exx, a, kw):
                return W.getattr(exx, s, "assertions")
            return Builtin("read-assertions", get), [], {}
        fi = W.repo.method(CLS, op)
        fn = W.wrap_func(fi, fi.module, bound=s, owner=fi.qualname.rsplit(".", 1)[0])
        if op in ("add_assertion", "is_sat", "is_valid", "is_unsat"):
            return fn, [self.f], {}
        if op in ("push", "pop"):
            return fn, [lv], {}
        return fn, [], {}

    def abstract(self, A, ms, pending):
        """-> list of (condition, A, ms): the state denoted, by case on the pending flag"""
        cases = [(z3.Not(pending), A, list(ms))]
        if ms:
            pa, pm = spec_pop(A, list(ms))
            cases.append((pending, pa, pm))
        return cases

    def check(self, ex, outcome):
        from pyvc.symex import PrefList
        kind, r = outcome
        s = self.s
        A, M, p = s.fields["_assertion_stack"], s.fields["_backtrack_points"], s.fields["pending_pop"]
        p = p if is_z3(p) else z3.BoolVal(bool(p))
        if isinstance(M, list) and not M:
            M = PrefList(0, [])
        A = as_seq(A, NodeSeq)
        if A is None or not isinstance(M, PrefList):
            return [("tracking-fields-are-lists", z3.BoolVal(False))]
        goals = []
        # representation invariant of the final fields
        prev = self.pb if (is_z3(M.prefix_len) or M.prefix_len) else z3.IntVal(0)
        inv = []
        for m in M.items:
            inv.append(m >= prev)
            prev = m
        inv.append(prev <= z3.Length(A))
        goals.append(("representation-invariant", z3.And(inv)))
        goals.append(("pending-pop-has-a-level", z3.Implies(p, z3.BoolVal(len(M.items) >= 1))))
        goals.append(("solver-levels-mirror-marks", ex.ghost["solver_levels"] == M.prefix_len + len(M.items)))
        op, lv = self.op, self.levels
        failed = kind == "raise"
        if failed and not ex.ghost.get("proxy_raised"):
            # an operation that is illegal in SMT-LIB (more levels popped than live) may raise
            if op == "pop":
                live = [(c, len(ms)) for c, a_, ms in self.abstract(self.A0, self.ms0, self.p0)]
                legal = z3.Or([c for c, n in live if (n >= lv or self.k >= 3)]) if live else z3.BoolVal(False)
                return [("error-only-for-illegal-pop", z3.Not(legal))]
            return [("no-exception", z3.BoolVal(False))]
        for c0, A0, ms0 in self.abstract(self.A0, self.ms0, self.p0):
            if op == "pop" and len(ms0) < lv:
                continue            # illegal in SMT-LIB (excluded by the pre-condition) / below this variant's depth
            if failed:
                wantA, wantM = A0, ms0          # C15: a failing proxy leaves the tracked state as it was
            elif op == "add_assertion":
                wantA, wantM = z3.Concat(A0, z3.Unit(ex.ghost["tracked"])), ms0
            elif op == "push":
                wantA, wantM = A0, ms0 + [z3.Length(A0)] * lv
            elif op == "pop":
                wantA, wantM = A0, list(ms0)
                for _ in range(lv):
                    wantA, wantM = spec_pop(wantA, wantM)
            elif op == "reset_assertions":
                wantA, wantM = z3.Empty(NodeSeq), None
            else:
                wantA, wantM = A0, ms0
            tag = "failure:" if failed else ""          # (counted for C15 and C16: the tracked state after a failing backend call)
            for c1, A1, ms1 in self.abstract(A, M.items, p):
                cond = z3.And(c0, c1)
                if wantM is None:
                    same_marks = z3.And(z3.BoolVal(len(ms1) == 0), M.prefix_len == 0)
                else:
                    same_marks = z3.And(z3.BoolVal(len(ms1) == len(wantM)), M.prefix_len == self.plen,
                                        *[a == b for a, b in zip(ms1, wantM)]) if len(ms1) == len(wantM) else z3.BoolVal(False)
                goals.append((tag + "assertions-as-specified", z3.Implies(cond, A1 == wantA)))
                goals.append((tag + "levels-as-specified", z3.Implies(cond, same_marks)))
            if op == "assertions" and not failed:
                ok = isinstance(r, SeqList)
                goals.append(("reports-live-assertions", z3.Implies(c0, (r.expr == A0) if ok else z3.BoolVal(False))))
        return goals

    def witness(self, model, ex):
        def ev(e):
            return str(model.eval(e, model_completion=True))
        return {"op": self.op, "levels": self.levels, "assertions": ev(self.A0), "marks": [ev(m) for m in self.ms0],
                "pending_pop": ev(self.p0)}


def extras(prop, tier, seed):
    """bounded stand-ins (exhaustive up to a stated length, never counted as proved): whole
    command sequences on a stub solver, and SmtLibScript.get_last_formula incl. goals"""
    if prop != "C16":
        return []
    from pyvc.report import run_bounded
    return [run_bounded("tracking_sequences", tier, seed), run_bounded("script_sequences", tier, seed)]


def variants(world, tier="quick", only=None):
    out = []
    for k in (0, 1, 2, 3):
        out += [TrackingVariant(world, "add_assertion", k=k), TrackingVariant(world, "reset_assertions", k=k),
                TrackingVariant(world, "solve", k=k), TrackingVariant(world, "assertions", k=k),
                TrackingVariant(world, "is_sat", k=k), TrackingVariant(world, "is_valid", k=k),
                TrackingVariant(world, "is_unsat", k=k)]
        for lv in (0, 1, 2):
            out.append(TrackingVariant(world, "push", lv, k=k))
            if lv <= k:
                # (pop(n) requires n levels: with fewer explicit marks the pre-condition is unsatisfiable and the variant
                #  would be vacuous - the per-variant vacuity guard reports such variants)
                out.append(TrackingVariant(world, "pop", lv, k=k))
    if only:
        out = [v for v in out if any(o in v.name for o in only)]
    return out
