"""C14 / C15 / C20: the memoising DAG walker that every query and transformation of an
environment is built on (pysmt/walkers/dag.py), on the real bodies.

State of a walker: `memoization` (key -> result) and `stack` (work list of (expanded?, node)).

  _get_key(f)                     the node itself (no extra arguments): two nodes never share a key
  _push_with_children_to_stack(f) pushes (True, f), then (False, c) for exactly the children c whose
                                  key is NOT memoised, in order; the memo table is untouched
  _compute_node_result(f)         if key(f) is memoised: nothing happens (the callback is not run
                                  again - C20: once per node while the table lives); otherwise the
                                  callback of f's operator runs exactly once, on the memoised results
                                  of the children, and exactly the entry key(f) -> result is added
  iter_walk / walk                returns memo[key(f)]; a one-time table is empty afterwards (C14:
                                  nothing of this query is visible to the next one); when the
                                  processing fails the stack is empty again and a one-time table is
                                  cleared (C15)
  _process_stack                  assumed summary over the three proved step functions (loop of
                                  pops; see DESIGN 10.4): ends with an empty stack, only adds entries
Monotonicity (entries are never changed or removed while a walk runs) + the second contract give
'each callback at most once per key and table lifetime'.  Termination and the global traversal
order are covered by the bounded work-count check (native/bounded_work.py)."""
import ast

import z3

from pyvc import sorts as S
from pyvc.sorts import Node, Ty, I, B
from pyvc.symex import Obj, DictVal, Builtin, is_node, is_z3, PyRaise, ExcVal, Unsupported, PathAbort
from pyvc import builtins_impl as BI
from pyvc.harness import Variant
from pyvc.world import Contract
from . import core

DEADLINE = {"quick": 200, "thorough": 600}
REPLAY_KIND = "walker"
DAG = "pysmt.walkers.dag.DagWalker"
Res = z3.DeclareSort("Result")


class ProcessStack(Contract):
    """assumed summary of the work loop (its three step functions are proved separately)"""
    qualname = DAG + "._process_stack"

    def apply(self, ex, a, kw):
        w = a[0]
        g = ex.ghost
        if ex.decide(ex.fresh("a_callback_fails", B)):
            # arbitrary unfinished state: entries may be left on the work list, or none (the failing node was the last one: the root)
            w.fields["stack"] = [(True, z3.Const("leftover_node", Node))] if ex.decide(ex.fresh("work_left", B)) else []
            w.fields["memoization"].items.append([z3.Const("partial_key", Node), z3.Const("partial_result", Res)])
            g["failed"] = True
            raise PyRaise(ExcVal("PysmtTypeError", ("callback failed",)))
        top = w.fields["stack"][-1][1]
        w.fields["stack"] = []
        memo = w.fields["memoization"]
        if not any((k.eq(top) if is_z3(k) else False) for k, _ in memo.items):
            memo.items.append([top, z3.Const("computed_result", Res)])
        return None


class WalkerVariant(Variant):
    prop_ids = ("C14", "C15", "C20")

    def __init__(self, world, method, nkids=2, memo_pattern=0, one_shot=False, none_results=False):
        self.world, self.method, self.nkids, self.pat, self.one_shot = world, method, nkids, memo_pattern, one_shot
        self.none_results = none_results          # the memoised results of the children are None (e.g. AtomsOracle on terms)
        if one_shot and method in ("walk", "iter_walk"):
            # the substituter is a one-time-table walker shared by the environment: that the table is empty when a substitution
            # starts - whatever the previous one did, fail included - is a pre-condition of the substitution proof (C05)
            self.prop_ids = ("C14", "C15", "C20", "C05")
        self.qualname = DAG + "." + method
        self.name = "walker:%s[%d children/memo %s%s%s]" % (method, nkids, format(memo_pattern, "0%db" % (nkids + 1)),
                                                           "/one-time" if one_shot else "", "/results-None" if none_results else "")

    def setup(self, ex):
        W = self.world
        env = core.make_env(ex, W)
        f = z3.Const("formula", Node)
        self.f = f
        k = self.nkids
        # an operator with k children (AND is n-ary)
        ex.assume(S.op(f) == S.AND)
        W.learn(ex, f, op=S.AND, k=max(k, 2) if k else 2)
        self.kids = [S.arg(f, S.K(i)) for i in range(max(k, 2) if k else 2)]
        k = len(self.kids)
        self.k = k
        # memo: bit i set <=> child i memoised; bit k <=> the node itself; plus one unrelated entry
        self.other = z3.Const("other_node", Node)
        ex.assume(z3.And([self.other != c for c in self.kids] + [self.other != f]))
        ex.assume(z3.And([c != f for c in self.kids]))          # formulas are well-founded: a node is not its own child
        entries = [[self.other, z3.Const("other_result", Res)]]
        self.res = {}
        for i, c in enumerate(self.kids):
            if self.pat >> i & 1:
                r = None if self.none_results else z3.Const("child%d_result" % i, Res)
                self.res[i] = r
                # a shared child appears once in the table
                if not any(c.eq(kx) for kx, _ in entries):
                    entries.append([c, r])
        if self.pat >> k & 1:
            self.res["f"] = z3.Const("node_result", Res)
            entries.append([f, self.res["f"]])
        for i in range(k):
            for j in range(i + 1, k):
                ex.assume(self.kids[i] != self.kids[j])      # (the shared-child case is the variant with k = 2, same object: below)
        self.memo0 = [list(e) for e in entries]
        self.stack0 = [(False, z3.Const("pending_node", Node))]
        self.called = []

        def callback(exx, a, kw):
            self.called.append((a[0] if a else None, kw.get("args")))
            if exx.decide(exx.fresh("callback_raises", B)):
                raise PyRaise(ExcVal("PysmtTypeError", ("ill-typed",)))
            return z3.Const("fresh_result", Res)
        self.w = Obj(DAG, {"memoization": DictVal(entries), "stack": list(self.stack0), "invalidate_memoization": self.one_shot,
                           "functions": {S.AND: Builtin("walk_and", callback)}, "env": env}, tag="walker")
        if self.method in ("iter_walk", "walk"):
            c = ProcessStack()
            c.world = W
            W.contracts[c.qualname] = c
            self.w.fields["stack"] = []
            self.stack0 = []
        fi = W.repo.method(DAG, self.method)
        fn = W.wrap_func(fi, fi.module, bound=self.w)
        return fn, [f], {}

    def memo_items(self):
        return self.w.fields["memoization"].items

    def same_memo(self, items, want):
        if len(items) != len(want):
            return z3.BoolVal(False)
        def eq(x, y):
            if x is None or y is None:
                return z3.BoolVal(x is None and y is None)
            return x == y
        return z3.And([z3.And(a[0] == b[0], eq(a[1], b[1])) for a, b in zip(items, want)]) if want else z3.BoolVal(True)

    def check(self, ex, outcome):
        kind, r = outcome
        m, f, k = self.method, self.f, self.k
        memo, stack = self.memo_items(), self.w.fields["stack"]
        goals = []
        if m == "_get_key":
            if kind == "raise":
                return [("no-exception", z3.BoolVal(False))]
            return [("C14:key-is-the-node-itself", (r == f) if is_node(r) else z3.BoolVal(False))]
        if m == "_push_with_children_to_stack":
            if kind == "raise":
                return [("no-exception", z3.BoolVal(False))]
            want = list(self.stack0) + [(True, f)] + [(False, c) for i, c in enumerate(self.kids) if not (self.pat >> i & 1)]
            ok = len(stack) == len(want) and all(a[0] == b[0] for a, b in zip(stack, want))
            goals.append(("C20:pushes-the-node-and-exactly-its-unmemoised-children", z3.BoolVal(bool(ok)) if not ok else
                          z3.And([a[1] == b[1] for a, b in zip(stack, want)])))
            goals.append(("C14:memo-untouched", self.same_memo(memo, self.memo0)))
            return goals
        if m == "_compute_node_result":
            if self.pat >> k & 1:
                goals.append(("C20:memoised-node-not-recomputed", z3.BoolVal(len(self.called) == 0 and kind == "return")))
                goals.append(("C14:memo-untouched", self.same_memo(memo, self.memo0)))
                goals.append(("stack-untouched", z3.BoolVal(len(stack) == len(self.stack0))))
                return goals
            goals.append(("C20:callback-runs-exactly-once", z3.BoolVal(len(self.called) == 1)))
            if len(self.called) == 1:
                n, args = self.called[0]
                goals.append(("callback-gets-the-node", n == f if is_node(n) else z3.BoolVal(False)))
                want = [self.res[i] for i in range(k)]
                ok = isinstance(args, list) and len(args) == len(want)
                goals.append(("callback-gets-the-memoised-results-of-the-children",
                              z3.And([(a == b) if (a is not None and b is not None) else z3.BoolVal(a is None and b is None)
                                      for a, b in zip(args, want)]) if ok else z3.BoolVal(False)))
            if kind == "raise":
                goals.append(("C15:failure-adds-no-entry", self.same_memo(memo, self.memo0)))
            else:
                ok = len(memo) == len(self.memo0) + 1
                goals.append(("C14:adds-exactly-the-entry-of-this-node",
                              z3.And(self.same_memo(memo[:-1], self.memo0), memo[-1][0] == f, memo[-1][1] == z3.Const("fresh_result", Res))
                              if ok else z3.BoolVal(False)))
            goals.append(("stack-untouched", z3.BoolVal(len(stack) == len(self.stack0))))
            return goals
        if m in ("iter_walk", "walk"):
            failed = ex.ghost.get("failed", False)
            if kind == "raise":
                goals.append(("error-only-when-a-callback-failed", z3.BoolVal(bool(failed))))
                goals.append(("failure:no-unfinished-work-left", z3.BoolVal(len(stack) == 0)))
                if self.one_shot:
                    goals.append(("failure:one-time-table-cleared", z3.BoolVal(len(memo) == 0)))
                else:
                    # persistent table: the entries that were there are unchanged (entries added are results of finished nodes)
                    goals.append(("failure:earlier-entries-unchanged", self.same_memo(memo[:len(self.memo0)], self.memo0)))
                return goals
            goals.append(("work-list-empty", z3.BoolVal(len(stack) == 0)))
            if m == "walk" and self.one_shot and not (self.pat >> k & 1):
                goals.append(("C14:one-time-table-empty-after-the-query", z3.BoolVal(len(memo) == 0)))
            elif not self.one_shot:
                goals.append(("C14:earlier-entries-unchanged", self.same_memo(memo[:len(self.memo0)], self.memo0)))
            if self.pat >> k & 1:
                goals.append(("returns-the-memoised-result", r == self.res["f"] if is_z3(r) else z3.BoolVal(False)))
            else:
                goals.append(("returns-the-computed-result", r == z3.Const("computed_result", Res) if is_z3(r) else z3.BoolVal(False)))
            return goals
        return goals


# ---------------------------------------------------------------------------
# C20: no call-stack recursion over the nesting of non-quantifier operators (static obligation)
# ---------------------------------------------------------------------------
RECURSION_SCOPE = {
    # class -> names whose call from a callback re-enters the traversal on a sub-formula
    "pysmt.type_checker.SimpleTypeChecker": ("walk", "get_type"),
    "pysmt.simplifier.Simplifier": ("walk", "simplify"),
    "pysmt.substituter.MGSubstituter": ("walk", "substitute"),
    "pysmt.substituter.MSSubstituter": ("walk", "substitute"),
    "pysmt.oracles.FreeVarsOracle": ("walk", "get_free_variables"),
    "pysmt.oracles.AtomsOracle": ("walk", "get_atoms"),
    "pysmt.oracles.QuantifierOracle": ("walk", "is_qf"),
    "pysmt.oracles.TheoryOracle": ("walk", "get_theory"),
    "pysmt.oracles.TypesOracle": ("walk", "get_types"),
    "pysmt.oracles.SizeOracle": ("walk", "get_size"),
    "pysmt.rewritings.NNFizer": ("walk", "convert"),
    "pysmt.rewritings.CNFizer": ("walk", "convert"),
    "pysmt.rewritings.PrenexNormalizer": ("walk", "normalize"),
    "pysmt.rewritings.AIGer": ("walk", "convert"),
    "pysmt.smtlib.printers.SmtDagPrinter": ("walk", "printer"),
    "pysmt.walkers.identitydag.IdentityDagWalker": ("walk",),
    # str(formula) - the text of every type error raised at construction time - is this printer with a depth threshold
    "pysmt.printers.HRPrinter": ("walk", "printer"),
}
QUANTIFIER_CALLBACKS = ("walk_forall", "walk_exists", "_walk_quantifier", "walk_quantifier")
NODE_ACCESSORS = ("bv_width", "get_type", "constant_type", "constant_value", "bv_signed_value", "bv_unsigned_value", "symbol_type")


def self_calls(fnode, names):
    out = []
    for n in ast.walk(fnode):
        if isinstance(n, ast.Call) and isinstance(n.func, ast.Attribute) and n.func.attr in names:
            out.append((n.func.attr, n.lineno))
    return out


def static_recursion_obligations(world):
    """-> list of (name, holds: bool, detail): one obligation per callback of the walkers in scope"""
    repo = world.repo
    out = []
    for cls, entry in RECURSION_SCOPE.items():
        disp = repo.dispatch(cls)
        seen = set()
        for Kop, q in sorted(disp.items()):
            if q in seen or q.endswith("walk_error"):
                continue
            seen.add(q)
            fname = q.rsplit(".", 1)[1]
            if fname in QUANTIFIER_CALLBACKS or Kop in S.QUANT_OPS:
                continue
            fi = repo.func(q)
            if fi is None:
                continue
            bad = [(a, ln) for a, ln in self_calls(fi.node, entry)
                   if True]
            # a call of the entry point on `self` is a re-entry; calls on other objects (self.mgr..., other walkers) are not
            bad2 = []
            for n in ast.walk(fi.node):
                if isinstance(n, ast.Call) and isinstance(n.func, ast.Attribute) and n.func.attr in entry \
                        and isinstance(n.func.value, ast.Name) and n.func.value.id == "self":
                    bad2.append((n.func.attr, n.lineno))
            out.append(("C20:no-recursion:%s" % q, not bad2, {"calls": bad2}))
    # node accessors used at construction time must not recurse through children
    for acc in NODE_ACCESSORS:
        fi = repo.method("pysmt.fnode.FNode", acc)
        if fi is None:
            continue
        bad = []
        for n in ast.walk(fi.node):
            if isinstance(n, ast.Call) and isinstance(n.func, ast.Attribute) and n.func.attr == acc:
                # <child>.acc(...): recursion over the nesting (the receiver is a child of self)
                recv = ast.unparse(n.func.value)
                if "self.arg(" in recv or "self.args()" in recv or "_content.args" in recv:
                    bad.append((acc, n.lineno))
                elif isinstance(n.func.value, ast.Name) and n.func.value.id != "self":
                    # <local>.acc(): fine when the local was moved down to a node that ends the descent by a LOOP
                    # (`while local.is_x(): local = local.arg(i)`); a local set to a child outside such a loop makes the call
                    # a recursion over the nesting
                    loc = n.func.value.id
                    in_loop = set()
                    for w_ in ast.walk(fi.node):
                        if isinstance(w_, ast.While) and loc in {x.id for x in ast.walk(w_.test) if isinstance(x, ast.Name)}:
                            in_loop |= {id(x) for x in ast.walk(w_)}
                    for a_ in ast.walk(fi.node):
                        if isinstance(a_, ast.Assign) and any(isinstance(t_, ast.Name) and t_.id == loc for t_ in a_.targets):
                            src_ = ast.unparse(a_.value)
                            if (".arg(" in src_ or ".args()" in src_) and id(a_) not in in_loop:
                                bad.append((acc, n.lineno))
        out.append(("C20:no-recursion:pysmt.fnode.FNode.%s" % acc, not bad, {"calls": bad}))
    return out


class StaticRecursionVariant(Variant):
    """the static obligations, reported through the same channel as the proof obligations"""
    prop_ids = ("C20",)
    qualname = "pysmt.walkers.dag.DagWalker.walk"
    name = "static:no-recursion-over-nesting"

    def __init__(self, world):
        self.world = world

    def setup(self, ex):
        self.obls = static_recursion_obligations(self.world)
        return Builtin("static-scan", lambda exx, a, kw: None), [], {}

    def check(self, ex, outcome):
        return [(n, z3.BoolVal(bool(ok))) for n, ok, _ in self.obls]

    def witness(self, model, ex):
        return {"recursive_calls": [(n, d) for n, ok, d in self.obls if not ok]}


def extras(prop, tier, seed):
    from pyvc.report import run_bounded
    if prop == "C20":
        return [run_bounded("work", tier, seed)]
    if prop == "C14":
        return [run_bounded("history", tier, seed)]
    if prop == "C15":
        return [run_bounded("failure", tier, seed)]
    return []


def variants(world, tier="quick", only=None):
    out = [WalkerVariant(world, "_get_key")]
    for pat in range(8):
        out.append(WalkerVariant(world, "_push_with_children_to_stack", 2, pat))
    for pat in (0b001, 0b010, 0b011):
        out.append(WalkerVariant(world, "_push_with_children_to_stack", 2, pat, none_results=True))
    out.append(WalkerVariant(world, "_compute_node_result", 2, 0b011, none_results=True))
    for pat in (0b011, 0b111):
        out.append(WalkerVariant(world, "_compute_node_result", 2, pat))
    for meth in ("iter_walk", "walk"):
        for one in (False, True):
            for pat in (0b000, 0b011, 0b111):
                if meth == "iter_walk" and pat == 0b111:
                    continue
                out.append(WalkerVariant(world, meth, 2, pat, one))
    out.append(StaticRecursionVariant(world))
    if only:
        out = [v for v in out if any(o in v.name for o in only)]
    return out


# ---------------------------------------------------------------------------
# every _get_key of a memoising walker: the key determines the node (and the extra arguments the result depends on)
# ---------------------------------------------------------------------------
def get_key_definitions(repo):
    """[(class, [extra parameter names])] for every class of the repository that defines _get_key"""
    out = []
    for cls in sorted(repo.probe["mro"]):
        if ".test" in cls:
            continue
        mi, ci = repo.find_class(cls)
        if not ci or "_get_key" not in ci["methods"]:
            continue
        a = ci["methods"]["_get_key"].node.args
        extra = [p.arg for p in a.args[2:]]
        out.append((cls, extra))
    return out


class GetKeyVariant(Variant):
    """_get_key of one walker class on two arbitrary nodes f, g - possibly of different environments, so possibly with the same
    node id - and arbitrary values of its extra parameters: equal keys only for the same node and the same extras (a table
    entry can only ever be found again by the query that made it)."""
    prop_ids = ("C14", "C04", "C03")
    replay_kind = "walker-keys"

    def __init__(self, world, cls, extra):
        self.world, self.cls, self.extra = world, cls, extra
        self.qualname = cls + "._get_key"
        self.name = "key:%s" % cls.rsplit(".", 1)[1]

    def setup(self, ex):
        W = self.world
        env = core.make_env(ex, W)
        self.f, self.g = z3.Const("formula", Node), z3.Const("other_formula", Node)
        for x in (self.f, self.g):
            W.touch(ex, x)
        self.w = Obj(self.cls, {"env": env, "memoization": DictVal(), "stack": []}, tag="walker")
        mk = lambda nm, i: z3.Const("%s_%d" % (nm, i), I if nm != "pol" else B)
        self.e1 = {nm: mk(nm, 1) for nm in self.extra}
        self.e2 = {nm: mk(nm, 2) for nm in self.extra}
        fi = W.repo.method(self.cls, "_get_key")
        self.fn = W.wrap_func(fi, fi.module, bound=self.w)
        return self.fn, [self.f], dict(self.e1)

    def check(self, ex, outcome):
        kind, r = outcome
        if kind == "raise":
            return [("no-exception", z3.BoolVal(False))]
        W = self.world
        r2 = ex.call(self.fn, [self.g], dict(self.e2))
        same = BI._eq(W, ex, r, r2)
        same = same if is_z3(same) else z3.BoolVal(bool(same))
        want = z3.And([self.f == self.g] + [self.e1[nm] == self.e2[nm] for nm in self.extra])
        return [("equal-keys-only-for-the-same-query", z3.Implies(same, want)),
                ("same-query-same-key", z3.Implies(want, same))]


_base_variants14 = variants


def variants(world, tier="quick", only=None):
    out = _base_variants14(world, tier, None)
    for cls, extra in get_key_definitions(world.repo):
        out.append(GetKeyVariant(world, cls, extra))
    if only:
        out = [v for v in out if any(o in v.name for o in only)]
    return out


# ---------------------------------------------------------------------------
# entry points of the persistent-table services write the table only through the walk
# ---------------------------------------------------------------------------
class EntryFrameVariant(Variant):
    """Simplifier.simplify / FreeVarsOracle.get_free_variables / ... : the entry point returns what the walk returns and writes
    nothing into the memo table itself - every entry of a persistent table is a (node, callback result) pair made by the walk."""
    prop_ids = ("C14",)

    def __init__(self, world, cls, method):
        self.world, self.cls, self.method = world, cls, method
        self.qualname = cls + "." + method
        self.name = "entry:%s.%s" % (cls.rsplit(".", 1)[1], method)

    def setup(self, ex):
        W = self.world
        env = core.make_env(ex, W)
        self.f = z3.Const("formula", Node)
        W.touch(ex, self.f)
        self.k0, self.r0 = z3.Const("memoised_node", Node), z3.Const("memoised_result", Res)
        self.memo = DictVal([[self.k0, self.r0]])
        self.Wf = z3.Function("result_of_the_walk", Node, Node)      # what the walk computes for a node (its callbacks: C01 ...)
        self.res = self.Wf(self.f)
        W.touch(ex, self.res)
        self.walked = []
        v = self
        self.w = Obj(self.cls, {"env": env, "memoization": self.memo, "stack": [], "manager": env.fields["_formula_manager"],
                                "invalidate_memoization": False}, tag="service")
        def walk(exx, a, kw):
            x = a[1] if len(a) > 1 else kw.get("formula")
            v.walked.append(x)
            r_ = v.Wf(x)
            W.touch(exx, r_)
            return r_
        self.w.fields["walk"] = Builtin("walk", walk, bound=self.w)
        fi = W.repo.method(self.cls, self.method)
        return W.wrap_func(fi, fi.module, bound=self.w), [self.f], {}

    def check(self, ex, outcome):
        kind, r = outcome
        if kind == "raise":
            return [("no-exception", z3.BoolVal(False))]
        items = self.memo.items
        kept = len(items) >= 1 and items[0][0] is self.k0 and items[0][1] is self.r0
        goals = [("walks-the-formula", z3.Or([x == self.f for x in self.walked if is_node(x)]) if self.walked else z3.BoolVal(False)),
                 ("returns-the-result-of-the-walk", (r == self.res) if is_node(r) else z3.BoolVal(False)),
                 ("earlier-entries-untouched", z3.BoolVal(bool(kept)))]
        # an entry the entry point writes itself must be what the walk would compute for that node (not, e.g., the node itself:
        # simplification is not idempotent)
        for k_, v_ in items[1:]:
            ok = is_node(k_) and is_node(v_)
            goals.append(("entries-written-are-results-of-the-walk", (v_ == self.Wf(k_)) if ok else z3.BoolVal(False)))
        return goals


_base_variants14b = variants


def variants(world, tier="quick", only=None):
    out = _base_variants14b(world, tier, None)
    out.append(EntryFrameVariant(world, "pysmt.simplifier.Simplifier", "simplify"))
    if only:
        out = [v for v in out if any(o in v.name for o in only)]
    return out
