"""C09: round trips.  The proved ingredients live in the contracts of C07 (each printer
callback writes the table row of its operator), C08 (scoping; the parser's own helpers
rebuild MINUS / EQUALS / IFF / DIV nodes from their children - clauses `C09:` in
contracts/c08_parser.py) and C04/C06 (a constructor applied to the same children returns
the same object).

Here: the *per-operator round-trip lemma* as a static obligation over three tables read from
the real sources every run -
    P(op)   the spelling the tree printer and the DAG printer pass to walk_nary for `op`
            (AST of pysmt/smtlib/printers.py)
    T(name) the constructor / helper the parser binds to a spelling (AST of SmtLibParser.__init__)
    K(ctor) the operator a constructor builds: the node mk(op, children) itself (C06 CORE
            constructors, proved: clause C04:node-has-given-structure; n-ary And / Or / Plus /
            Times / StrConcat / BVAnd.. build the n-ary node for >= 2 arguments)
  obligation for every operator printed through walk_nary:  K(T(P(op))) = op , for both printers.
With C07 (the printer writes exactly `(P(op) child ...)`) and C04 (same content = same
object) this gives: parsing the printed application of `op` to children that parse back to
themselves returns the very same node.

The composition over whole formulas - the token stream between printer and parser, the term
reader's stack machine, the script layer and the human-readable printer / Pratt parser - is
covered by the bounded stand-in `roundtrip` (labelled bounded, never counted as proved)."""
import ast

import z3

from pyvc import sorts as S
from pyvc.symex import Builtin
from pyvc.harness import Variant

DEADLINE = {"quick": 200, "thorough": 600}
REPLAY_KIND = "roundtrip"

# constructor / parser helper -> operator of the node it builds from its children
BUILDS = {
    "And": S.AND, "Or": S.OR, "Not": S.NOT, "Implies": S.IMPLIES, "Ite": S.ITE, "Plus": S.PLUS, "Times": S.TIMES,
    "LE": S.LE, "LT": S.LT, "ToReal": S.TOREAL, "Pow": S.POW,
    "_minus_or_uminus": S.MINUS, "_equals_or_iff": (S.EQUALS, S.IFF), "_division": S.DIV, "_int_division": S.DIV,
    "BVConcat": S.BV_CONCAT, "BVNot": S.BV_NOT, "BVNeg": S.BV_NEG, "BVAnd": S.BV_AND, "BVOr": S.BV_OR, "BVXor": S.BV_XOR,
    "BVAdd": S.BV_ADD, "BVSub": S.BV_SUB, "BVMul": S.BV_MUL, "BVUDiv": S.BV_UDIV, "BVURem": S.BV_UREM, "BVSDiv": S.BV_SDIV,
    "BVSRem": S.BV_SREM, "BVLShl": S.BV_LSHL, "BVLShr": S.BV_LSHR, "BVAShr": S.BV_ASHR, "BVULT": S.BV_ULT, "BVULE": S.BV_ULE,
    "BVSLT": S.BV_SLT, "BVSLE": S.BV_SLE, "BVComp": S.BV_COMP, "BVToNatural": S.BV_TONATURAL,
    "Select": S.ARRAY_SELECT, "Store": S.ARRAY_STORE,
    "StrLength": S.STR_LENGTH, "StrConcat": S.STR_CONCAT, "StrCharAt": S.STR_CHARAT, "StrContains": S.STR_CONTAINS,
    "StrIndexOf": S.STR_INDEXOF, "StrReplace": S.STR_REPLACE, "StrSubstr": S.STR_SUBSTR, "StrPrefixOf": S.STR_PREFIXOF,
    "StrSuffixOf": S.STR_SUFFIXOF, "StrToInt": S.STR_TO_INT, "IntToStr": S.INT_TO_STR,
}
OPS_BY_WALK = {"walk_" + n.lower(): k for k, n in (enumerate(S.OPNAMES) if isinstance(S.OPNAMES, (list, tuple)) else S.OPNAMES.items())}


def printed_spellings(repo, cls):
    """-> {operator: set of spellings} from methods of the form  def walk_X(...): return self.walk_nary(formula, [args,] "name")
    (both branches of an if are collected: walk_div)"""
    mi, ci = repo.find_class(cls)
    out = {}
    for name, fi in ci["methods"].items():
        if name not in OPS_BY_WALK:
            continue
        names = set()
        for n in ast.walk(fi.node):
            if isinstance(n, ast.Call) and isinstance(n.func, ast.Attribute) and n.func.attr == "walk_nary" and n.args:
                last = n.args[-1]
                if isinstance(last, ast.Constant) and isinstance(last.value, str):
                    names.add(last.value.strip())
        if names:
            out[OPS_BY_WALK[name]] = names
    return out


class OperatorRoundTripVariant(Variant):
    prop_ids = ("C09",)
    qualname = "pysmt.smtlib.parser.parser.SmtLibParser.__init__"
    name = "static:operator-round-trip"

    def __init__(self, world):
        self.world = world

    def setup(self, ex):
        from contracts.c08_parser import read_operator_table
        repo = self.world.repo
        self.table = read_operator_table(repo)
        self.printed = {"tree": printed_spellings(repo, "pysmt.smtlib.printers.SmtPrinter"),
                        "dag": printed_spellings(repo, "pysmt.smtlib.printers.SmtDagPrinter")}
        return Builtin("static-scan", lambda exx, a, kw: None), [], {}

    def check(self, ex, outcome):
        goals = []
        for pr, spell in self.printed.items():
            goals.append(("%s-printer-table-found" % pr, z3.BoolVal(len(spell) > 35)))
            for Kop, names in sorted(spell.items()):
                for nm in sorted(names):
                    ctor = self.table.get(nm)
                    built = BUILDS.get(ctor)
                    ok = built is not None and (Kop in built if isinstance(built, tuple) else built == Kop)
                    goals.append(("C09:%s:%s-printed-as-%s-parses-back-to-%s" % (pr, S.OPNAMES[Kop], nm, S.OPNAMES[Kop]), z3.BoolVal(bool(ok))))
        return goals

    def witness(self, model, ex):
        bad = {}
        for pr, spell in self.printed.items():
            for Kop, names in spell.items():
                for nm in names:
                    built = BUILDS.get(self.table.get(nm))
                    if not (built is not None and (Kop in built if isinstance(built, tuple) else built == Kop)):
                        bad["%s/%s" % (pr, S.OPNAMES[Kop])] = {"printed": nm, "parser_binds": self.table.get(nm)}
        return bad


def variants(world, tier="quick", only=None):
    out = [OperatorRoundTripVariant(world)]
    if only:
        out = [v for v in out if any(o in v.name for o in only)]
    return out


def extras(prop, tier, seed):
    if prop != "C09":
        return []
    from pyvc.report import run_bounded
    return [run_bounded("roundtrip", tier, seed)]


# ---------------------------------------------------------------------------
# the same lemma for the human-readable syntax: printer spellings vs the lexer's ordered rule list
# ---------------------------------------------------------------------------
HR_PRINTER = "pysmt.printers.HRPrinter"
HR_LEXER = "pysmt.parsing.HRLexer"
# helper of the lexer -> constructors it may choose from (by the type of the left operand); read from the helper's body
MGR_CALL = "self.mgr."


def hr_rules(repo):
    """ordered [(regex source, adapter class or None, [constructor names the adapter may call])] of HRLexer.__init__,
    and the identifier map {word: (adapter, [constructors])}"""
    fi = repo.method(HR_LEXER, "__init__")
    mi, ci = repo.find_class(HR_LEXER)

    def ctors_of(expr):
        """constructor names reachable from an adapter argument: self.mgr.X, or self.Helper -> every self.mgr.Y in its body"""
        out = []
        for n in ast.walk(expr):
            if isinstance(n, ast.Attribute):
                src = ast.unparse(n)
                if src.startswith(MGR_CALL) and src.count(".") == 2:
                    out.append(n.attr)
                elif isinstance(n.value, ast.Name) and n.value.id == "self" and n.attr in ci["methods"]:
                    for m in ast.walk(ci["methods"][n.attr].node):
                        if isinstance(m, ast.Attribute) and ast.unparse(m).startswith(MGR_CALL) and ast.unparse(m).count(".") == 2:
                            out.append(m.attr)
        return out
    rules, idmap = [], {}
    for n in ast.walk(fi.node):
        if isinstance(n, ast.Assign) and len(n.targets) == 1:
            t = ast.unparse(n.targets[0])
            if t == "hr_rules" and isinstance(n.value, ast.List):
                for e in n.value.elts:
                    if isinstance(e, ast.Call) and ast.unparse(e.func) == "Rule" and e.args and isinstance(e.args[0], ast.Constant):
                        ad = e.args[1] if len(e.args) > 1 else None
                        cls = ast.unparse(ad.func) if isinstance(ad, ast.Call) else (ast.unparse(ad) if ad is not None else None)
                        rules.append((e.args[0].value, cls, ctors_of(ad) if ad is not None else []))
            if t == "self._identifier_map" and isinstance(n.value, ast.Dict):
                for k, v in zip(n.value.keys, n.value.values):
                    if isinstance(k, ast.Constant):
                        idmap[k.value] = (ast.unparse(v.func) if isinstance(v, ast.Call) else ast.unparse(v), ctors_of(v))
    return rules, idmap


def hr_spellings(repo):
    """operator -> infix spelling the HR printer passes to walk_nary (methods `def walk_X(...): return self.walk_nary(formula, " op ")`)"""
    mi, ci = repo.find_class(HR_PRINTER)
    out = {}
    for name, fi in ci["methods"].items():
        if name not in OPS_BY_WALK:
            continue
        for n in ast.walk(fi.node):
            if isinstance(n, ast.Call) and isinstance(n.func, ast.Attribute) and n.func.attr == "walk_nary" and len(n.args) == 2 \
                    and isinstance(n.args[1], ast.Constant) and isinstance(n.args[1].value, str):
                out[OPS_BY_WALK[name]] = n.args[1].value.strip()
    return out


def hr_constant_templates(repo):
    """{walk method: [format templates]} the HR printer writes for numeric constants: `self.write(TEMPLATE % ...)` with a literal
    template, or `self.write(str(...))` (template "%s")"""
    mi, ci = repo.find_class(HR_PRINTER)
    out = {}
    for name in ("walk_real_constant", "walk_int_constant", "walk_bv_constant"):
        fi = ci["methods"].get(name)
        if fi is None:
            continue
        ts = []
        for n in ast.walk(fi.node):
            if isinstance(n, ast.Call) and isinstance(n.func, ast.Attribute) and n.func.attr == "write" and n.args:
                a = n.args[0]
                if isinstance(a, ast.BinOp) and isinstance(a.op, ast.Mod) and isinstance(a.left, ast.Constant) and isinstance(a.left.value, str):
                    ts.append(a.left.value)
                elif isinstance(a, ast.Call) and ast.unparse(a.func) == "str":
                    ts.append("%s")
        out[name] = ts
    return out


class HrOperatorRoundTripVariant(Variant):
    """For every operator the human-readable printer writes as an infix application `(l op r)`: scanning the text `op`
    with the lexer's rules IN THEIR ORDER (first rule that matches at the position wins - evaluated with Python's `re` on
    the real patterns) gives one token covering exactly `op`, and that token's adapter can call the constructor that builds
    the operator (for the overloaded & | + - * the helper chooses by the operand type between the Boolean / arithmetic and
    the bit-vector constructor: both must be among its choices)."""
    prop_ids = ("C09",)
    qualname = HR_LEXER + ".__init__"
    name = "static:hr-operator-round-trip"

    def __init__(self, world):
        self.world = world

    def setup(self, ex):
        repo = self.world.repo
        self.rules, self.idmap = hr_rules(repo)
        self.spell = hr_spellings(repo)
        self.templates = hr_constant_templates(repo)
        return Builtin("static-scan", lambda exx, a, kw: None), [], {}

    def token_for(self, text):
        """(index of the rule, adapter, constructors) that the lexer's scan produces at the start of `text`, and the length
        matched"""
        import re
        for i, (rx, cls, ctors) in enumerate(self.rules):
            try:
                m = re.match(rx, text)
            except re.error:
                return None
            if m:
                if "A-Za-z_" in rx and m.group(0) in self.idmap:
                    cls, ctors = self.idmap[m.group(0)]
                return i, cls, ctors, len(m.group(0))
        return None

    def check(self, ex, outcome):
        goals = [("hr-tables-found", z3.BoolVal(len(self.rules) > 40 and len(self.spell) > 20))]
        self.bad = {}
        inv = {}
        for ctor, built in BUILDS.items():
            for b in (built if isinstance(built, tuple) else (built,)):
                inv.setdefault(b, set()).add(ctor)
        inv.setdefault(S.IFF, set()).add("Iff")
        inv.setdefault(S.EQUALS, set()).add("Equals")
        inv.setdefault(S.MINUS, set()).add("Minus")
        inv.setdefault(S.DIV, set()).add("Div")
        for Kop, op in sorted(self.spell.items()):
            tok = self.token_for(op + " x")
            want = inv.get(Kop, set())
            ok = tok is not None and tok[3] == len(op) and tok[1] in ("InfixOpAdapter", "InfixOrUnaryOpAdapter") and bool(want & set(tok[2]))
            if not ok:
                self.bad[S.OPNAMES[Kop]] = {"printed": op, "lexer": tok}
            goals.append(("C09:hr:%s-printed-as-%s-is-read-as-%s" % (S.OPNAMES[Kop], op.replace(" ", "").replace("/", "(slash)"), S.OPNAMES[Kop]), z3.BoolVal(bool(ok))))
        # numeric constants: every text the printer's templates give for a sample of numerals (negative ones included; a
        # bit-vector value is never negative) is ONE token of the matching constant rule, also when a digit or a name follows
        want_rule = {"walk_real_constant": "self.real_constant", "walk_int_constant": "self.int_constant", "walk_bv_constant": "self.bv_constant"}
        goals.append(("hr-constant-templates-found", z3.BoolVal(all(self.templates.get(m) for m in want_rule))))
        for meth, ts in sorted(self.templates.items()):
            for t in ts:
                holes = t.count("%s") + t.count("%d")
                firsts = ("0", "7", "13") if meth == "walk_bv_constant" else ("0", "7", "-7", "-13", "130")
                for a in firsts:
                    for b in (("2", "13") if holes > 1 else ("",)):
                        text = t.replace("%d", "%s") % ((a, b)[:holes])
                        for tail, where in ((" ", "at-the-end"), (")", "before-a-parenthesis"), (" + x", "before-an-operator")):
                            tok = self.token_for(text + tail)
                            ok = tok is not None and tok[3] == len(text) and tok[1] == want_rule[meth]
                            if not ok:
                                self.bad["%s %r" % (meth, text)] = {"printed": text, "followed_by": tail, "lexer": tok}
                            goals.append(("C09:hr:constant-%s-%s-is-one-token-of-its-kind" % (text.replace("/", "(slash)"), where), z3.BoolVal(bool(ok))))
        return goals

    def witness(self, model, ex):
        return getattr(self, "bad", {})


_base_variants9 = variants


def variants(world, tier="quick", only=None):
    out = _base_variants9(world, tier, None) + [HrOperatorRoundTripVariant(world)]
    if only:
        out = [v for v in out if any(o in v.name for o in only)]
    return out
