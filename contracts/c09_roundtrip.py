"""C09: round trips.  The proved ingredients live in the contracts of C07 (each printer
callback writes the table row of its operator), C08 (scoping; the parser's own helpers
rebuild MINUS / EQUALS / IFF / DIV nodes from their children - clauses `C09:` in
contracts/c08_parser.py) and C04/C06 (a constructor applied to the same children returns
the same object).

Here: the *per-operator round-trip lemma* as a static obligation over three tables read from
the real sources every run -
    P(op)   the spelling the tree printer and the DAG printer pass to walk_nary for `op`
            (AST of pysmt/smtlib/printers.py)
    T(name) the constructor / helper the parser binds to a spelling (AST of SmtLibParser.__init__)
    K(ctor) the operator a constructor builds: the node mk(op, children) itself (C06 CORE
            constructors, proved: clause C04:node-has-given-structure; n-ary And / Or / Plus /
            Times / StrConcat / BVAnd.. build the n-ary node for >= 2 arguments)
  obligation for every operator printed through walk_nary:  K(T(P(op))) = op , for both printers.
With C07 (the printer writes exactly `(P(op) child ...)`) and C04 (same content = same
object) this gives: parsing the printed application of `op` to children that parse back to
themselves returns the very same node.

The composition over whole formulas - the token stream between printer and parser, the term
reader's stack machine, the script layer and the human-readable printer / Pratt parser - is
covered by the bounded stand-in `roundtrip` (labelled bounded, never counted as proved)."""
import ast

import z3

from pyvc import sorts as S
from pyvc.symex import Builtin
from pyvc.harness import Variant

DEADLINE = {"quick": 200, "thorough": 600}
REPLAY_KIND = "roundtrip"

# constructor / parser helper -> operator of the node it builds from its children
BUILDS = {
    "And": S.AND, "Or": S.OR, "Not": S.NOT, "Implies": S.IMPLIES, "Ite": S.ITE, "Plus": S.PLUS, "Times": S.TIMES,
    "LE": S.LE, "LT": S.LT, "ToReal": S.TOREAL, "Pow": S.POW,
    "_minus_or_uminus": S.MINUS, "_equals_or_iff": (S.EQUALS, S.IFF), "_division": S.DIV, "_int_division": S.DIV,
    "BVConcat": S.BV_CONCAT, "BVNot": S.BV_NOT, "BVNeg": S.BV_NEG, "BVAnd": S.BV_AND, "BVOr": S.BV_OR, "BVXor": S.BV_XOR,
    "BVAdd": S.BV_ADD, "BVSub": S.BV_SUB, "BVMul": S.BV_MUL, "BVUDiv": S.BV_UDIV, "BVURem": S.BV_UREM, "BVSDiv": S.BV_SDIV,
    "BVSRem": S.BV_SREM, "BVLShl": S.BV_LSHL, "BVLShr": S.BV_LSHR, "BVAShr": S.BV_ASHR, "BVULT": S.BV_ULT, "BVULE": S.BV_ULE,
    "BVSLT": S.BV_SLT, "BVSLE": S.BV_SLE, "BVComp": S.BV_COMP, "BVToNatural": S.BV_TONATURAL,
    "Select": S.ARRAY_SELECT, "Store": S.ARRAY_STORE,
    "StrLength": S.STR_LENGTH, "StrConcat": S.STR_CONCAT, "StrCharAt": S.STR_CHARAT, "StrContains": S.STR_CONTAINS,
    "StrIndexOf": S.STR_INDEXOF, "StrReplace": S.STR_REPLACE, "StrSubstr": S.STR_SUBSTR, "StrPrefixOf": S.STR_PREFIXOF,
    "StrSuffixOf": S.STR_SUFFIXOF, "StrToInt": S.STR_TO_INT, "IntToStr": S.INT_TO_STR,
}
OPS_BY_WALK = {"walk_" + n.lower(): k for k, n in (enumerate(S.OPNAMES) if isinstance(S.OPNAMES, (list, tuple)) else S.OPNAMES.items())}


def printed_spellings(repo, cls):
    """-> {operator: set of spellings} from methods of the form  def walk_X(...): return self.walk_nary(formula, [args,] "name")
    (both branches of an if are collected: walk_div)"""
    mi, ci = repo.find_class(cls)
    out = {}
    for name, fi in ci["methods"].items():
        if name not in OPS_BY_WALK:
            continue
        names = set()
        for n in ast.walk(fi.node):
            if isinstance(n, ast.Call) and isinstance(n.func, ast.Attribute) and n.func.attr == "walk_nary" and n.args:
                last = n.args[-1]
                if isinstance(last, ast.Constant) and isinstance(last.value, str):
                    names.add(last.value.strip())
        if names:
            out[OPS_BY_WALK[name]] = names
    return out


class OperatorRoundTripVariant(Variant):
    prop_ids = ("C09",)
    qualname = "pysmt.smtlib.parser.parser.SmtLibParser.__init__"
    name = "static:operator-round-trip"

    def __init__(self, world):
        self.world = world

    def setup(self, ex):
        from contracts.c08_parser import read_operator_table
        repo = self.world.repo
        self.table = read_operator_table(repo)
        self.printed = {"tree": printed_spellings(repo, "pysmt.smtlib.printers.SmtPrinter"),
                        "dag": printed_spellings(repo, "pysmt.smtlib.printers.SmtDagPrinter")}
        return Builtin("static-scan", lambda exx, a, kw: None), [], {}

    def check(self, ex, outcome):
        goals = []
        for pr, spell in self.printed.items():
            goals.append(("%s-printer-table-found" % pr, z3.BoolVal(len(spell) > 35)))
            for Kop, names in sorted(spell.items()):
                for nm in sorted(names):
                    ctor = self.table.get(nm)
                    built = BUILDS.get(ctor)
                    ok = built is not None and (Kop in built if isinstance(built, tuple) else built == Kop)
                    goals.append(("C09:%s:%s-printed-as-%s-parses-back-to-%s" % (pr, S.OPNAMES[Kop], nm, S.OPNAMES[Kop]), z3.BoolVal(bool(ok))))
        return goals

    def witness(self, model, ex):
        bad = {}
        for pr, spell in self.printed.items():
            for Kop, names in spell.items():
                for nm in names:
                    built = BUILDS.get(self.table.get(nm))
                    if not (built is not None and (Kop in built if isinstance(built, tuple) else built == Kop)):
                        bad["%s/%s" % (pr, S.OPNAMES[Kop])] = {"printed": nm, "parser_binds": self.table.get(nm)}
        return bad


def variants(world, tier="quick", only=None):
    out = [OperatorRoundTripVariant(world)]
    if only:
        out = [v for v in out if any(o in v.name for o in only)]
    return out


def extras(prop, tier, seed):
    if prop != "C09":
        return []
    from pyvc.report import run_bounded
    return [run_bounded("roundtrip", tier, seed)]
