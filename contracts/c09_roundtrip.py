"""C09: round trips.  The proved ingredients live in the contracts of C07 (each printer
callback writes the table row of its operator), C08 (scoping; the parser's own helpers
rebuild MINUS / EQUALS / IFF / DIV nodes from their children - clauses `C09:` in
contracts/c08_parser.py) and C04/C06 (a constructor applied to the same children returns
the same object).  The composition - the token stream between printer and parser, the
term reader's stack machine, the operator table, the script layer and the human-readable
printer / Pratt parser - is outside pyvc's reach and is covered by the bounded stand-in
`roundtrip` (labelled bounded, never counted as proved)."""

DEADLINE = {"quick": 200, "thorough": 600}
REPLAY_KIND = "roundtrip"


def variants(world, tier="quick", only=None):
    return []


def extras(prop, tier, seed):
    if prop != "C09":
        return []
    from pyvc.report import run_bounded
    return [run_bounded("roundtrip", tier, seed)]
