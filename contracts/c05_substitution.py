"""C04 (faithful rebuild) and C05 (substitution).

 * every IdentityDagWalker.walk_<op> rebuilds 'the same operator applied to the
   new children': same type, the operator's meaning on the children's values, no new
   free symbols, and THE SAME OBJECT when the children are unchanged (C04);
 * MGSubstituter / MSSubstituter callbacks return exactly the documented
   most-general / most-specific replacement, on top of that rebuild contract;
 * entering a quantifier keeps exactly the keys whose free symbols are disjoint
   from the bound variables, substitutes the body with a fresh walker and memoises
   the rebuilt quantifier;
 * substitute() rejects non-term keys/values.
The semantic substitution lemma itself is the standard induction over these
contracts (stated, DESIGN 3.3)."""
import z3

from pyvc import sorts as S
from pyvc import spec
from pyvc.sorts import Node, Ty, B
from pyvc.symex import (Obj, DictVal, ClassRef, Builtin, PyRaise, ExcVal, Unsupported, is_node, is_z3, FuncVal)
from pyvc.harness import Variant
from pyvc.world import Contract
from pyvc import builtins_impl as BI
from . import core

DEADLINE = {"quick": 240, "thorough": 900}
REPLAY_KIND = "substitution"
IDW = "pysmt.walkers.identitydag.IdentityDagWalker"
ARITIES = {S.AND: (2, 3), S.OR: (2, 3), S.PLUS: (2, 3), S.TIMES: (2, 3), S.STR_CONCAT: (2, 3),
           S.FUNCTION: (1, 2), S.ARRAY_VALUE: (1, 3)}


class SymbolCtor(Contract):
    """FormulaManager.Symbol(name, type): THE symbol of that name (one per name, C04);
    re-creating an existing symbol from its own name and type returns it; otherwise a
    symbol of that name may already exist with another type (error)."""
    qualname = "pysmt.formula.FormulaManager.Symbol"

    def apply(self, ex, a, kw):
        name = a[1] if len(a) > 1 else kw["name"]
        ty = a[2] if len(a) > 2 else kw.get("typename", S.BoolT)
        name = name if is_z3(name) else z3.StringVal(name)
        if z3.is_app(name) and name.decl().eq(S.pl_str) and z3.is_app(ty) and ty.decl().eq(S.pl_ty) \
                and name.arg(0).eq(ty.arg(0)):
            return name.arg(0)
        if ex.decide(ex.fresh("symbol_name_taken_with_other_type", B)):
            raise PyRaise(ExcVal("PysmtTypeError", ("Trying to redefine symbol",)))
        if not ex.decide(spec.valid_type(ty)):
            raise PyRaise(ExcVal("PysmtValueError", ("typename must be a PySMTType",)))
        return self.world.new_node(ex, S.SYMBOL, [], [name, ty], check=False)


def install_symbol(world):
    c = SymbolCtor()
    c.world = world
    world.contracts[c.qualname] = c


def expected_rebuild(world, ex, formula, Kop, args):
    """the node 'operator of formula applied to args' as a specification term"""
    m = world.mk_term(Kop, args, world.payload_terms(Kop, formula))
    return m


class RebuildVariant(Variant):
    """IdentityDagWalker.walk_<op>(formula, args)"""
    prop_ids = ("C04", "C05")

    def __init__(self, world, Kop, k, target):
        self.world, self.Kop, self.k = world, Kop, k
        self.qualname = target
        self.name = "rebuild:%s[%s/%d]" % (target.rsplit(".", 1)[1], S.OPNAMES[Kop], k)
        if Kop in ARITIES:
            self.bounded = "arity"

    def setup(self, ex):
        W = self.world
        env = core.make_env(ex, W)
        install_symbol(W)
        f = z3.Const("formula", Node)
        self.formula = f
        ex.assume(S.op(f) == self.Kop)
        W.learn(ex, f, op=self.Kop, k=self.k)
        self.args = [z3.Const("new%d" % i, Node) for i in range(self.k)]
        for i, a in enumerate(self.args):
            W.touch(ex, a)
            ex.assume(S.type_of(a) == S.type_of(S.arg(f, S.K(i))))
        if self.Kop == S.ARRAY_VALUE:
            for i in range(1, self.k, 2):
                ex.assume(S.isconst(self.args[i]))        # substitution keeps constant keys constant
        if self.Kop == S.POW:
            ex.assume(S.isconst(self.args[1]))
        if self.Kop == S.DIV:
            d = S.val(self.args[1])
            ex.assume(z3.And(d != S.VInt(0), d != S.VReal(0)))
        w = Obj(IDW, {"env": env, "mgr": env.fields["_formula_manager"], "memoization": DictVal(), "stack": [],
                      "invalidate_memoization": False}, tag="walker")
        fi = W.repo.func(self.qualname)
        return W.wrap_func(fi, fi.module, bound=w), [f], {"args": list(self.args)}

    def check(self, ex, outcome):
        kind, r = outcome
        if kind == "raise":
            return [("no-exception", z3.BoolVal(False))]
        if not is_node(r):
            return [("returns-node", z3.BoolVal(False))]
        W = self.world
        W.touch(ex, r)
        f = self.formula
        same = z3.And([a == S.arg(f, S.K(i)) for i, a in enumerate(self.args)]) if self.args else z3.BoolVal(True)
        goals = [("type-preserved", S.type_of(r) == S.type_of(f)),
                 ("C04:unchanged-children-give-the-same-object", z3.Implies(same, r == f))]
        # meaning: the operator (with formula's parameters) applied to the new children's values
        av = [S.val(a) for a in self.args]
        at = [S.type_of(a) for a in self.args]
        fvs = z3.EmptySet(Node)
        for a in self.args:
            fvs = z3.SetUnion(fvs, S.fv(a))
        if self.Kop in S.QUANT_OPS:
            sb = S.semf(self.args[0])
            rel = z3.SetIntersect(S.qvset(f), S.dep(sb))
            goals.append(("C05:denotes-operator-on-new-children",
                          S.semf(r) == z3.If(rel == z3.EmptySet(Node), sb, S.qsem(S.K(self.Kop), rel, sb))))
            fvs = z3.SetDifference(fvs, S.qvset(f))
        elif self.Kop == S.FUNCTION:
            goals.append(("C05:denotes-operator-on-new-children", S.val(r) == S.uf_app(S.pl_node(f), spec._seq(av))))
            fvs = z3.SetAdd(fvs, S.pl_node(f))
        elif self.Kop == S.SYMBOL:
            goals.append(("C05:denotes-operator-on-new-children", r == f))
            fvs = S.fv(f)
        else:
            want = spec.sem(self.Kop, f, av, at)
            if want is not None:
                goals.append(("C05:denotes-operator-on-new-children", S.val(r) == want))
        goals.append(("C05:no-new-free-symbols", z3.IsSubset(S.fv(r), fvs)))
        return goals

    def witness(self, model, ex):
        from pyvc.concretize import node_to_json
        return {"op": S.OPNAMES[self.Kop], "formula": node_to_json(model, self.formula, 2),
                "args": [node_to_json(model, a, 2) for a in self.args]}


# ---------------------------------------------------------------------------
class RebuildSummary(Contract):
    """IdentityDagWalker.walk_<op> at call sites (Walker.super): the contract proved by RebuildVariant"""
    def __init__(self, qualname):
        self.qualname = qualname

    def when(self, ex, a, kw):
        return ex.depth > 0

    def apply(self, ex, a, kw):
        formula = a[1]
        args = kw.get("args", a[2] if len(a) > 2 else [])
        args = BI.iterate(self.world, ex, args)
        r = ex.fresh("rebuilt", Node)
        self.world.touch(ex, r)
        ex.assume(S.type_of(r) == S.type_of(formula))
        Kop = BI.resolve_op(self.world, ex, formula)
        k = BI.concretize_len(self.world, ex, formula)
        args = args[:k]          # leaves ignore whatever list they are handed
        same = z3.And([x == S.arg(formula, S.K(i)) for i, x in enumerate(args)]) if args else z3.BoolVal(True)
        if Kop == S.SYMBOL:
            ex.assume(S.op(r) == S.SYMBOL)
        ex.assume(z3.Implies(same, r == formula))
        ex.ghost["rebuilt"] = r
        ex.ghost["rebuilt_args"] = list(args)
        return r


class WalkerSuper(Contract):
    """Walker.super(cls, self, formula, ...): getattr(cls, 'walk_<opname>') - resolved through
    the class hierarchy exactly as at run time (operator known on the path)"""
    qualname = "pysmt.walkers.generic.Walker.super"

    def apply(self, ex, a, kw):
        cls, selfv, formula = a[0], a[1], a[2]
        Kop = BI.resolve_op(self.world, ex, formula)
        name = "walk_%s" % S.OPNAMES[Kop].lower()
        fi = self.world.repo.method(cls.qual, name)
        if fi is None:
            raise PyRaise(ExcVal("AttributeError", (name,)))
        fn = self.world.wrap_func(fi, fi.module, bound=selfv)
        return ex.call(fn, [formula] + list(a[3:]), kw)


class FunctionsTable:
    """walker.functions: op -> bound callback, from the live dispatch table"""
    def __init__(self, obj):
        self.obj = obj


def make_walker(ex, world, cls, env, **fields):
    w = Obj(cls, {"env": env, "mgr": env.fields["_formula_manager"], "manager": env.fields["_formula_manager"],
                  "memoization": DictVal(), "stack": [], "invalidate_memoization": True}, tag="walker")
    w.fields["functions"] = FunctionsTable(w)
    w.fields.update(fields)
    return w


def install_walker_support(world):
    for Kop in range(S.NOPS):
        q = "%s.walk_%s" % (IDW, S.OPNAMES[Kop].lower())
        if world.repo.func(q) is not None:
            c = RebuildSummary(q)
            c.world = world
            world.contracts[q] = c
    c = WalkerSuper()
    c.world = world
    world.contracts[c.qualname] = c
    install_symbol(world)
    old = world.config.get("getitem")

    def getitem(ex, o, k):
        if isinstance(o, FunctionsTable):
            Kop = k if isinstance(k, int) else None
            if Kop is None and is_z3(k) and z3.is_app(k) and k.decl().eq(S.op):
                Kop = BI.resolve_op(world, ex, k.arg(0))
            if Kop is None:
                raise Unsupported("functions[...] with unknown operator")
            q = world.repo.dispatch(o.obj.cls).get(Kop)
            if q is None:
                raise PyRaise(ExcVal("KeyError"))
            fi = world.repo.func(q)
            return world.wrap_func(fi, fi.module, bound=o.obj)
        return old(ex, o, k) if old else NotImplemented
    world.config["getitem"] = getitem


class SubstVariant(Variant):
    """callbacks of MGSubstituter / MSSubstituter for a substitution map with n entries"""
    prop_ids = ("C05",)
    bounded = "arity"

    def __init__(self, world, cls, Kop, k, target, n):
        self.world, self.cls, self.Kop, self.k, self.n = world, cls, Kop, k, n
        self.qualname = target
        self.mgs = cls.endswith("MGSubstituter")
        self.name = "%s:%s[%s/%d]/map%d" % ("mgs" if self.mgs else "mss", target.rsplit(".", 1)[1], S.OPNAMES[Kop], k, n)

    def setup(self, ex):
        W = self.world
        env = core.make_env(ex, W)
        install_walker_support(W)
        f = z3.Const("formula", Node)
        self.formula = f
        ex.assume(S.op(f) == self.Kop)
        W.learn(ex, f, op=self.Kop, k=self.k)
        self.args = [z3.Const("new%d" % i, Node) for i in range(self.k)]
        for i, a in enumerate(self.args):
            W.touch(ex, a)
            ex.assume(S.type_of(a) == S.type_of(S.arg(f, S.K(i))))
        self.keys = [z3.Const("key%d" % i, Node) for i in range(self.n)]
        self.vals = [z3.Const("to%d" % i, Node) for i in range(self.n)]
        for k_, v_ in zip(self.keys, self.vals):
            W.touch(ex, k_)
            W.touch(ex, v_)
            ex.assume(S.type_of(k_) == S.type_of(v_))
        if self.n > 1:
            ex.assume(z3.Distinct(self.keys))
        self.sigma = DictVal(list(zip(self.keys, self.vals)))
        w = make_walker(ex, W, self.cls, env)
        fi = W.repo.func(self.qualname)
        return W.wrap_func(fi, fi.module, bound=w), [f], {"args": list(self.args), "substitutions": self.sigma,
                                                            "interpretations": DictVal()}

    def lookup(self, n_, default):
        """sigma.get(n_, default) as a term"""
        r = default
        for k_, v_ in reversed(list(zip(self.keys, self.vals))):
            r = z3.If(n_ == k_, v_, r)
        return r

    def check(self, ex, outcome):
        kind, r = outcome
        if kind == "raise":
            return [("no-exception", z3.BoolVal(False))]
        if not is_node(r):
            return [("returns-node", z3.BoolVal(False))]
        f = self.formula
        indom = z3.Or([f == k_ for k_ in self.keys]) if self.keys else z3.BoolVal(False)
        rb = ex.ghost.get("rebuilt")
        goals = []
        if self.Kop in S.QUANT_OPS:
            # the callback itself builds the quantifier over the (re-created) bound variables and the new body
            m = self.world.mk_term(self.Kop, self.args, self.world.payload_terms(self.Kop, f))
            rb_term = m
            is_rebuild = lambda x: z3.And(S.op(x) == self.Kop, S.arg(x, S.K(0)) == self.args[0], S.qvset(x) == S.qvset(f))
        else:
            is_rebuild = None
        if self.mgs:
            goals.append(("most-general:key-wins", z3.Implies(indom, r == self.lookup(f, f))))
            if is_rebuild is None:
                goals.append(("most-general:otherwise-rebuild",
                              z3.Implies(z3.Not(indom), (r == rb) if rb is not None else z3.BoolVal(False))))
                if rb is not None:
                    goals.append(("rebuild-uses-new-children", z3.BoolVal(
                        len(ex.ghost["rebuilt_args"]) == len(self.args) and all(
                            x.eq(y) for x, y in zip(ex.ghost["rebuilt_args"], self.args)))))
            else:
                goals.append(("most-general:otherwise-rebuild", z3.Implies(z3.Not(indom), is_rebuild(r))))
        else:
            if is_rebuild is None:
                if rb is None:
                    return [("most-specific:rebuild-first", z3.BoolVal(False))]
                goals.append(("most-specific:rebuild-then-replace", r == self.lookup(rb, rb)))
                goals.append(("rebuild-uses-new-children", z3.BoolVal(
                    len(ex.ghost["rebuilt_args"]) == len(self.args) and all(
                        x.eq(y) for x, y in zip(ex.ghost["rebuilt_args"], self.args)))))
            else:
                # r = sigma.get(q, q) for the rebuilt quantifier q
                hit = z3.Or([r == v_ for v_ in self.vals]) if self.vals else z3.BoolVal(False)
                goals.append(("most-specific:rebuild-then-replace",
                              z3.Or(is_rebuild(r), z3.And(hit, z3.Or([z3.And(is_rebuild(k_), r == v_)
                                                                      for k_, v_ in zip(self.keys, self.vals)])
                                                          if self.keys else z3.BoolVal(False)))))
        return goals

    def witness(self, model, ex):
        from pyvc.concretize import node_to_json
        return {"op": S.OPNAMES[self.Kop], "formula": node_to_json(model, self.formula, 2),
                "keys": [node_to_json(model, k_, 2) for k_ in self.keys]}


class NestedSubstitute(Contract):
    """the fresh walker's substitute(body, subs=..., interpretations=...) inside a quantifier:
    records the map it was given; returns a node of the body's type"""
    def __init__(self, cls):
        self.qualname = cls + "::substitute"

    def when(self, ex, a, kw):
        return ex.depth > 0

    def apply(self, ex, a, kw):
        ex.ghost["nested_walker"] = a[0]
        ex.ghost["nested_formula"] = a[1]
        ex.ghost["nested_subs"] = kw.get("subs", a[2] if len(a) > 2 else None)
        r = ex.fresh("body_subst", Node)
        self.world.touch(ex, r)
        ex.assume(S.type_of(r) == S.type_of(a[1]))
        return r


class BinderVariant(Variant):
    """Substituter._push_with_children_to_stack on a quantifier"""
    prop_ids = ("C05",)
    bounded = "arity"
    qualname = "pysmt.substituter.Substituter._push_with_children_to_stack"

    def __init__(self, world, cls, Kop, n):
        self.world, self.cls, self.Kop, self.n = world, cls, Kop, n
        self.name = "binder:%s[%s]/map%d" % (cls.rsplit(".", 1)[1], S.OPNAMES[Kop], n)
        self.max_arity = 2

    def setup(self, ex):
        W = self.world
        env = core.make_env(ex, W)
        install_walker_support(W)
        for c in (NestedSubstitute(self.cls),):
            c.world = W
            W.contracts[c.qualname] = c
        W.builtins["new:" + self.cls] = Builtin("new-substituter", lambda exx, a, kw: make_walker(exx, W, self.cls, a[0] if a else kw["env"]))
        ex.ghost["enumerate_sets"] = True
        f = z3.Const("formula", Node)
        self.formula = f
        ex.assume(S.op(f) == self.Kop)
        W.learn(ex, f, op=self.Kop, k=1)
        self.keys = [z3.Const("key%d" % i, Node) for i in range(self.n)]
        self.vals = [z3.Const("to%d" % i, Node) for i in range(self.n)]
        for k_, v_ in zip(self.keys, self.vals):
            W.touch(ex, k_)
            W.touch(ex, v_)
        if self.n > 1:
            ex.assume(z3.Distinct(self.keys))
        self.sigma = DictVal(list(zip(self.keys, self.vals)))
        self.w = make_walker(ex, W, self.cls, env)
        self.w.fields["stack"] = ["outer-entry"]
        fi = W.repo.func(self.qualname)
        return W.wrap_func(fi, fi.module, bound=self.w), [f], {"substitutions": self.sigma, "interpretations": DictVal()}

    def check(self, ex, outcome):
        kind, r = outcome
        if kind == "raise":
            return [("no-exception", z3.BoolVal(False))]
        f = self.formula
        ns = ex.ghost.get("nested_subs")
        if not isinstance(ns, DictVal):
            return [("body-substituted-with-filtered-map", z3.BoolVal(False))]
        goals = [("fresh-walker-for-the-body", z3.BoolVal(ex.ghost.get("nested_walker") is not self.w)),
                 ("substitutes-the-body", ex.ghost["nested_formula"] == S.arg(f, S.K(0))),
                 ("parent-stack-untouched", z3.BoolVal(self.w.fields["stack"] == ["outer-entry"]))]
        for k_, v_ in zip(self.keys, self.vals):
            keep = z3.SetIntersect(S.fv(k_), S.qvset(f)) == z3.EmptySet(Node)
            present = z3.Or([z3.And(k2 == k_, v2 == v_) for k2, v2 in ns.items]) if ns.items else z3.BoolVal(False)
            anykey = z3.Or([k2 == k_ for k2, v2 in ns.items]) if ns.items else z3.BoolVal(False)
            goals.append(("key-kept-iff-free-of-bound-variables", z3.And(z3.Implies(keep, present), z3.Implies(z3.Not(keep), z3.Not(anykey)))))
        for k2, v2 in ns.items:
            goals.append(("no-invented-keys", z3.Or([z3.And(k2 == k_, v2 == v_) for k_, v_ in zip(self.keys, self.vals)])
                          if self.keys else z3.BoolVal(False)))
        memo = self.w.fields["memoization"]
        ok = isinstance(memo, DictVal) and len(memo.items) == 1
        goals.append(("memoises-rebuilt-quantifier", z3.And(memo.items[0][0] == f, S.op(memo.items[0][1]) == S.op(memo.items[0][1]))
                      if ok else z3.BoolVal(False)))
        return goals


class SubstituteArgsVariant(Variant):
    """Substituter.substitute: argument checks (non-term keys / values rejected)"""
    prop_ids = ("C05",)
    qualname = "pysmt.substituter.Substituter.substitute"
    name = "substitute:argument-checks"

    def __init__(self, world):
        self.world = world

    def setup(self, ex):
        W = self.world
        env = core.make_env(ex, W)
        from .c16_tracking import Contains
        c = Contains()
        c.world = W
        W.contracts[c.qualname] = c

        class WalkSummary(Contract):
            qualname = "pysmt.substituter.MGSubstituter::walk"

            def apply(self_, exx, a, kw):
                exx.ghost["walk_called"] = kw
                r = exx.fresh("walked", Node)
                W.touch(exx, r)
                return r
        ws = WalkSummary()
        ws.world = W
        W.contracts[ws.qualname] = ws
        self.f, self.k, self.v = z3.Const("formula", Node), z3.Const("key0", Node), z3.Const("to0", Node)
        for n_ in (self.f, self.k, self.v):
            W.touch(ex, n_)
        w = make_walker(ex, W, "pysmt.substituter.MGSubstituter", env)
        fi = W.repo.func(self.qualname)
        return W.wrap_func(fi, fi.module, bound=w), [self.f], {"subs": DictVal([(self.k, self.v)])}

    def is_term(self, n_):
        return z3.Not(z3.And(S.op(n_) == S.SYMBOL, Ty.is_FunT(S.pl_ty(n_))))

    def check(self, ex, outcome):
        kind, r = outcome
        ok = z3.And(self.is_term(self.f), self.is_term(self.k), self.is_term(self.v))
        if kind == "raise":
            return [("error-only-for-non-terms", z3.Not(ok))]
        kw = ex.ghost.get("walk_called")
        return [("non-terms-rejected", ok),
                ("walks-with-the-given-map", z3.BoolVal(kw is not None and isinstance(kw.get("substitutions"), DictVal)
                                                        and len(kw["substitutions"].items) == 1))]


def extras(prop, tier, seed):
    if prop != "C05":
        return []
    from pyvc.report import run_bounded
    return [run_bounded("substitution", tier, seed), run_bounded("interpretations", tier, seed)]


def variants(world, tier="quick", only=None):
    out = []
    disp = world.repo.dispatch(IDW)
    for Kop in range(S.NOPS):
        if Kop == S.ALGEBRAIC_CONSTANT:
            continue
        target = disp.get(Kop)
        if target is None or target.endswith("walk_error"):
            continue
        for k in ARITIES.get(Kop, (S.FIXED_ARITY.get(Kop),)):
            out.append(RebuildVariant(world, Kop, k, target))
    for cls in ("pysmt.substituter.MGSubstituter", "pysmt.substituter.MSSubstituter"):
        d = world.repo.dispatch(cls)
        done = set()
        for Kop in (S.AND, S.NOT, S.SYMBOL, S.INT_CONSTANT, S.PLUS, S.ITE, S.BV_ADD, S.EQUALS, S.ARRAY_SELECT, S.FORALL, S.EXISTS,
                    S.STR_LENGTH, S.LE):
            target = d.get(Kop)
            if target is None or target.endswith("Substituter.walk_function"):
                continue
            k = ARITIES.get(Kop, (S.FIXED_ARITY.get(Kop),))[0]
            for n in (0, 1, 2):
                out.append(SubstVariant(world, cls, Kop, k, target, n))
        for Kop in (S.FORALL, S.EXISTS):
            for n in (0, 1) + ((2,) if tier == "thorough" else ()):
                out.append(BinderVariant(world, cls, Kop, n))
    out.append(SubstituteArgsVariant(world))
    if only:
        out = [v for v in out if any(o in v.name for o in only)]
    return out


# ---------------------------------------------------------------------------
# function interpretations: FunctionInterpretation.interpret and Substituter.walk_function
# ---------------------------------------------------------------------------
FI = "pysmt.substituter.FunctionInterpretation"


class InterpretVariant(Variant):
    """interpret(env, actuals): the body with every formal parameter replaced by its actual argument SIMULTANEOUSLY - one
    call of the environment's substitution (a new walker of its class) on the body with the map {formal_i: actual_i}; an
    error for a wrong number of arguments."""
    prop_ids = ("C05",)
    bounded = "arity"

    def __init__(self, world, k, given):
        self.world, self.k, self.given = world, k, given
        self.qualname = FI + ".interpret"
        self.name = "interpretation:interpret[%d formals/%d actuals]" % (k, given)

    def setup(self, ex):
        W = self.world
        env = core.make_env(ex, W)
        self.body = z3.Const("function_body", Node)
        W.touch(ex, self.body)
        self.formals = [z3.Const("formal%d" % i, Node) for i in range(self.k)]
        self.actuals = [z3.Const("actual%d" % i, Node) for i in range(self.given)]
        for x in self.formals + self.actuals:
            W.touch(ex, x)
        if self.k > 1:
            ex.assume(z3.Distinct(self.formals))
        self.calls = []
        v = self

        def substitute(exx, a, kw):
            v.calls.append((a[1] if len(a) > 1 else kw.get("formula"), a[2] if len(a) > 2 else kw.get("subs")))
            r = exx.fresh("substituted_body", Node)
            W.touch(exx, r)
            return r
        cls = env.fields["_substituter"].cls if "_substituter" in env.fields else "pysmt.substituter.MGSubstituter"

        class NewSubstituter(Contract):
            qualname = "new:" + cls

            def apply(self, exx, a, kw):
                o = Obj(cls, {"env": a[0] if a else kw.get("env")}, tag="new-substituter")
                o.fields["substitute"] = Builtin("substitute", substitute, bound=o)
                return o
        c = NewSubstituter()
        c.world = W
        W.contracts[c.qualname] = c
        self.fi = Obj(FI, {"formal_params": list(self.formals), "function_body": self.body}, tag="interpretation")
        fn = W.repo.func(self.qualname)
        return W.wrap_func(fn, fn.module, bound=self.fi), [env, list(self.actuals)], {}

    def check(self, ex, outcome):
        kind, r = outcome
        if self.k != self.given:
            return [("wrong-number-of-arguments-is-an-error", z3.BoolVal(kind == "raise"))]
        if kind == "raise":
            return [("no-exception", z3.BoolVal(False))]
        goals = [("one-simultaneous-substitution", z3.BoolVal(len(self.calls) == 1))]
        if len(self.calls) != 1:
            return goals
        f, subs = self.calls[0]
        goals.append(("on-the-body", (f == self.body) if is_node(f) else z3.BoolVal(False)))
        items = subs.items if isinstance(subs, DictVal) else (list(subs.items()) if isinstance(subs, dict) else None)
        ok = items is not None and len(items) == self.k
        goals.append(("map-is-formal-to-actual", z3.And([z3.And(kk == a, vv == b) for (kk, vv), a, b in zip(items, self.formals, self.actuals)])
                      if ok and self.k else z3.BoolVal(bool(ok))))
        goals.append(("returns-the-substituted-body", (r == ex.ghost.get("last_substituted", r)) if is_node(r) else z3.BoolVal(False)))
        return goals


class WalkFunctionVariant(Variant):
    """Substituter.walk_function on f(x1..xk) with the already substituted arguments: if f has an interpretation the result is
    that interpretation applied to the new arguments (in order); otherwise the application is rebuilt on them."""
    prop_ids = ("C05",)
    bounded = "arity"

    def __init__(self, world, k, interpreted):
        self.world, self.k, self.interpreted = world, k, interpreted
        self.qualname = "pysmt.substituter.Substituter.walk_function"
        self.name = "interpretation:walk_function[%d args/%s]" % (k, "interpreted" if interpreted else "uninterpreted")

    def setup(self, ex):
        W = self.world
        env = core.make_env(ex, W)
        install_walker_support(W)
        f = z3.Const("application", Node)
        W.touch(ex, f)
        ex.assume(S.op(f) == S.FUNCTION)
        W.learn(ex, f, op=S.FUNCTION, k=self.k)
        self.formula = f
        fname = S.pl_node(f)
        self.args = [z3.Const("new%d" % i, Node) for i in range(self.k)]
        for i, a in enumerate(self.args):
            W.touch(ex, a)
            ex.assume(S.type_of(a) == S.type_of(S.arg(f, S.K(i))))
        self.calls = []
        v = self

        def interpret(exx, a, kw):
            v.calls.append((a[1] if len(a) > 1 else kw.get("env"), a[2] if len(a) > 2 else kw.get("actual_params")))
            r = exx.fresh("interpreted", Node)
            W.touch(exx, r)
            v.result = r
            return r
        other = z3.Const("other_function", Node)
        ex.assume(other != fname)
        io = Obj(FI, {}, tag="interpretation")
        io.fields["interpret"] = Builtin("interpret", interpret, bound=io)
        io2 = Obj(FI, {}, tag="other-interpretation")
        io2.fields["interpret"] = Builtin("interpret", lambda exx, a, kw: exx.fresh("wrong_interpretation", Node), bound=io2)
        items = [[other, io2]] + ([[fname, io]] if self.interpreted else [])
        w = make_walker(ex, W, "pysmt.substituter.MGSubstituter", env)
        self.env = env
        fi = W.repo.func(self.qualname)
        return W.wrap_func(fi, fi.module, bound=w), [f], {"args": list(self.args), "substitutions": DictVal(), "interpretations": DictVal(items)}

    def check(self, ex, outcome):
        kind, r = outcome
        if kind == "raise":
            return [("no-exception", z3.BoolVal(False))]
        if not is_node(r):
            return [("returns-node", z3.BoolVal(False))]
        if self.interpreted:
            goals = [("interpretation-applied-once", z3.BoolVal(len(self.calls) == 1))]
            if len(self.calls) == 1:
                e, actual = self.calls[0]
                acts = BI.iterate(self.world, ex, actual) if actual is not None else []
                ok = len(acts) == self.k
                goals.append(("to-the-new-arguments-in-order", z3.And([a == b for a, b in zip(acts, self.args)]) if ok and self.k else z3.BoolVal(bool(ok))))
                goals.append(("in-this-environment", z3.BoolVal(e is self.env)))
                goals.append(("result-is-the-interpretation's", r == self.result))
            return goals
        rb = ex.ghost.get("rebuilt")
        goals = [("no-interpretation-used", z3.BoolVal(len(self.calls) == 0)),
                 ("application-rebuilt-on-the-new-arguments", (r == rb) if rb is not None else z3.BoolVal(False))]
        if rb is not None:
            goals.append(("rebuild-uses-new-children", z3.BoolVal(len(ex.ghost["rebuilt_args"]) == len(self.args) and all(
                x.eq(y) for x, y in zip(ex.ghost["rebuilt_args"], self.args)))))
        return goals


_base_variants5 = variants


def variants(world, tier="quick", only=None):
    out = _base_variants5(world, tier, None)
    for k, g in ((1, 1), (2, 2), (3, 3), (2, 1), (1, 2)):
        out.append(InterpretVariant(world, k, g))
    for k in (1, 2):
        for interp in (True, False):
            out.append(WalkFunctionVariant(world, k, interp))
    if only:
        out = [v for v in out if any(o in v.name for o in only)]
    return out


class MssEntryVariant(Variant):
    """MSSubstituter.substitute(formula, subs, interpretations): the entry point of the most-specific strategy hands all three
    arguments to the common entry point (argument checks + walk: SubstituteArgsVariant) and returns its result."""
    prop_ids = ("C05",)
    qualname = "pysmt.substituter.MSSubstituter.substitute"
    name = "mss:substitute-forwards-its-arguments"

    def __init__(self, world):
        self.world = world

    def setup(self, ex):
        W = self.world
        env = core.make_env(ex, W)
        self.f = z3.Const("formula", Node)
        W.touch(ex, self.f)
        self.subs = DictVal([[z3.Const("key", Node), z3.Const("value", Node)]])
        self.interp = DictVal([[z3.Const("function_symbol", Node), Obj(FI, {}, tag="interpretation")]])
        self.calls = []
        v = self

        class Common(Contract):
            qualname = "pysmt.substituter.Substituter.substitute"

            def apply(self, exx, a, kw):
                names = ["self", "formula", "subs", "interpretations"]
                vals = dict(zip(names, a))
                vals.update(kw)
                v.calls.append(vals)
                r = exx.fresh("substituted", Node)
                W.touch(exx, r)
                v.result = r
                return r
        c = Common()
        c.world = W
        W.contracts[c.qualname] = c
        self.w = make_walker(ex, W, "pysmt.substituter.MSSubstituter", env)
        fi = W.repo.func(self.qualname)
        return W.wrap_func(fi, fi.module, bound=self.w), [self.f], {"subs": self.subs, "interpretations": self.interp}

    def check(self, ex, outcome):
        kind, r = outcome
        if kind == "raise":
            return [("no-exception", z3.BoolVal(False))]
        goals = [("common-entry-point-called-once", z3.BoolVal(len(self.calls) == 1))]
        if len(self.calls) == 1:
            c = self.calls[0]
            goals += [("same-walker", z3.BoolVal(c.get("self") is self.w)),
                      ("formula-forwarded", (c.get("formula") == self.f) if is_node(c.get("formula")) else z3.BoolVal(False)),
                      ("substitutions-forwarded", z3.BoolVal(c.get("subs") is self.subs)),
                      ("interpretations-forwarded", z3.BoolVal(c.get("interpretations") is self.interp)),
                      ("result-returned", (r == self.result) if is_node(r) else z3.BoolVal(False))]
        return goals


_base_variants5b = variants


def variants(world, tier="quick", only=None):
    out = _base_variants5b(world, tier, None) + [MssEntryVariant(world)]
    if only:
        out = [v for v in out if any(o in v.name for o in only)]
    return out


# ---------------------------------------------------------------------------
# FormulaContextualizer (normalize: the copy of a formula into an environment): the two callbacks it overrides beside walk_symbol
# ---------------------------------------------------------------------------
class ContextualizeVariant(RebuildVariant):
    """FormulaContextualizer.walk_function / walk_array_value (formula, copied children): the contract of the identity
    rebuild - same type, the operator of the formula on the copied children in their order (index/value pairs of an array
    value stay paired), no new free symbol; sorts normalise to themselves in the model (sorts are values there)."""
    prop_ids = ("C04", "C05")
    replay_kind = "hashcons"          # copies between environments are part of that search

    def __init__(self, world, Kop, k):
        RebuildVariant.__init__(self, world, Kop, k, "pysmt.formula.FormulaContextualizer." +
                                {S.FUNCTION: "walk_function", S.ARRAY_VALUE: "walk_array_value"}[Kop])
        self.name = "copy:%s[%s/%d]" % (self.qualname.rsplit(".", 1)[1], S.OPNAMES[Kop], k)

    def setup(self, ex):
        fn, a, kw = RebuildVariant.setup(self, ex)
        w = fn.bound
        ctx = Obj("pysmt.formula.FormulaContextualizer", dict(w.fields), tag="contextualizer")
        ctx.fields["type_normalize"] = Builtin("type_normalize", lambda exx, a_, kw_: a_[-1])
        W = self.world
        fi = W.repo.func(self.qualname)
        return W.wrap_func(fi, fi.module, bound=ctx), a, kw


_base_variants5c = variants


def variants(world, tier="quick", only=None):
    out = _base_variants5c(world, tier, None)
    for Kop in (S.FUNCTION, S.ARRAY_VALUE):
        for k in ARITIES[Kop]:
            out.append(ContextualizeVariant(world, Kop, k))
    if only:
        out = [v for v in out if any(o in v.name for o in only)]
    return out
