"""C11: Tseitin / polarity definitions per connective (symbolic) + clean-up, Ackermannization
(bounded: native/bounded_more.py cnf).

Per callback of CNFizer / PolarityCNFizer: the clauses it ADDS to the clause sets of its
arguments are, under every interpretation, equivalent to  k <-> op(a_1..a_n)  (CNFizer),
resp.  k -> op(..)  for positive and  op(..) -> k  for negative polarity; k is a fresh
symbol or the recorded key of the sub-formula; all argument clauses are kept."""
import z3

from pyvc import sorts as S
from pyvc.sorts import Node, Ty, B
from pyvc.symex import Obj, DictVal, SetVal, PyRaise, ExcVal, is_node, is_z3
from pyvc.harness import Variant
from pyvc.world import Contract
from pyvc import builtins_impl as BI
from . import core
from .c02_model import SimplifySummary

DEADLINE = {"quick": 420, "thorough": 1500}
REPLAY_KIND = "cnf"


class ClauseTok:
    """an opaque clause coming from an argument's clause set"""
    def __init__(self, name):
        self.name = name

    def __repr__(self):
        return "<clause %s>" % self.name


class FreshSymbol(Contract):
    """FormulaManager.FreshSymbol(type=BOOL): a symbol that occurs nowhere so far"""
    qualname = "pysmt.formula.FormulaManager.FreshSymbol"
    assumed = "fresh name generation (new_fresh_symbol loop over the symbol table): result is a symbol not used before"

    def apply(self, ex, a, kw):
        ty = kw.get("typename", a[1] if len(a) > 1 else S.BoolT)
        k = ex.fresh("fresh_sym", Node)
        w = self.world
        old = list(ex.ghost.get("touched", {}).values())
        w.touch(ex, k)
        ex.assume(S.op(k) == S.SYMBOL)
        ex.assume(S.pl_ty(k) == ty)
        w.learn(ex, k, op=S.SYMBOL, k=0)
        for t in old:
            ex.assume(k != t)
            ex.assume(z3.Not(z3.IsMember(k, S.fv(t))))
        ex.ghost.setdefault("fresh_symbols", []).append(k)
        return k


def lit_val(x):
    return S.vb(S.val(x))


class TseitinVariant(Variant):
    prop_ids = ("C11",)
    bounded = None

    def __init__(self, world, cls, Kop, k, pol=None, known_key=False):
        self.world, self.cls, self.Kop, self.k, self.pol, self.known_key = world, cls, Kop, k, pol, known_key
        name = {S.AND: "walk_and", S.OR: "walk_or", S.NOT: "walk_not", S.IMPLIES: "walk_implies", S.IFF: "walk_iff", S.ITE: "walk_ite"}[Kop]
        fi = world.repo.method(cls, name)
        self.qualname = fi.qualname
        self.name = "tseitin:%s.%s/%d%s%s" % (cls.rsplit(".", 1)[1], name, k, "" if pol is None else "/pol=%s" % pol,
                                              "/memoised-key" if known_key else "")
        if Kop in (S.AND, S.OR):
            self.bounded = "arity"

    def nargs_for(self):
        pol = self.pol is not None
        if self.Kop == S.IFF and pol:
            return 4
        if self.Kop == S.ITE and pol:
            return 4
        return self.k

    def setup(self, ex):
        W = self.world
        env = core.make_env(ex, W)
        for c in (FreshSymbol(), SimplifySummary()):
            c.world = W
            W.contracts[c.qualname] = c
        f = z3.Const("formula", Node)
        self.formula = f
        ex.assume(S.op(f) == self.Kop)
        W.learn(ex, f, op=self.Kop, k=self.k)
        ex.assume(S.type_of(f) == S.BoolT)
        n = self.nargs_for()
        self.lits = [z3.Const("lit%d" % i, Node) for i in range(n)]
        self.toks = [ClauseTok("c%d" % i) for i in range(n)]
        args = []
        for i, (l, t) in enumerate(zip(self.lits, self.toks)):
            W.touch(ex, l)
            ex.assume(S.type_of(l) == S.BoolT)
            if self.Kop == S.NOT and ex.decide(S.op(l) == S.BOOL_CONSTANT):
                # a Boolean constant comes with the empty clause set (walk_constant)
                self.toks[i] = None
                args.append((l, frozenset()))
            else:
                args.append((l, frozenset([t])))
        if self.pol is not None and self.Kop == S.IFF:
            # children order of PolarityCNFizer._get_children: a+, b+, a-, b-  (same literals in both polarities)
            ex.assume(self.lits[2] == self.lits[0])
            ex.assume(self.lits[3] == self.lits[1])
        if self.pol is not None and self.Kop == S.ITE:
            # i+, i-, t, e
            ex.assume(self.lits[1] == self.lits[0])
        iv = DictVal()
        self.oldkey = None
        if self.known_key:
            self.oldkey = z3.Const("recorded_key", Node)
            W.touch(ex, self.oldkey)
            ex.assume(S.type_of(self.oldkey) == S.BoolT)
            iv.items.append([f, self.oldkey])
        self.w = Obj(self.cls, {"env": env, "mgr": env.fields["_formula_manager"], "memoization": DictVal(), "stack": [],
                                "_introduced_variables": iv}, tag="cnfizer")
        fi = W.repo.func(self.qualname)
        kw = {"args": args}
        if self.pol is not None:
            kw["pol"] = self.pol
        return W.wrap_func(fi, fi.module, bound=self.w), [f], kw

    def meaning(self):
        L = [lit_val(x) for x in self.lits]
        if self.Kop == S.AND:
            return z3.And(L)
        if self.Kop == S.OR:
            return z3.Or(L)
        if self.Kop == S.IMPLIES:
            return z3.Implies(L[0], L[1])
        if self.Kop == S.IFF:
            return L[0] == L[1]
        if self.Kop == S.ITE:
            if self.pol is not None:
                return z3.If(L[0], L[2], L[3])
            return z3.If(L[0], L[1], L[2])
        if self.Kop == S.NOT:
            return z3.Not(L[0])

    def check(self, ex, outcome):
        kind, r = outcome
        if kind == "raise":
            return [("no-exception", z3.BoolVal(False))]
        if not (isinstance(r, tuple) and len(r) == 2):
            return [("returns-key-and-clauses", z3.BoolVal(False))]
        key, cs = r
        items = list(cs.items) if isinstance(cs, SetVal) else list(cs)
        toks = [x for x in items if isinstance(x, ClauseTok)]
        new = [x for x in items if not isinstance(x, ClauseTok)]
        goals = [("keeps-argument-clauses", z3.BoolVal(all(any(t is x for x in toks) for t in self.toks if t is not None)))]
        conj = []
        for c in new:
            ls = list(c.items) if isinstance(c, SetVal) else list(c)
            conj.append(z3.Or([lit_val(x) for x in ls]) if ls else z3.BoolVal(False))
        added = z3.And(conj) if conj else z3.BoolVal(True)
        kv = lit_val(key)
        m = self.meaning()
        if self.Kop == S.NOT:
            goals.append(("literal-denotes-negation", kv == m))
            goals.append(("no-clause-added", z3.BoolVal(not new)))
            return goals
        # (i) every model of the added clauses respects the needed direction(s) of  k <-> op(args)
        # (ii) giving k the value of op(args) satisfies the added clauses (models can be extended)
        if self.pol is None:
            goals.append(("added-clauses-imply-definition", z3.Implies(added, kv == m)))
        elif self.pol:
            goals.append(("added-clauses-imply-definition(positive)", z3.Implies(added, z3.Implies(kv, m))))
        else:
            goals.append(("added-clauses-imply-definition(negative)", z3.Implies(added, z3.Implies(m, kv))))
        goals.append(("definition-satisfies-added-clauses", z3.Implies(kv == m, added)))
        fresh = ex.ghost.get("fresh_symbols", [])
        if self.known_key:
            goals.append(("recorded-key-reused", z3.And(key == self.oldkey, z3.BoolVal(not fresh))))
        else:
            goals.append(("key-is-fresh-symbol", z3.BoolVal(len(fresh) == 1 and key.eq(fresh[0]))))
            iv = self.w.fields["_introduced_variables"]
            goals.append(("key-recorded-for-the-formula", z3.BoolVal(len(iv.items) == 1) if isinstance(iv, DictVal) else z3.BoolVal(False)))
        return goals


def extras(prop, tier, seed):
    if prop != "C11":
        return []
    from pyvc.report import run_bounded
    return [run_bounded("cnf", tier, seed, timeout=3000)]


def variants(world, tier="quick", only=None):
    out = []
    C, P = "pysmt.rewritings.CNFizer", "pysmt.rewritings.PolarityCNFizer"
    th = tier == "thorough"
    for Kop, ks in ((S.AND, (2, 3) if th else (2,)), (S.OR, (2, 3) if th else (2,)), (S.IMPLIES, (2,)), (S.IFF, (2,)), (S.ITE, (3,)),
                    (S.NOT, (1,))):
        for k in ks:
            out.append(TseitinVariant(world, C, Kop, k))
            if Kop != S.NOT:
                if th or Kop != S.ITE:
                    out.append(TseitinVariant(world, C, Kop, k, known_key=True))
                for pol in (True, False):
                    out.append(TseitinVariant(world, P, Kop, k, pol=pol))
    if only:
        out = [v for v in out if any(o in v.name for o in only)]
    return out


# ---------------------------------------------------------------------------
# Ackermannization: the consistency implication of two applications, and walk_function
# ---------------------------------------------------------------------------
uffree = z3.Function("uffree", Node, B)          # no uninterpreted-function application inside
NodeArr = z3.ArraySort(Node, Node)
NodeSetS = z3.SetSort(Node)


def ack_map(ex, W, name="terms_dict"):
    """_terms_dict in an arbitrary state: a map from applications to their constants (symbols of the application's type,
    free of applications) - the representation invariant of the Ackermannizer; instantiated per looked-up key"""
    from pyvc.symex import NodeMap
    return NodeMap(z3.Const(name + "_values", NodeArr), z3.Const(name + "_keys", NodeSetS))


def ack_entry_facts(ex, W, m, app):
    """invariant of one entry (assumed for the entries a call reads, proved for the entries it writes)"""
    c = z3.Select(m.arr, app)
    W.touch(ex, c)
    return [S.op(c) == S.SYMBOL, S.type_of(c) == S.type_of(app), uffree(c)]


class AckImplicationVariant(Variant):
    """Ackermannizer._generate_implication(option1, option2, f) with k arguments per application; bit i of pat1 / pat2 says
    that argument i of the first / second application is itself an application (replaced by its constant through
    _terms_dict).  Post-conditions, for ANY values of the introduced constants:
      * the result is true exactly when  (all argument pairs equal, constants standing for applications)  implies
        (the constants of the two applications are equal)           -- the functional-consistency instance, no weaker
      * no function application is left in it                       -- the advertised form"""
    prop_ids = ("C11",)
    bounded = "arity"

    def __init__(self, world, k, pat1, pat2):
        self.world, self.k, self.pat1, self.pat2 = world, k, pat1, pat2
        self.qualname = "pysmt.rewritings.Ackermannizer._generate_implication"
        self.name = "ackermann:implication[%d args/%s,%s]" % (k, format(pat1, "0%db" % k), format(pat2, "0%db" % k))
        self.max_arity = 3

    def setup(self, ex):
        from pyvc import spec
        W = self.world
        env = core.make_env(ex, W)
        mgr = env.fields["_formula_manager"]
        k = self.k
        f = z3.Const("function_symbol", Node)
        W.touch(ex, f)
        ex.assume(S.op(f) == S.SYMBOL)
        W.learn(ex, f, op=S.SYMBOL, k=0)
        ex.assume(S.Ty.is_FunT(S.pl_ty(f)))
        ex.assume(spec.valid_type(S.pl_ty(f)))
        fidx = S.Ty.fid(S.pl_ty(f))
        ex.assume(S.fun_arity(fidx) == k)
        # a function type: valid first-order parameter and return sorts
        for t in [S.fun_ret(fidx)] + [S.fun_param(fidx, S.K(i)) for i in range(k)]:
            ex.assume(z3.And(spec.valid_type(t), z3.Not(S.Ty.is_FunT(t))))
        self.m = ack_map(ex, W)
        self.repl = {}

        def arg(side, i, is_app):
            t = z3.Const("arg%d_%d" % (side, i), Node)
            W.touch(ex, t)
            ex.assume(S.type_of(t) == S.fun_param(fidx, S.K(i)))
            if is_app:
                ex.assume(S.op(t) == S.FUNCTION)
                ex.assume(z3.IsMember(t, self.m.dom))       # every application met by the walk has its constant
                for fct in ack_entry_facts(ex, W, self.m, t):
                    ex.assume(fct)
                self.repl[t.get_id()] = z3.Select(self.m.arr, t)
            else:
                ex.assume(S.op(t) != S.FUNCTION)
                ex.assume(uffree(t))          # (the arguments are results of the walk: free of applications unless they are one)
            return t
        self.o1 = [arg(1, i, self.pat1 >> i & 1) for i in range(k)]
        self.o2 = [arg(2, i, self.pat2 >> i & 1) for i in range(k)]
        fn = W.getattr(ex, mgr, "Function")
        self.app1 = ex.call(fn, [f, tuple(self.o1)], {})
        self.app2 = ex.call(fn, [f, tuple(self.o2)], {})
        for app in (self.app1, self.app2):
            ex.assume(z3.IsMember(app, self.m.dom))
            for fct in ack_entry_facts(ex, W, self.m, app):
                ex.assume(fct)
        self.c1, self.c2 = z3.Select(self.m.arr, self.app1), z3.Select(self.m.arr, self.app2)
        self.w = Obj("pysmt.rewritings.Ackermannizer", {"env": env, "mgr": mgr, "_terms_dict": self.m, "_funs_to_args": DictVal()},
                     tag="ackermannizer")
        fi = W.repo.func(self.qualname)
        return W.wrap_func(fi, fi.module, bound=self.w), [tuple(self.o1), tuple(self.o2), f], {}

    def check(self, ex, outcome):
        kind, r = outcome
        if kind == "raise":
            return [("no-exception", z3.BoolVal(False))]
        if not is_node(r):
            return [("returns-node", z3.BoolVal(False))]
        W = self.world
        W.touch(ex, r)
        sub = lambda t: self.repl.get(t.get_id(), t)
        eqs = [S.val(sub(a)) == S.val(sub(b)) for a, b in zip(self.o1, self.o2)]
        want = z3.Implies(z3.And(eqs), S.val(self.c1) == S.val(self.c2))
        shape_uffree(ex)
        return [("is-the-consistency-instance-over-the-constants", S.val(r) == S.VBool(want)),
                ("no-function-application-left", uffree(r))]


class AckWalkFunctionVariant(Variant):
    """Ackermannizer.walk_function on an application f(x1..xk) with _terms_dict in an arbitrary state satisfying its
    invariant: returns the constant of the application - the stored one, or a fresh symbol of the application's type that is
    then stored; every other entry is unchanged; the argument list is recorded under the function symbol."""
    prop_ids = ("C11",)
    bounded = "arity"

    def __init__(self, world, k, known, recorded):
        self.world, self.k, self.known, self.recorded = world, k, known, recorded
        self.qualname = "pysmt.rewritings.Ackermannizer.walk_function"
        self.name = "ackermann:walk_function[%d args/%s/%s]" % (k, "known" if known else "new",
                                                              ("function-seen" if recorded else "function-new"))
        self.max_arity = 3

    def setup(self, ex):
        from pyvc import spec
        W = self.world
        env = core.make_env(ex, W)
        mgr = env.fields["_formula_manager"]
        c = FreshSymbol()
        c.world = W
        W.contracts[c.qualname] = c
        k = self.k
        app = z3.Const("application", Node)
        W.touch(ex, app)
        ex.assume(S.op(app) == S.FUNCTION)
        W.learn(ex, app, op=S.FUNCTION, k=k)
        self.app = app
        f = S.pl_node(app)
        fidx = S.Ty.fid(S.pl_ty(f))
        ex.assume(z3.And(spec.valid_type(S.fun_ret(fidx)), z3.Not(S.Ty.is_FunT(S.fun_ret(fidx)))))
        self.m = ack_map(ex, W)
        self.arr0, self.dom0 = self.m.arr, self.m.dom
        if self.known:
            ex.assume(z3.IsMember(app, self.m.dom))
            for fct in ack_entry_facts(ex, W, self.m, app):
                ex.assume(fct)
        else:
            ex.assume(z3.Not(z3.IsMember(app, self.m.dom)))
        self.other_args = (z3.Const("earlier_argument_list_item", Node),) * 1 if k == 1 else tuple(z3.Const("earlier_arg%d" % i, Node) for i in range(k))
        self.f2a = DictVal([[f, SetVal([tuple(self.other_args)])]] if self.recorded else [])
        self.w = Obj("pysmt.rewritings.Ackermannizer", {"env": env, "mgr": mgr, "_terms_dict": self.m, "_funs_to_args": self.f2a},
                     tag="ackermannizer")
        fi = W.repo.func(self.qualname)
        return W.wrap_func(fi, fi.module, bound=self.w), [app], {"args": [z3.Const("rewritten_arg%d" % i, Node) for i in range(k)]}

    def check(self, ex, outcome):
        kind, r = outcome
        if kind == "raise":
            return [("no-exception", z3.BoolVal(False))]
        if not is_node(r):
            return [("returns-node", z3.BoolVal(False))]
        W = self.world
        W.touch(ex, r)
        app, m = self.app, self.m
        other = z3.Const("any_other_application", Node)
        goals = [("application-has-its-constant", z3.And(z3.IsMember(app, m.dom), z3.Select(m.arr, app) == r)),
                 ("constant-is-a-symbol-of-the-application's-type", z3.And(S.op(r) == S.SYMBOL, S.type_of(r) == S.type_of(app))),
                 ("other-entries-unchanged", z3.Implies(other != app, z3.And(z3.IsMember(other, m.dom) == z3.IsMember(other, self.dom0),
                                                                             z3.Select(m.arr, other) == z3.Select(self.arr0, other))))]
        if self.known:
            goals.append(("stored-constant-returned", r == z3.Select(self.arr0, app)))
        else:
            fresh = ex.ghost.get("fresh_symbols", [])
            goals.append(("new-constant-is-fresh", z3.BoolVal(len(fresh) == 1) if len(fresh) != 1 else r == fresh[0]))
        # the argument list is recorded under the function symbol (needed for the consistency implications)
        f = S.pl_node(app)
        items = self.f2a.items
        rec = None
        for kk, vv in items:
            c = BI._eq(W, ex, kk, f)
            if (c is True) or (is_z3(c) and ex.decide(c)):
                rec = vv
                break
        if self.known:
            return goals        # (an application that has its constant was recorded when the constant was made)
        if not isinstance(rec, SetVal):
            goals.append(("argument-list-recorded", z3.BoolVal(False)))
        else:
            want = [S.arg(app, S.K(i)) for i in range(self.k)]
            hit = []
            for it in rec.items:
                its = BI.iterate(W, ex, it)
                if len(its) == self.k:
                    hit.append(z3.And([a == b for a, b in zip(its, want)]))
            goals.append(("argument-list-recorded", z3.Or(hit) if hit else z3.BoolVal(False)))
            if self.recorded:
                kept = []
                for it in rec.items:
                    its = BI.iterate(W, ex, it)
                    if len(its) == len(self.other_args):
                        kept.append(z3.And([a == b for a, b in zip(its, self.other_args)]))
                goals.append(("earlier-argument-lists-kept", z3.Or(kept) if kept else z3.BoolVal(False)))
        return goals


def shape_uffree(ex):
    for info in list(ex.ghost.get("nodeinfo", {}).values()):
        t, Kop, k = info["t"], info["op"], info["k"]
        if Kop is None or k is None:
            continue
        if Kop == S.FUNCTION:
            ex.assume(uffree(t) == False)
        elif Kop in (S.AND, S.OR, S.NOT, S.IMPLIES, S.IFF, S.EQUALS):
            ex.assume(uffree(t) == z3.And([uffree(S.arg(t, S.K(i))) for i in range(k)]))


_base_variants11 = variants


def variants(world, tier="quick", only=None):
    out = _base_variants11(world, tier, None)
    for k, pats in ((1, ((0, 0), (1, 0), (0, 1), (1, 1))), (2, ((0, 0), (1, 1), (3, 0), (2, 2), (3, 3), (1, 2)))):
        for p1, p2 in pats:
            out.append(AckImplicationVariant(world, k, p1, p2))
    for k in (1, 2):
        for known in (False, True):
            for recorded in (False, True):
                if known and not recorded:
                    continue
                out.append(AckWalkFunctionVariant(world, k, known, recorded))
    if only:
        out = [v for v in out if any(o in v.name for o in only)]
    return out


# ---------------------------------------------------------------------------
# PolarityCNFizer._get_children: which sub-formula is needed in which polarity (the interface the callbacks read by position)
# ---------------------------------------------------------------------------
class PolarityChildrenVariant(Variant):
    """_get_children(f, pol): the occurrences of the children with their polarities, in the order the callbacks of the class
    index them (proved above under exactly this order): not: (a, -pol); implies: (a, -pol), (b, pol); iff: both sides in
    both polarities (a+, b+, a-, b-); and / or / quantifier: every argument in pol; Boolean ite: the condition in both
    polarities, then the branches in pol; an atom has no children."""
    prop_ids = ("C11",)
    bounded = "arity"

    def __init__(self, world, Kop, k, pol):
        self.world, self.Kop, self.k, self.pol = world, Kop, k, pol
        self.qualname = "pysmt.rewritings.PolarityCNFizer._get_children"
        self.name = "polarity:children[%s/%d/pol=%s]" % (S.OPNAMES[Kop], k, pol)

    def setup(self, ex):
        W = self.world
        env = core.make_env(ex, W)
        f = z3.Const("formula", Node)
        W.touch(ex, f)
        ex.assume(S.op(f) == self.Kop)
        W.learn(ex, f, op=self.Kop, k=self.k)
        ex.assume(S.type_of(f) == S.BoolT)
        self.f = f
        self.w = Obj("pysmt.rewritings.PolarityCNFizer", {"env": env, "mgr": env.fields["_formula_manager"], "memoization": DictVal(),
                                                        "stack": [], "_introduced_variables": DictVal()}, tag="cnfizer")
        fi = W.repo.func(self.qualname)
        return W.wrap_func(fi, fi.module, bound=self.w), [f], {"pol": self.pol}

    def check(self, ex, outcome):
        kind, r = outcome
        if kind == "raise":
            return [("no-exception", z3.BoolVal(False))]
        W = self.world
        a = [S.arg(self.f, S.K(i)) for i in range(self.k)]
        p, n = self.pol, (not self.pol)
        K = self.Kop
        if K == S.NOT:
            want = [(a[0], n)]
        elif K == S.IMPLIES:
            want = [(a[0], n), (a[1], p)]
        elif K == S.IFF:
            want = [(a[0], p), (a[1], p), (a[0], n), (a[1], n)]
        elif K in (S.AND, S.OR, S.FORALL, S.EXISTS):
            want = [(x, p) for x in a]
        elif K == S.ITE:
            want = [(a[0], p), (a[0], n), (a[1], p), (a[2], p)]
        else:
            want = []
        got = BI.iterate(W, ex, r) if r is not None else None
        if got is None or len(got) != len(want):
            return [("one-entry-per-needed-occurrence", z3.BoolVal(False))]
        goals = [("one-entry-per-needed-occurrence", z3.BoolVal(True))]
        for i, (g, w) in enumerate(zip(got, want)):
            g = BI.iterate(W, ex, g)
            ok = len(g) == 2
            goals.append(("occurrence-%d-is-the-expected-child" % i, (g[0] == w[0]) if ok and is_node(g[0]) else z3.BoolVal(False)))
            pc = g[1] if ok else None
            pc = pc if is_z3(pc) else z3.BoolVal(bool(pc)) if isinstance(pc, bool) else z3.BoolVal(False)
            goals.append(("occurrence-%d-in-the-expected-polarity" % i, pc == z3.BoolVal(w[1])))
        return goals


_base_variants11b = variants


def variants(world, tier="quick", only=None):
    out = _base_variants11b(world, tier, None)
    for pol in (True, False):
        for Kop, k in ((S.NOT, 1), (S.IMPLIES, 2), (S.IFF, 2), (S.AND, 2), (S.AND, 3), (S.OR, 2), (S.FORALL, 1), (S.ITE, 3),
                       (S.SYMBOL, 0), (S.LE, 2), (S.EQUALS, 2), (S.BOOL_CONSTANT, 0), (S.FUNCTION, 1), (S.BV_ULT, 2), (S.STR_CONTAINS, 2)):
            out.append(PolarityChildrenVariant(world, Kop, k, pol))
    if only:
        out = [v for v in out if any(o in v.name for o in only)]
    return out


# ---------------------------------------------------------------------------
# CNFizer.convert: the top-level clean-up of the clause set
# ---------------------------------------------------------------------------
class ConvertCleanupVariant(Variant):
    """convert(f) after the walk returned the top-level key tl and `shape` clauses of 1-2 literals each: with tl asserted, the
    clause set returned is equivalent to the clauses of the walk (clauses satisfied by tl or TRUE dropped, the negation of tl
    and FALSE removed from the others), FALSE_CNF exactly when that leaves an empty clause, and no clause returned mentions
    tl.  An empty clause set from the walk gives the unit clause tl."""
    prop_ids = ("C11",)
    bounded = "arity"
    qualname = "pysmt.rewritings.CNFizer.convert"

    def __init__(self, world, shape):
        self.world, self.shape = world, tuple(shape)
        self.name = "cnf:convert[clauses %s]" % (",".join(str(n) for n in shape) or "none")
        self.max_arity = 3

    def setup(self, ex):
        W = self.world
        env = core.make_env(ex, W)
        c = SimplifySummary()
        c.world = W
        W.contracts[c.qualname] = c
        self.tl = z3.Const("top_level_key", Node)
        W.touch(ex, self.tl)
        ex.assume(S.type_of(self.tl) == S.BoolT)
        self.clauses = []
        for i, n in enumerate(self.shape):
            lits = [z3.Const("lit%d_%d" % (i, j), Node) for j in range(n)]
            for l in lits:
                W.touch(ex, l)
                ex.assume(S.type_of(l) == S.BoolT)
            if n > 1:
                ex.assume(z3.Distinct(lits))
            self.clauses.append(lits)
        cnf = SetVal([SetVal(list(ls), frozen=True) for ls in self.clauses], frozen=True)
        self.w = Obj("pysmt.rewritings.CNFizer", {"env": env, "mgr": env.fields["_formula_manager"], "memoization": DictVal(), "stack": [],
                                                "_introduced_variables": DictVal()}, tag="cnfizer")
        self.w.fields["walk"] = Builtin("walk", lambda exx, a, kw: (self.tl, cnf))
        fi = W.repo.func(self.qualname)
        return W.wrap_func(fi, fi.module, bound=self.w), [z3.Const("formula", Node)], {}

    def check(self, ex, outcome):
        kind, r = outcome
        if kind == "raise":
            return [("no-exception", z3.BoolVal(False))]
        W = self.world
        t = lit_val(self.tl)
        walk = z3.And([z3.Or([lit_val(l) for l in ls]) for ls in self.clauses]) if self.clauses else z3.BoolVal(True)
        cls_ = BI.iterate(W, ex, r)
        out = []
        mentions = []
        for c in cls_:
            ls = BI.iterate(W, ex, c)
            out.append(z3.Or([lit_val(l) for l in ls]) if ls else z3.BoolVal(False))
            for l in ls:
                mentions.append(l == self.tl)
        res = z3.And(out) if out else z3.BoolVal(True)
        goals = [("with-the-key-asserted-equivalent-to-the-clauses-of-the-walk", z3.Implies(t, res == walk))]
        if self.clauses:
            goals.append(("no-clause-mentions-the-key", z3.Not(z3.Or(mentions)) if mentions else z3.BoolVal(True)))
        else:
            goals.append(("empty-walk-gives-the-unit-clause-of-the-key", z3.BoolVal(len(cls_) == 1)))
        return goals


from pyvc.symex import Builtin
_base_variants11c = variants


def variants(world, tier="quick", only=None):
    out = _base_variants11c(world, tier, None)
    for shape in ((), (1,), (2,), (1, 1), (2, 1)) + (((2, 2),) if tier == "thorough" else ()):
        out.append(ConvertCleanupVariant(world, shape))
    if only:
        out = [v for v in out if any(o in v.name for o in only)]
    return out


# ---------------------------------------------------------------------------
# Ackermannizer: every pair of applications of every function gets its consistency implication
# ---------------------------------------------------------------------------
ACK = "pysmt.rewritings.Ackermannizer"


class AckPairsVariant(Variant):
    """_generate_implications(f) with n recorded argument lists: exactly one implication per unordered pair of different lists
    (through _generate_implication, proved above).  _get_equality_implications with m functions: the union over ALL functions."""
    prop_ids = ("C11",)
    bounded = "arity"

    def __init__(self, world, method, n):
        self.world, self.method, self.n = world, method, n
        self.qualname = ACK + "." + method
        self.name = "ackermann:%s[%d]" % (method, n)

    def setup(self, ex):
        W = self.world
        env = core.make_env(ex, W)
        self.calls = []
        v = self
        self.w = Obj(ACK, {"env": env, "mgr": env.fields["_formula_manager"], "_terms_dict": DictVal()}, tag="ackermannizer")
        if self.method == "_generate_implications":
            f = z3.Const("function_symbol", Node)
            self.lists = [(z3.Const("list%d_arg" % i, Node),) for i in range(self.n)]
            for (x,) in self.lists:
                W.touch(ex, x)
            if self.n > 1:
                ex.assume(z3.Distinct([x for (x,) in self.lists]))
            self.w.fields["_funs_to_args"] = DictVal([[f, SetVal(list(self.lists))]])

            def one(exx, a, kw):
                r = exx.fresh("implication", Node)
                W.touch(exx, r)
                for _, _, r0 in v.calls:
                    exx.assume(r != r0)            # implications of different pairs are different formulas
                v.calls.append((a[1], a[2], r))
                return r
            self.w.fields["_generate_implication"] = Builtin("_generate_implication", one, bound=self.w)
            fi = W.repo.func(self.qualname)
            return W.wrap_func(fi, fi.module, bound=self.w), [f], {}
        # _get_equality_implications
        self.funs = [z3.Const("function%d" % i, Node) for i in range(self.n)]
        if self.n > 1:
            ex.assume(z3.Distinct(self.funs))
        self.w.fields["_funs_to_args"] = DictVal([[f, SetVal()] for f in self.funs])
        self.per_fun = {}

        def many(exx, a, kw):
            f = a[1]
            r = exx.fresh("implication_of", Node)
            W.touch(exx, r)
            for _, r0 in v.calls:
                exx.assume(r != r0)
            v.calls.append((f, r))
            return SetVal([r])
        self.w.fields["_generate_implications"] = Builtin("_generate_implications", many, bound=self.w)
        fi = W.repo.func(self.qualname)
        return W.wrap_func(fi, fi.module, bound=self.w), [], {}

    def check(self, ex, outcome):
        kind, r = outcome
        if kind == "raise":
            return [("no-exception", z3.BoolVal(False))]
        W = self.world
        items = BI.iterate(W, ex, r)
        if self.method == "_generate_implications":
            want_pairs = self.n * (self.n - 1) // 2
            goals = [("one-implication-per-pair", z3.BoolVal(len(self.calls) == want_pairs and len(items) == want_pairs))]
            for i in range(self.n):
                for j in range(i + 1, self.n):
                    a, b = self.lists[i][0], self.lists[j][0]
                    hit = []
                    for o1, o2, _ in self.calls:
                        x1, x2 = BI.iterate(W, ex, o1), BI.iterate(W, ex, o2)
                        if len(x1) == 1 and len(x2) == 1:
                            hit.append(z3.Or(z3.And(x1[0] == a, x2[0] == b), z3.And(x1[0] == b, x2[0] == a)))
                    goals.append(("pair-%d-%d-covered" % (i, j), z3.Or(hit) if hit else z3.BoolVal(False)))
            return goals
        goals = [("every-function-asked-once", z3.BoolVal(len(self.calls) == self.n))]
        for i, f in enumerate(self.funs):
            mine = [res for g, res in self.calls if g.eq(f)]
            ok = len(mine) == 1
            goals.append(("implications-of-function-%d-in-the-result" % i, z3.Or([x == mine[0] for x in items]) if ok and items else z3.BoolVal(False)))
        return goals


_base_variants11d = variants


def variants(world, tier="quick", only=None):
    out = _base_variants11d(world, tier, None)
    for n in (1, 2, 3):
        out.append(AckPairsVariant(world, "_generate_implications", n))
        out.append(AckPairsVariant(world, "_get_equality_implications", n))
    if only:
        out = [v for v in out if any(o in v.name for o in only)]
    return out


# ---------------------------------------------------------------------------
# PolarityCNFizer's own traversal (keys are (formula, polarity) pairs): the two step functions
# ---------------------------------------------------------------------------
PCNF = "pysmt.rewritings.PolarityCNFizer"
Res11 = z3.DeclareSort("PolarityResult")


class PolarityStepVariant(Variant):
    """_push_with_children_to_stack / _compute_node_result of PolarityCNFizer on an implication a -> b in polarity pol (children
    (a, -pol), (b, pol)), with `pat` saying which of (a,-pol), (b,pol), (f,pol) are memoised; the table also holds the SAME
    formulas in the OTHER polarity, which must not count as memoised:
      push     the node goes back on the work list marked expanded, followed by exactly its unmemoised child occurrences;
               the table is untouched
      compute  a memoised (f, pol) is not recomputed; otherwise the callback runs once with the memoised results of the
               child occurrences in order and its result is stored under (f, pol) - nothing else changes"""
    prop_ids = ("C11", "C20")

    def __init__(self, world, method, pat, pol):
        self.world, self.method, self.pat, self.pol = world, method, pat, pol
        self.qualname = PCNF + "." + method
        self.name = "polarity:%s[memo %s/pol=%s]" % (method, format(pat, "03b"), pol)

    def setup(self, ex):
        W = self.world
        env = core.make_env(ex, W)
        f = z3.Const("formula", Node)
        W.touch(ex, f)
        ex.assume(S.op(f) == S.IMPLIES)
        W.learn(ex, f, op=S.IMPLIES, k=2)
        ex.assume(S.type_of(f) == S.BoolT)
        self.f = f
        a, b = S.arg(f, S.K(0)), S.arg(f, S.K(1))
        ex.assume(z3.And(a != f, b != f, a != b))        # (a -> a would make the two polarities of one child both needed: a third shape, not generated)
        p, n = self.pol, (not self.pol)
        self.occ = [(a, n), (b, p)]
        self.res = {}
        entries = []
        # the other polarity of every formula involved is in the table: a key is the PAIR
        for i, (x, q) in enumerate(self.occ + [(f, p)]):
            entries.append([(x, (not q)), z3.Const("result_in_the_other_polarity%d" % i, Res11)])
        for i, (x, q) in enumerate(self.occ):
            if self.pat >> i & 1:
                self.res[i] = z3.Const("child%d_result" % i, Res11)
                entries.append([(x, q), self.res[i]])
        if self.pat >> 2 & 1:
            self.res["f"] = z3.Const("node_result", Res11)
            entries.append([(f, p), self.res["f"]])
        self.memo0 = [list(e) for e in entries]
        self.stack0 = [(False, z3.Const("pending_node", Node), True)]
        self.called = []
        v = self

        def callback(exx, a_, kw):
            v.called.append((a_[0] if a_ else None, kw.get("args"), kw.get("pol")))
            return z3.Const("fresh_result", Res11)
        self.w = Obj(PCNF, {"env": env, "mgr": env.fields["_formula_manager"], "memoization": DictVal(entries), "stack": list(self.stack0),
                            "functions": {S.IMPLIES: Builtin("walk_implies", callback)}, "_introduced_variables": DictVal()}, tag="cnfizer")
        fi = W.repo.method(PCNF, self.method)
        return W.wrap_func(fi, fi.module, bound=self.w), [f], {"pol": self.pol}

    def same_memo(self, ex, items, want):
        if len(items) != len(want):
            return z3.BoolVal(False)
        cs = []
        for (k1, v1), (k2, v2) in zip(items, want):
            c = BI._eq(self.world, ex, k1, k2)
            cs.append(c if is_z3(c) else z3.BoolVal(bool(c)))
            cs.append(v1 == v2)
        return z3.And(cs) if cs else z3.BoolVal(True)

    def check(self, ex, outcome):
        kind, r = outcome
        if kind == "raise":
            return [("no-exception", z3.BoolVal(False))]
        W = self.world
        memo, stack = self.w.fields["memoization"].items, self.w.fields["stack"]
        if self.method == "_push_with_children_to_stack":
            want = list(self.stack0) + [(True, self.f, self.pol)] + [(False, x, q) for i, (x, q) in enumerate(self.occ) if not (self.pat >> i & 1)]
            ok = len(stack) == len(want) and all(len(s_) == 3 and s_[0] == w_[0] for s_, w_ in zip(stack, want))
            goals = [("pushes-the-node-and-exactly-its-unmemoised-child-occurrences",
                      z3.And([z3.And(s_[1] == w_[1], (s_[2] if is_z3(s_[2]) else z3.BoolVal(bool(s_[2]))) == z3.BoolVal(w_[2])) for s_, w_ in zip(stack, want)])
                      if ok else z3.BoolVal(False))]
            goals.append(("table-untouched", self.same_memo(ex, memo, self.memo0)))
            return goals
        # _compute_node_result
        goals = [("work-list-untouched", z3.BoolVal(len(stack) == len(self.stack0)))]
        if self.pat >> 2 & 1:
            goals.append(("memoised-occurrence-not-recomputed", z3.BoolVal(len(self.called) == 0)))
            goals.append(("table-untouched", self.same_memo(ex, memo, self.memo0)))
            return goals
        goals.append(("callback-runs-exactly-once", z3.BoolVal(len(self.called) == 1)))
        if len(self.called) == 1:
            n_, args, pol = self.called[0]
            goals.append(("callback-gets-the-node-and-its-polarity", z3.And(n_ == self.f, (pol if is_z3(pol) else z3.BoolVal(bool(pol))) == z3.BoolVal(self.pol))
                          if is_node(n_) else z3.BoolVal(False)))
            want = [self.res.get(i) for i in range(2)]
            ok = isinstance(args, list) and len(args) == 2 and all(w_ is not None for w_ in want)
            goals.append(("callback-gets-the-results-of-the-child-occurrences-in-their-polarity",
                          z3.And([x_ == w_ for x_, w_ in zip(args, want)]) if ok else z3.BoolVal(False)))
        ok = len(memo) == len(self.memo0) + 1
        if ok:
            k_, v_ = memo[-1]
            kk = BI._eq(W, ex, k_, (self.f, self.pol))
            goals.append(("stores-exactly-the-entry-of-this-occurrence",
                          z3.And(self.same_memo(ex, memo[:-1], self.memo0), kk if is_z3(kk) else z3.BoolVal(bool(kk)), v_ == z3.Const("fresh_result", Res11))))
        else:
            goals.append(("stores-exactly-the-entry-of-this-occurrence", z3.BoolVal(False)))
        return goals


_base_variants11e = variants


def variants(world, tier="quick", only=None):
    out = _base_variants11e(world, tier, None)
    for pol in (True, False):
        for pat in range(4):
            out.append(PolarityStepVariant(world, "_push_with_children_to_stack", pat, pol))
        for pat in (3, 7):
            out.append(PolarityStepVariant(world, "_compute_node_result", pat, pol))
    if only:
        out = [v for v in out if any(o in v.name for o in only)]
    return out
