"""C11: Tseitin / polarity definitions per connective (symbolic) + clean-up, Ackermannization
(bounded: native/bounded_more.py cnf).

Per callback of CNFizer / PolarityCNFizer: the clauses it ADDS to the clause sets of its
arguments are, under every interpretation, equivalent to  k <-> op(a_1..a_n)  (CNFizer),
resp.  k -> op(..)  for positive and  op(..) -> k  for negative polarity; k is a fresh
symbol or the recorded key of the sub-formula; all argument clauses are kept."""
import z3

from pyvc import sorts as S
from pyvc.sorts import Node, Ty, B
from pyvc.symex import Obj, DictVal, SetVal, PyRaise, ExcVal, is_node, is_z3
from pyvc.harness import Variant
from pyvc.world import Contract
from pyvc import builtins_impl as BI
from . import core
from .c02_model import SimplifySummary

DEADLINE = {"quick": 420, "thorough": 1500}
REPLAY_KIND = "cnf"


class ClauseTok:
    """an opaque clause coming from an argument's clause set"""
    def __init__(self, name):
        self.name = name

    def __repr__(self):
        return "<clause %s>" % self.name


class FreshSymbol(Contract):
    """FormulaManager.FreshSymbol(type=BOOL): a symbol that occurs nowhere so far"""
    qualname = "pysmt.formula.FormulaManager.FreshSymbol"
    assumed = "fresh name generation (new_fresh_symbol loop over the symbol table): result is a symbol not used before"

    def apply(self, ex, a, kw):
        ty = kw.get("typename", a[1] if len(a) > 1 else S.BoolT)
        k = ex.fresh("fresh_sym", Node)
        w = self.world
        old = list(ex.ghost.get("touched", {}).values())
        w.touch(ex, k)
        ex.assume(S.op(k) == S.SYMBOL)
        ex.assume(S.pl_ty(k) == ty)
        w.learn(ex, k, op=S.SYMBOL, k=0)
        for t in old:
            ex.assume(k != t)
            ex.assume(z3.Not(z3.IsMember(k, S.fv(t))))
        ex.ghost.setdefault("fresh_symbols", []).append(k)
        return k


def lit_val(x):
    return S.vb(S.val(x))


class TseitinVariant(Variant):
    prop_ids = ("C11",)
    bounded = None

    def __init__(self, world, cls, Kop, k, pol=None, known_key=False):
        self.world, self.cls, self.Kop, self.k, self.pol, self.known_key = world, cls, Kop, k, pol, known_key
        name = {S.AND: "walk_and", S.OR: "walk_or", S.NOT: "walk_not", S.IMPLIES: "walk_implies", S.IFF: "walk_iff", S.ITE: "walk_ite"}[Kop]
        fi = world.repo.method(cls, name)
        self.qualname = fi.qualname
        self.name = "tseitin:%s.%s/%d%s%s" % (cls.rsplit(".", 1)[1], name, k, "" if pol is None else "/pol=%s" % pol,
                                              "/memoised-key" if known_key else "")
        if Kop in (S.AND, S.OR):
            self.bounded = "arity"

    def nargs_for(self):
        pol = self.pol is not None
        if self.Kop == S.IFF and pol:
            return 4
        if self.Kop == S.ITE and pol:
            return 4
        return self.k

    def setup(self, ex):
        W = self.world
        env = core.make_env(ex, W)
        for c in (FreshSymbol(), SimplifySummary()):
            c.world = W
            W.contracts[c.qualname] = c
        f = z3.Const("formula", Node)
        self.formula = f
        ex.assume(S.op(f) == self.Kop)
        W.learn(ex, f, op=self.Kop, k=self.k)
        ex.assume(S.type_of(f) == S.BoolT)
        n = self.nargs_for()
        self.lits = [z3.Const("lit%d" % i, Node) for i in range(n)]
        self.toks = [ClauseTok("c%d" % i) for i in range(n)]
        args = []
        for i, (l, t) in enumerate(zip(self.lits, self.toks)):
            W.touch(ex, l)
            ex.assume(S.type_of(l) == S.BoolT)
            if self.Kop == S.NOT and ex.decide(S.op(l) == S.BOOL_CONSTANT):
                # a Boolean constant comes with the empty clause set (walk_constant)
                self.toks[i] = None
                args.append((l, frozenset()))
            else:
                args.append((l, frozenset([t])))
        if self.pol is not None and self.Kop == S.IFF:
            # children order of PolarityCNFizer._get_children: a+, b+, a-, b-  (same literals in both polarities)
            ex.assume(self.lits[2] == self.lits[0])
            ex.assume(self.lits[3] == self.lits[1])
        if self.pol is not None and self.Kop == S.ITE:
            # i+, i-, t, e
            ex.assume(self.lits[1] == self.lits[0])
        iv = DictVal()
        self.oldkey = None
        if self.known_key:
            self.oldkey = z3.Const("recorded_key", Node)
            W.touch(ex, self.oldkey)
            ex.assume(S.type_of(self.oldkey) == S.BoolT)
            iv.items.append([f, self.oldkey])
        self.w = Obj(self.cls, {"env": env, "mgr": env.fields["_formula_manager"], "memoization": DictVal(), "stack": [],
                                "_introduced_variables": iv}, tag="cnfizer")
        fi = W.repo.func(self.qualname)
        kw = {"args": args}
        if self.pol is not None:
            kw["pol"] = self.pol
        return W.wrap_func(fi, fi.module, bound=self.w), [f], kw

    def meaning(self):
        L = [lit_val(x) for x in self.lits]
        if self.Kop == S.AND:
            return z3.And(L)
        if self.Kop == S.OR:
            return z3.Or(L)
        if self.Kop == S.IMPLIES:
            return z3.Implies(L[0], L[1])
        if self.Kop == S.IFF:
            return L[0] == L[1]
        if self.Kop == S.ITE:
            if self.pol is not None:
                return z3.If(L[0], L[2], L[3])
            return z3.If(L[0], L[1], L[2])
        if self.Kop == S.NOT:
            return z3.Not(L[0])

    def check(self, ex, outcome):
        kind, r = outcome
        if kind == "raise":
            return [("no-exception", z3.BoolVal(False))]
        if not (isinstance(r, tuple) and len(r) == 2):
            return [("returns-key-and-clauses", z3.BoolVal(False))]
        key, cs = r
        items = list(cs.items) if isinstance(cs, SetVal) else list(cs)
        toks = [x for x in items if isinstance(x, ClauseTok)]
        new = [x for x in items if not isinstance(x, ClauseTok)]
        goals = [("keeps-argument-clauses", z3.BoolVal(all(any(t is x for x in toks) for t in self.toks if t is not None)))]
        conj = []
        for c in new:
            ls = list(c.items) if isinstance(c, SetVal) else list(c)
            conj.append(z3.Or([lit_val(x) for x in ls]) if ls else z3.BoolVal(False))
        added = z3.And(conj) if conj else z3.BoolVal(True)
        kv = lit_val(key)
        m = self.meaning()
        if self.Kop == S.NOT:
            goals.append(("literal-denotes-negation", kv == m))
            goals.append(("no-clause-added", z3.BoolVal(not new)))
            return goals
        # (i) every model of the added clauses respects the needed direction(s) of  k <-> op(args)
        # (ii) giving k the value of op(args) satisfies the added clauses (models can be extended)
        if self.pol is None:
            goals.append(("added-clauses-imply-definition", z3.Implies(added, kv == m)))
        elif self.pol:
            goals.append(("added-clauses-imply-definition(positive)", z3.Implies(added, z3.Implies(kv, m))))
        else:
            goals.append(("added-clauses-imply-definition(negative)", z3.Implies(added, z3.Implies(m, kv))))
        goals.append(("definition-satisfies-added-clauses", z3.Implies(kv == m, added)))
        fresh = ex.ghost.get("fresh_symbols", [])
        if self.known_key:
            goals.append(("recorded-key-reused", z3.And(key == self.oldkey, z3.BoolVal(not fresh))))
        else:
            goals.append(("key-is-fresh-symbol", z3.BoolVal(len(fresh) == 1 and key.eq(fresh[0]))))
            iv = self.w.fields["_introduced_variables"]
            goals.append(("key-recorded-for-the-formula", z3.BoolVal(len(iv.items) == 1) if isinstance(iv, DictVal) else z3.BoolVal(False)))
        return goals


def extras(prop, tier, seed):
    if prop != "C11":
        return []
    from pyvc.report import run_bounded
    return [run_bounded("cnf", tier, seed, timeout=3000)]


def variants(world, tier="quick", only=None):
    out = []
    C, P = "pysmt.rewritings.CNFizer", "pysmt.rewritings.PolarityCNFizer"
    th = tier == "thorough"
    for Kop, ks in ((S.AND, (2, 3) if th else (2,)), (S.OR, (2, 3) if th else (2,)), (S.IMPLIES, (2,)), (S.IFF, (2,)), (S.ITE, (3,)),
                    (S.NOT, (1,))):
        for k in ks:
            out.append(TseitinVariant(world, C, Kop, k))
            if Kop != S.NOT:
                if th or Kop != S.ITE:
                    out.append(TseitinVariant(world, C, Kop, k, known_key=True))
                for pol in (True, False):
                    out.append(TseitinVariant(world, P, Kop, k, pol=pol))
    if only:
        out = [v for v in out if any(o in v.name for o in only)]
    return out
